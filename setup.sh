#!/bin/sh
# Build the Lean model, proofs, property theorems and the native driver. Offline.
set -e
cd "$(dirname "$0")/lean"
lake build PyndlModel PyndlProofs PyndlProps pyndl-driver
