#!/bin/bash
# usage: tools/try_patch.sh <seed id> <prop> [props...]  -- scratch copy of /repo + patch, run quick checks (seeds 0,1), remove
id=$1; shift
d=/var/tmp/seedrun_$id
rm -rf $d; mkdir -p $d
cp -r /repo/pyndl /repo/build.py /repo/pyproject.toml $d/
rm -f $d/pyndl/*.so $d/pyndl/*.c
src=/tmp/seed_out/$id/patch.diff; [ -f $src ] || src=/verif/seeded/$id/patch.diff
(cd $d && patch -p1 -s < $src) || { echo "patch failed"; exit 2; }
/verif/tools/try_seed.sh $d "$@"
rm -rf $d
