#!/bin/bash
# usage: tools/try_seed.sh <worktree-with-change> <prop> [more props...]   -> runs quick checks against the changed tree
wt=$1; shift
for p in "$@"; do
  for s in 0 1; do
    out=$(PYNDL_REPO=$wt VERIF_SEED=$s ./check $p --tier quick 2>&1 | tail -1)
    echo "$p seed=$s :: $out"
  done
done
# the runs above regenerated lean/PyndlModel/Generated.lean from the changed tree: restore it from /repo
flock /var/tmp/pyndl-verif/lean.lock /venv/bin/python -c "import sys; sys.path.insert(0,'/verif/harness'); import extract_constants as e; e.regenerate()" > /dev/null
