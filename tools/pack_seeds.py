#!/usr/bin/env python3
"""
Copy confirmed seeded changes from /tmp/seed_out/<id>/ into /verif/seeded/<id>/ and write
seeded/README.md. Detection results are the ones measured with tools/try_seed.sh (quick tier,
VERIF_SEED 0 and 1) and typed in below.
"""
import json
import os
import re
import shutil

OUT = '/verif/seeded'
SRC = '/tmp/seed_out'

# seed id -> (property it targets, {check: "violations seed0/seed1"}, note)
DETECTED = {
    'C01_a': ('C01', {'C01': '5/5', 'C07': '2/2'}, 'C01 gained the input-form stream (generator for ndl.ndl, path for dict_ndl); C07 forms stream caught it as built'),
    'C01_b': ('C01', {'C01': '5/2'}, 'as built (per-cue alpha stream)'),
    'C02_a': ('C02', {'C02': '5/8 (trace validation with shaken schedule: the unlocked get() blocks -> queue.Empty / raised)'}, 'as built'),
    'C02_b': ('C02', {'C02': '21/24'}, 'as built (schedule-dependent IOError for exact-divisor chunk sizes)'),
    'C03_a': ('C03', {'C03': '12/9'}, 'as built (snapshot of the weights argument)'),
    'C04_a': ('C04', {'C04': '6/6'}, 'needed the new stream real_very_slow (a real chunk slower than the 1 s poll)'),
    'C04_b': ('C04', {'C04': '3/3'}, 'needed the new stream early_in_batch_very_slow (> 4*n_jobs chunks, slow job early in a batch)'),
    'C05_a': ('C05', {'C05': '4/3'}, 'as built (faulty event last in file)'),
    'C05_b': ('C05', {'C05': '3/5', 'C07': '4/3'}, 'as built (4-column line)'),
    'C06_a': ('C06', {'C06': '2/4 (kernel crash = WorkerDied)'}, 'as built (wide cues AND wide outcomes in one event)'),
    'C07_a': ('C07', {'C07': '6/6', 'C15': '1/1 (extractor pattern no longer matches: no-failing-input-found)'}, 'as built'),
    'C08_a': ('C08', {'C08': '12/15'}, 'chunk sizes now tied to each matrix dimension (was 4/0)'),
    'C09_a': ('C09', {'C09': '1/1'}, 'as built (window longer than the context)'),
    'C10_a': ('C10', {'C10': '4/4'}, 'as built'),
    'C11_a': ('C11', {'C11': '3/3'}, 'MISSED as built: n_jobs and lower_case were parity-coupled in the generator; now drawn independently'),
    'C12_a': ('C12', {'C12': '1/3'}, 'as built'),
    'C13_a': ('C13', {'C13': '16/10', 'C03': '47/49'}, 'as built'),
    'C14_a': ('C14', {'C14': '4/5', 'C08': '4/9'}, 'chunk sizes now tied to each matrix dimension (was 0/4 for C14)'),
    'C15_a': ('C15', {'C15': '11/7', 'C10': '4/4'}, 'as built'),
    'C16_a': ('C16', {'C16': '3/3'}, 'as built'),
    'C17_a': ('C17', {'C17': '16/16', 'C05': '4/4'}, 'MISSED as built: no fault while the generator is being spooled; streams gen_raises / gen_bad_event added'),
    'C18_a': ('C18', {'C18': '1/1'}, 'MISSED as built: no small-spread columns; stream small_scale added'),
    'C19_a': ('C19', {'C19': '4/4'}, 'as built'),
    'C20_a': ('C20', {'C20': '3/3'}, 'as built'),
    # ---- round b (second, different change per property)
    'C03_b': ('C03', {'C03': '47/49'}, 'as built'),
    'C06_b': ('C06', {'C06': '2/2'}, 'sparse >2^32-cell case moved from the thorough into the quick tier'),
    'C07_b': ('C07', {'C07': '6/6', 'C11': '3/3'}, 'as built'),
    'C08_b': ('C08', {'C08': '41/40', 'C14': '25/22'}, 'as built'),
    'C09_b': ('C09', {'C09': '1/1'}, 'as built'),
    'C10_b': ('C10', {'C10': '4/4 (the extracted literal also changes: proof obligations no longer discharge)', 'C15': '10/6'}, 'as built'),
    'C11_b': ('C11', {'C11': '3/3', 'C07': '6/6'}, 'as built'),
    'C12_b': ('C12', {'C12': '12/18'}, 'as built'),
    'C13_b': ('C13', {'C13': '14/15', 'C01': '2/2', 'C06': '24/22'}, 'MISSED as built by C13 and C01 (C06 caught it): no file had more than 8 outcome ids and C13 only used remove_duplicates=None; medium vocabulary + all duplicate policies added'),
    'C14_b': ('C14', {'C14': '23/22', 'C08': '38/39'}, 'as built (table row orders differ from counting order)'),
    'C15_b': ('C15', {'C15': '1/1'}, 'as built (corpus with a lone CR); C07/C09 do not see it: each stage still meets its own contract'),
    'C16_b': ('C16', {'C16': '3/3'}, 'as built (chains that continue dict_ndl from a DataArray)'),
    'C17_b': ('C17', {'C17': '25/22'}, 'as built (faults after the chunk directory exists)'),
    'C18_b': ('C18', {'C18': '4/4'}, 'as built (odd number of rows)'),
    'C19_b': ('C19', {'C19': '7/7'}, 'as built'),
    'C20_b': ('C20', {'C20': '4/4'}, 'as built (keys beginning with a double quote)'),
    # ---- round c (third change per property; the agent knew the summaries of a and b)
    'C01_c': ('C01', {'C01': '5/5', 'C02': '25/17'}, 'as built (openmp part count rounded down: > 10 outcomes, not a multiple of 10)'),
    'C02_c': ('C02', {'C02': '42/41', 'C01': '5/5'}, 'as built (threading work items train the wrong rows)'),
    'C03_c': ('C03', {'C03': '4/9', 'C08': '2/4'}, 'MISSED as built by C03 (C08 chain stream caught it): C03 ran no Widrow-Hoff chains; stream wh_chain added (three flavours, several new names per later piece, every split)'),
    'C04_c': ('C04', {'C04': '7/4', 'C01': '2/4'}, 'MISSED as built by C04 (C01 long files caught it): ndl.ndl itself was never run with >= 11 chunk files; stream ndl_many_chunks added'),
    'C05_c': ('C05', {'C05': '10/6'}, 'as built (storage exhausted below the chunk header: every conversion job fails)'),
    'C06_c': ('C06', {'C06': '12/12'}, 'as built (bad chunk not last in the list, binary_to_real kernel)'),
    'C07_c': ('C07', {'C07': '2/2', 'C03': '20/12'}, 'MISSED as built: input forms were only compared from scratch; C07 forms now also continue from weights, C03 chain pieces take every input form. Side effect: found that ndl.ndl raises IOError on a zero-event file (model corrected: ndlCall)'),
    'C08_c': ('C08', {'C08': '28/31', 'C14': '17/18'}, 'as built'),
    'C09_c': ('C09', {'C09': '3/3', 'C15': '5/2'}, 'as built'),
    'C10_c': ('C10', {'C10': '4/4 (extracted literal pattern also changes)', 'C15': '5/4'}, 'as built'),
    'C11_c': ('C11', {'C11': '3/3'}, 'as built (punctuation-only tokens)'),
    'C12_c': ('C12', {'C12': '9/14'}, 'MISSED as built: every weight DataArray was C-contiguous; layouts C / Fortran / transposed view / selection of a larger matrix added (also for the initial weights of C07 and C13)'),
    'C13_c': ('C13', {'C13': '84/78', 'C02': '22/21'}, 'as built (threading, more outcomes than n_outcomes_per_job)'),
    'C14_c': ('C14', {'C14': '9/8', 'C08': '5/3'}, 'as built (repeated cue, remove_duplicates=False, binary->real)'),
    'C15_c': ('C15', {'C15': '12/11', 'C10': '4/4'}, 'as built (imap_unordered in filter_event_file)'),
    'C16_c': ('C16', {'C16': '2/3'}, 'as built (generator input with method=threading reports openmp)'),
    'C17_c': ('C17', {'C17': '2/1'}, 'as built (real->real wh.wh failing after the chunk directory exists; the leftover is seen while the exception is still referenced)'),
    'C18_c': ('C18', {'C18': '4/4'}, 'MISSED as built: layouts were C, Fortran, doubly strided, negative strides; layouts with exactly one unit stride added'),
    'C19_c': ('C19', {'C19': '7/7'}, 'as built (empty sentence with an end tag)'),
    'C20_c': ('C20', {'C20': '3/3'}, 'as built (integer band width)'),
    # ---- round d (ten properties; after the audits of DESIGN §13)
    'C01_d': ('C01', {'C01': '5/5', 'C03': '32/15'}, 'as built (dict_ndl skips outcome-less events)'),
    'C02_d': ('C02', {'C02': '30/32'}, 'reported as built, but the check needed 50+ minutes (hundreds of hanging calls, each waited for in full, and shrinking of hangs): the pool now shortens the deadline after three full timeouts and C02 does not shrink hangs (6.6 min)'),
    'C03_d': ('C03', {'C03': '25/26', 'C08': '13/14'}, 'as built (np.resize fills the rows of new outcomes with old data, r2b continuation)'),
    'C04_d': ('C04', {'C04': '26/17', 'C07': '2/2'}, 'as built (chunk windows counted in file lines: needs a frequency column — a dimension added after the generator audit)'),
    'C05_d': ('C05', {'C05': '3/3'}, 'as built (threading with n_jobs=1 swallows the worker error)'),
    'C07_d': ('C07', {'C07': '4/4', 'C15': '3/3'}, 'as built (csv.writer quoting of a double quote)'),
    'C10_d': ('C10', {'C10': '4/4'}, 'as built (empty map treated as no rule)'),
    'C12_d': ('C12', {'C12': '28/28', 'C03': '40/25'}, 'MISSED as built by C12 (C03 caught it): the further-learning-step clause was only run with dict_ndl; now also with ndl.ndl threading / openmp continuing from the matrix'),
    'C16_d': ('C16', {'C16': '3/3'}, 'as built (cached attribute template shared between calls)'),
    'C17_d': ('C17', {'C17': '89/98', 'C05': '40/43'}, 'as built (scratch chunk file in the system temp dir left behind by a failing conversion job)'),
    'C06_e': ('C06', {'C06': '7/12', 'C08': '0/0 (wh.wh cannot produce an event without outcomes: the empty field is the outcome \'\')'}, 'as built (real_to_binary kernel skips events without outcomes: direct kernel calls on chunks with outcome-less events)'),
    'C08_e': ('C08', {'C08': '46/42'}, 'as built (binary_to_real kernel takes the last outcome vector instead of the sum)'),
    'C09_e': ('C09', {'C09': '5/2'}, 'as built (lower-casing moved behind the symbol filter; needs lower_case=True with a lower-case-only allowed set)'),
    'C13_e': ('C13', {'C13': '29/32', 'C01': '5/5 (after the stream zero_parameter was added; 0/0 as built)'}, 'as built for C13 (beta2 = 0 law); MISSED by C01 as built (0/0): its parameter generator never drew a parameter that is exactly zero — stream zero_parameter (beta2 / beta1 / lambda / alpha = 0) added to C01'),
    'C18_e': ('C18', {'C18': '1/2'}, 'as built (scratch buffer shared between OpenMP threads: C-ordered input, n_jobs > 1, more events than the chunk size; nondeterministic)'),
    'C19_e': ('C19', {'C19': '4/4'}, 'as built (imap chunksize 0 when there are fewer files than workers)'),
    'C20_e': ('C20', {'C20': '2/2'}, 'as built (backward walk returns the word with the frequency of the dominating word)'),
}


def main():
    os.makedirs(OUT, exist_ok=True)
    rows = []
    for sid, (prop, det, note) in sorted(DETECTED.items()):
        src = os.path.join(SRC, sid)
        if not os.path.exists(os.path.join(src, 'patch.diff')):
            # already packed in an earlier session and the scratch output is gone: keep its row from the packed meta.json
            mp = os.path.join(OUT, sid, 'meta.json')
            if os.path.exists(mp):
                meta = json.load(open(mp))
                rows.append((sid, prop, meta.get('summary', ''), meta.get('needs_to_manifest', ''), meta.get('detected_by', det),
                             meta.get('note', note), meta.get('confirmed_in_fresh_worktree')))
            else:
                print('missing', sid)
            continue
        conf = os.path.join(src, 'confirm.log')
        confirmed = None
        if os.path.exists(conf):
            t = open(conf).read()
            m = re.search(r'== suite with change\n(.*)\n', t)
            exits = re.findall(r'exit=(\d+)', t)
            confirmed = {'suite_with_change': m.group(1).strip() if m else '?',
                         'demo_exit_with_change': int(exits[0]) if len(exits) > 0 else None,
                         'demo_exit_without_change': int(exits[1]) if len(exits) > 1 else None}
        dst = os.path.join(OUT, sid)
        os.makedirs(dst, exist_ok=True)
        shutil.copy(os.path.join(src, 'patch.diff'), dst)
        shutil.copy(os.path.join(src, 'demo.py'), dst)
        meta = {}
        mp = os.path.join(src, 'meta.json')
        if os.path.exists(mp):
            try:
                meta = json.load(open(mp))
            except ValueError:
                meta = {'agent_meta_unreadable': True}
        meta['property'] = prop
        meta['seed_id'] = sid
        meta['confirmed_in_fresh_worktree'] = confirmed
        meta['what_was_run'] = [
            'tools/confirm_seed.sh %s   (fresh git worktree of /repo HEAD; git apply patch.diff; build.py; full pytest suite; demo.py; git checkout; rebuild if .pyx changed; demo.py)' % sid,
            'tools/try_seed.sh <tree with the change> %s   (= PYNDL_REPO=<tree> VERIF_SEED={0,1} ./check <id> --tier quick)' % ' '.join(det),
        ]
        meta['detected_by'] = det
        meta['note'] = note
        json.dump(meta, open(os.path.join(dst, 'meta.json'), 'w'), indent=1, ensure_ascii=False)
        rows.append((sid, prop, meta.get('summary', ''), meta.get('needs_to_manifest', ''), det, note, confirmed))
    with open(os.path.join(OUT, 'README.md'), 'w') as f:
        f.write('# Seeded changes\n\nEach directory: `patch.diff` (apply with `git -C /repo apply`), `demo.py` '
                '(exit 1 with the change, 0 without), `meta.json`.\n'
                'Produced by independent sub-agents that saw only the property record; confirmed and evaluated as '
                'described in DESIGN.md §12. Violations are counts of reported VIOLATION lines for VERIF_SEED 0 / 1, quick tier.\n\n')
        f.write('| seed | property | what the change does | needs to manifest | reported by | remark |\n|---|---|---|---|---|---|\n')
        for sid, prop, summ, needs, det, note, conf in rows:
            f.write('| %s | %s | %s | %s | %s | %s |\n' % (
                sid, prop, summ.replace('|', '/').replace('\n', ' ')[:300], needs.replace('|', '/').replace('\n', ' ')[:300],
                '; '.join('%s: %s' % kv for kv in det.items()), note))
    print('packed', len(rows))


if __name__ == '__main__':
    main()
