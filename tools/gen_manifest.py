#!/usr/bin/env python3
"""Regenerate /verif/MANIFEST.json from the table below (keeps the file valid and consistent)."""
import json
import os

HERE = os.path.dirname(os.path.dirname(os.path.abspath(__file__)))

BASE_NOTE = ("Trusted: Lean 4.33 kernel (+ leanchecker in thorough); axioms propext/Classical.choice/Quot.sound only "
             "(audited each run); the hand-written Lean model is tied to the code only by the differential "
             "correspondence run (generators, pool, canonicalisation); constants extractor; ")

CLAIMED = {
    'C01': ("dictNdl_eq_spec, kernel_threading_eq_spec, kernel_openmp_eq_spec, policy_error, policy_keep, dedup_perm_invariant: the models of dict_ndl and of the compiled kernel under every valid schedule equal the Rescorla-Wagner specification for every event list and parameter value; differential run of dict_ndl / ndl threading / ndl openmp vs the Lean driver with exact rational comparison. Also ndl_eq_spec (whole ndl.ndl model end to end on names) and, for the call itself, ndl_call_eq_spec (non-empty files) / ndl_call_empty_openmp (zero-event file raises IOError; stream zero_events).",
            "IEEE-754 rounding (theorems over commutative rings; exact comparison only inside the exact-dyadic domain); malloc/fread success in the kernels."),
    'C02': ("schedule_independent_threading/_openmp for EVERY interleaving of the part programs, partitions (sliceList/ompParts), footprint_disjoint, work-queue protocol exactly-once/bounded/progress; real runs over n_jobs x chunk x method x PYTHONHASHSEED, exactly-once probe, and trace validation of the observed queue history against the Lean transition system.",
            "partial: OpenMP's actual scheduling is not observable (theorem under DRF=>SC + result comparison); threading.Lock is a mutex; fair scheduling of started threads."),
    'C04': ("chunks_concat, writeEvents_window, name_key_roundtrip, sort_is_numeric, count_any_order, submit_loop_terminates (every completion oracle, exact multiples included), old-rule divergence (F1), learn_chunk_independent; create_binary_event_files with injected per-job delays vs the Lean model, under deadlines.",
            "every submitted pool job eventually completes (OS/pool fairness); Pool.close() makes the next apply_async raise."),
    'C06': ("magic_agree/version_agree on constants regenerated from both source files each run, decode_encode, kernel_decode_eq_py, kernel_buffer_never_overrun, flatIndex_exact, bad_header_rejected for every position; byte-for-byte comparison of write_events with the model, all compiled entry points on model-written chunks, bad headers at every position, sparse 70000x70000 matrix (thorough).",
            "partial: C memory safety beyond the capacity invariant; little-endian host; fopen failure and truncated files are outside the property; n+chunk < 2^32 (row partition wrap needs >= 2^31 rows, not exercisable here)."),
    'C09': ("windows_spec, word_to_word_spec, ngrams_spec, stream_eq_contexts(_line), no_cross_context, create_document_eq_contexts, tokens_clean, no_overwrite, pattern_constants (regexes regenerated from the source); generated corpora x all option combinations vs the Lean driver, events compared in order.",
            "str.lower / str.strip whitespace tables and re for the three concrete patterns are Python-supplied per input; LF-freeness of tokens checked by the harness only."),
    'C03': ("learn_append, chain_eq_single (any k-way split), dict_continue, dict_chain_two, dict_from_data_array, abs_extend (new labels in later parts), input_preserved_partial; chains of 2-4 real learner calls in one process over every split position and learner mix, compared exactly with the model's single pass; snapshots of every weights argument before/after. Also ndl_continue, ndl_chain_two, data_array_from_dict, dict_roundtrip, and for chains of ARBITRARY length with a different learner per part: chain_any_length, chain_any_length_from, chain_eq_single_call, chain_split_irrelevant (PyndlProofs/Chain.lean); streams: every piece in every documented input form, wh_chain (three Widrow-Hoff flavours).",
            "partial: non-aliasing of the weights argument inside numpy/xarray/deepcopy cannot be modelled functionally and is decided only by the snapshot comparison of the differential run; Widrow-Hoff chains: C08 wh_chain_any_length / wh_chain_eq_single_call (whModel) + stream wh_chain; constant alpha along a chain; parts are non-empty (an empty part makes ndl.ndl raise IOError: ndl_call_empty_part_raises)."),
    'C07': ("splitOn_joinWith, parse_render (+ slice, general), freq_expand(_decimal), compatible_is_freq_one, forms_agree; event lists over a hostile Unicode alphabet x 4 containers x gzip/plain x compatible, frequency columns 0..5, input forms of ndl.ndl/dict_ndl cross-compared; F11 (CR in a token) reported as KNOWN-FINDING.",
            "gzip and the UTF-8 codec are identity; Python's universal-newline layer is modelled (LF, CR, CRLF); int(frequency) modelled for canonical ASCII-digit literals."),
    'C11': ("stride_perm, strided_sum (any commutative monoid), job_count_is_length, empty_slice_counts_zero, cues_outcomes_exact, n_jobs_irrelevant, word_counts_exact; event and corpus files x n_jobs 1..32 x lower_case vs the driver's direct count.",
            "str.split()/strip()/lower() results are Python-supplied per input; Pool.starmap returns results in submission order."),
    'C19': ("corpus_eq, gz_files_sorted, threads_independent, imap_any_arrival_order, not_found_listed, sort_total, sorted_unique, walk_order_irrelevant, no_overwrite(_not_found); generated subtitle trees with dangling links x n_threads, corpus and .not_found files compared byte for byte with the driver.",
            "xml.etree, gzip and os.walk(followlinks=True) are trusted (the harness writes real gzip XML from the JSON tree); float time arithmetic exactly at the 5 s boundary only for whole-second times."),
    'C05': ("conversion_fault_raises (every completion order of the pool jobs), worker_fault_raises / worker_runs_bounded / worker_never_blocks (every interleaving of the worker threads), dict_fault_raises, policy_rejects_iff, storage_need; fault enumeration on the real code: fault kind x position x learner x n_jobs x chunk size, storage byte budget swept over every chunk-size boundary, every call under a deadline in a killable worker.",
            "partial: which stage detects which fault kind per learner is a table in harness/run_C05.py sampled by the enumeration, not a theorem; wall-clock boundedness is the harness deadline (theorems bound transitions); multiprocessing.Pool re-raises worker exceptions of starmap in the caller; every submitted job eventually completes."),
    'C08': ("delta_rule_row, whR2R_eq_spec, whB2R_eq_spec, whR2B_eq_spec (each kernel = delta rule on its own row, no other row touched), binary_is_indicator, wh_schedule_independent (every valid OpenMP schedule), wh_driver_eq_spec, single_cue_outcome, wh_table_order; wh.wh in three flavours, numpy and dict_wh vs the Lean whModel, exact values and labels, continuation chains. Also wh_*_end_to_end (whModel on names = delta-rule spec), and continuation/chains: wh_*_spec_append, wh_*_continue, wh_chain_any_length, wh_chain_eq_single_call (PyndlProofs/WHChain.lean).",
            "IEEE-754 rounding outside the exact-dyadic domain; xarray dot / label-aligned arithmetic in the numpy path (modelled as the matrix update W += eta (o - W c) c^T: whNumpyModel); OpenMP scheduling under DRF=>SC."),
    'C12': ("act_eq_sum (matrix paths, multiplicity), act_cues_policy, act_missing (KeyError/ignore table), act_dict_eq_sum, paths_agree, events_independent (multi = single process), step_delta; DataArray (n_jobs 1..6) and dict-of-dicts weights vs the Lean model, exact; step_delta also on dict_ndl + activation() alone.",
            "numpy fancy indexing/sum trusted; Pool.starmap runs every per-event task exactly once, in any completion order (the multi-process path is modelled on the flat shared buffer for every such order: activation_mp_eq_single, mp_cells_written_once); exact comparison inside the dyadic domain."),
    'C14': ("onehot_sum, wh_r2b_onehot_eq_rw, wh_b2r_onehot_eq_rw, wh_r2r_onehot_eq_rw and the counter-example for repeated outcomes; wh.wh (all flavours, shuffled one-hot tables with unused dimensions) vs ndl.ndl(alpha=1, betas=(eta,eta), lambda=1) on the same file, implementation vs implementation and both vs the Lean models. Whole event sequences on names: OneHotTable, wh*Spec_onehot_eq_rw, END TO END wh_{r2b,b2r,r2r}_onehot_eq_ndl (whModel vs ndlModel through their labels), table_row_order_irrelevant_* (PyndlProofs/WHOneHot.lean).",
            "IEEE-754 rounding outside the exact-dyadic domain; wh_binary_binary is a call into ndl.ndl (differential run only); method='numpy' and dict_wh have their own models (whNumpyModel, dictWhModel: wh_numpy_onehot_eq_ndl, dict_wh_onehot_eq_ndl) on the events they accept (one cue, one outcome)."),
    'C16': ("entries_count(_mixed), entries_late, split_join, pad_strip, stored_is_join, reports_call, raw_ndl/raw_wh, save_load_identity, sep_generated (separator literal regenerated from the source); chains of 1-4 calls of ndl / dict_ndl / wh flavours with save_load at random positions vs the driver.",
            "partial: netCDF4/HDF5/xarray serialisation cannot be modelled — the netCDF clause is decided only by the differential run (values bit-exact, coords, attrs, continued learning); Python str() of floats/tuples is Python-supplied."),
    'C17': ("fs_clean (bracket = with TemporaryDirectory: every body below its directory, every exit), exit_preserved, fs_clean_nested, chunk_paths_inside, old_spool_leaks (F7); every learner x path/generator/list x temporary_directory given/defaulted x success and every injected failure incl. storage budgets: directory listings and sha256 of the input before/after.",
            "partial: that the real bodies only write below their TemporaryDirectory is what the differential run observes (not a theorem about the code); shutil.rmtree and Pool.terminate behave as documented."),
    'C20': ("band_terminates (+ fuel irrelevance), band_multiset, band_sub, band_cutoff, band_nodup, band_counter, band_size (ordered field), load_save (incl. empty key); populations 0..2000 with the shuffle replaced by a harness-chosen permutation, exact comparison when the step is dyadic, predicates otherwise (plus an exact Fraction re-run), counter files.",
            "float accumulator vs rationals outside the dyadic stream (predicates only there); parseInt models -?[0-9]+ only."),
    'C10': ("imap_eq_map, chunk_independent, filter_order, filter_sublist, drop_iff_no_cue, keep_eq_remove_compl, map_id_eq_keep, select_idem/keep_idem/remove_idem, constructor_table, malformed_raises, seps_match_source (separators regenerated from the source); files of 0-300 events x all rule kinds x n_jobs 1..8 x chunksize, output compared in order with the driver, the four laws also as implementation pairs.",
            "independence of n_jobs rests on the ordering guarantee of multiprocessing.Pool.imap (trusted; sampled for n_jobs 1..8); one malformed line per file (a rare CPython Pool.terminate deadlock with many simultaneous worker exceptions is outside the property, see DESIGN §4)."),
    'C15': ("conventions_agree (separators/header literals of writer, reader, filter, creator regenerated from the source), create_tokens_wf, filter_preserves_tokens, writer_reader_learner, writer_count, learner_activation_consistent; end-to-end pipelines corpus -> create_event_file -> filter_event_file -> cues_outcomes -> learner -> activation through the public API, every hand-over compared stage by stage with the stage models and the model-only chain compared with the final weights/activations. Assembled: split_join_shared, filter_commutes_with_render, writer_filter_reader_learner, pipeline (create -> file -> filter -> file -> reader -> dict_ndl = rwLearn on the token-level filtered events), pipeline_counts, pipeline_ndl, pipeline_ndl_dict_agree, pipeline_activation(_matrix), pipeline_next_step, pipeline_all (PyndlProofs/Pipeline.lean, Pipeline2.lean).",
            "partial: ndl.ndl composed from scratch with constant alpha within Fits32; wh learners not composed; matrix-path activations for the training events only; gzip/UTF-8 identity; the text the creator writes is taken to be renderFile of the created events (header and line-format literals extracted); Pool.imap order trusted; trusted items of C01, C07, C09, C10, C11, C12 apply."),
    'C18': ("nom_eq_cov, var_zero_iff_const, reject_iff_const, nonfinite_rejected, raises_iff, corr_eq_pearson (over the reals), cell_sq_and_sign, cells_independent(_perm), kernel_schedule_independent, correlation_schedule_independent, layout_irrelevant; integer and float matrices in C/Fortran/strided layouts x n_jobs x chunksize: r^2 and sign vs exact rationals (2^-40), bit-identity across layouts/threads/chunks, the scipy reference, degenerate columns -> exception class. KNOWN-FINDING F12 (overflow/underflow columns).",
            "the square root is irrational: value comparison |r^2 - nom^2/den^2| <= 2^-40 in Fraction arithmetic; rounding in np.mean/np.std; generators stay inside |x| <= 9 resp. N(0,1) except the extreme_range stream of F12."),
    'C13': ("row_depends_only, rename_equivariant, cue_perm, affine, linear_part, lambda_homogeneous, beta2_zero, alpha_zero about rwLearn, transported to the implementations by C01; every law also run as a metamorphic relation between 2-3 runs of the real learners, exact in the dyadic domain.",
            "IEEE-754 rounding outside the exact-dyadic domain (2^-30 relative tolerance there)."),
}


def theorem_names(pid):
    """property theorems of PyndlProps/<pid>.lean: every `theorem` that is neither marked "(definitional)" in its
    docstring nor placed under the heading "lemmas (not property theorems)" """
    import re
    src = open(os.path.join(HERE, 'lean', 'PyndlProps', pid + '.lean')).read()
    m = re.search(r'^/-! #+ lemmas \(not property theorems\)', src, re.M)
    main_part, lemma_part = (src[:m.start()], src[m.start():]) if m else (src, '')
    definitional = set()
    for d in re.finditer(r'/--(.*?)-/\s*\n(?:@\[[^\]]*\]\s*\n)?theorem\s+([A-Za-z0-9_\'.]+)', src, re.S):
        if 'definitional' in d.group(1):
            definitional.add(d.group(2))
    names = [n for n in re.findall(r'^theorem\s+([A-Za-z0-9_\'.]+)', main_part, re.M) if n not in definitional]
    others = sorted(set(re.findall(r'^theorem\s+([A-Za-z0-9_\'.]+)', lemma_part, re.M)) | definitional)
    return names, others


NOTE_OVERRIDE = {
    'C01': "Hypotheses of the end-to-end theorems: at least one event (ndlCall raises IOError on a zero-event file: proved), CfgOK (2 <= events_per_temporary_file < 2^32, 1 <= n_outcomes_per_job, openmp: outcomes + chunk < 2^32; the error directions outside it are proved and run: stream ndl_chunk_args), Fits32, policy accepts. Label / id order independence is a theorem (ndl_label_order_irrelevant); n_jobs is absent from the model (counting order is covered by it). IEEE-754 rounding (theorems over commutative rings; exact comparison only inside the exact-dyadic domain); malloc/fread success in the kernels.",
    'C02': "partial: micro-step atomicity (an access-level SC interleaving of row-disjoint kernel calls reduces to a micro-step interleaving) is a NAMED assumption, not a theorem; OpenMP's actual scheduling is not observable (theorem under DRF=>SC + result comparison); threading.Lock is a mutex; fair scheduling of started threads. The protocol-to-schedule link is proved (protocol_run_interleaves: every complete non-failing run of the refined queue protocol is an interleaving of the part programs, each exactly once).",
    'C05': "Learner-level theorems: a repeated name under the default policy, a chunk size >= 2^32, a zero-event file, a missing vector make ndlCall / whModel return the error (ndl_dup_raises, ndl_overflow_raises, ndl_empty_raises, wh_*_raises), and the abstract failing-job oracle of the submit loop is instantiated from the event file (failing_job_iff, conversion_dup_raises). partial: truncated gzip, storage exhaustion and unusable hyper-parameter types have no model value (test only: fault enumeration); wall-clock boundedness is the harness deadline (theorems bound transitions); multiprocessing.Pool re-raises worker exceptions in the caller; every submitted job eventually completes.",
    'C06': "Truncated chunk files are OUTSIDE the property and the theorems (kernel_reads_what_py_reads / kernel_rejects_what_py_rejects are about complete chunks and bad headers; the model's `.truncated` is a marker, the real readers zero-fill / ignore fread's return value); the exception class is not in the model. partial: C memory safety beyond the capacity invariant; little-endian host; fopen failure; n+chunk < 2^32 (row partition wrap needs >= 2^31 rows, not exercisable here).",
    'C07': "gzip and the UTF-8 codec are identity; Python's universal-newline layer is modelled (LF, CR, CRLF); the integer literal parser is a PARAMETER of the model (theorems for every intOf; the instance pyInt mirrors int() on ASCII, a Python-supplied table covers non-ASCII digits); 1 <= step (step = 0 raises: proved and run); container / path-vs-Path / generator dispatch is not in the model (forms_agree is about the parsed events; the forms themselves are test only).",
    'C08': "All three implementations have a model and theorems: OpenMP (whModel), method='numpy' (whNumpyModel) and dict_wh (dictWhModel, PyndlModel/WHPy.lean); the latter two accept exactly one cue and one outcome per event after the duplicate policy (hypothesis IsSingle; AssertionError otherwise: single_event_checks) and on such events equal whR2RSpec / the OpenMP result (wh_numpy_eq_openmp: the same labelled matrix; dict_wh_eq_openmp: at every pair of keys; wh_implementations_alike), continuation included (wh_numpy_continue, dict_wh_continue, *_two_calls); hypotheses: names have rows in the tables, dimension labels distinct for dict_wh and for continued calls. The order in which make_data_array lists cue dimensions is a Python set order (model: first occurrence; statements read through labels). IEEE-754 rounding outside the exact-dyadic domain; xarray dot / label-aligned arithmetic trusted to be the matrix update; OpenMP scheduling under DRF=>SC.",
    'C14': "For all flavours (r2b, b2r, r2r through whModel) and methods (numpy, dict_wh through their own models, on the single-cue / single-outcome events they accept: wh_numpy_onehot_eq_ndl, dict_wh_onehot_eq_ndl); hypotheses: at least one event, CfgOK / Fits32 of the ndl.ndl call, one-hot tables with dimension maps injective on the occurring names, outcomes unique within an event (automatic for the two methods). IEEE-754 rounding outside the exact-dyadic domain; wh_binary_binary is a call into ndl.ndl (differential run only); continued learning is C03/C08.",
    'C09': "str.lower and the white-space predicate are arbitrary functions in the theorems (the driver instance is a Python-supplied table per input); set expressions are literal characters and ranges (SetExprPlain), others raise re.error (modelled); a failing call after the event file was opened leaves header + events written so far (create_frame, late_failure_prefix; stream failing_call); the number of lines the text layer yields before a UnicodeDecodeError is Python-supplied.",
    'C10': "n_jobs is absent from the model: independence of n_jobs is by construction and rests on the ordering guarantee of multiprocessing.Pool.imap (trusted; sampled for n_jobs 1..8); rule arguments are the documented sequences / mappings (one-shot iterators are outside the documentation); one malformed line per file (a rare CPython Pool.terminate deadlock with many simultaneous worker exceptions is outside the property, see DESIGN §4); a failing call leaves a partial output file (noted, the C10 model has no file system).",
    'C11': "str.split()/strip()/lower() results are Python-supplied per input; Pool.starmap returns results in submission order; 1 <= n_jobs (0 raises: proved and run); integer literal parser as in C07.",
    'C12': "Label lists duplicate-free (w.cues.Nodup, w.outcomes.Nodup: the model takes the first index of a repeated label, the code the last); the n_jobs >= 2 path is modelled (PyndlModel/ActivationMP.lean: flat shared buffer of n_outcomes*n_events cells, one column-write task per event, the tasks in an arbitrary completion order): activation_mp_eq_single (= single process for every permutation of the tasks and every initial buffer content), mp_cells_written_once (no store outside the buffer, every cell exactly once), mp_dropped_tail_differs (seeded change C12_b is not a permutation and gives another matrix); trusted: Pool.starmap runs every task exactly once and returns after all of them, a task's column write is not torn; numpy fancy indexing/sum trusted; exact comparison inside the dyadic domain.",
    'C15': "partial: ndl.ndl composed from scratch with constant alpha within Fits32 / CfgOK and at least one event surviving the filter (otherwise IOError: pipeline_ndl_empty_raises); wh learners not composed; matrix-path activations for the training events only; gzip/UTF-8 identity; the text the creator writes is taken to be renderFile of the created events (header and line-format literals extracted; with remove_duplicates=True the code writes in set order: pipeline_order_irrelevant); Pool.imap order trusted; F14 (labels lose a trailing U+0000) is a known finding; trusted items of C01, C07, C09, C10, C11, C12 apply.",
    'C16': "Truthfulness is proved for ndl.ndl chains (ndl_chain_reports: number_events entry i is the count the learner model returns, path / method / parameters those of call i) and the append-one-entry rule for chains of any length and any starting attrs; dict_ndl / wh chains: append rule only. partial: netCDF4/HDF5/xarray serialisation cannot be modelled — the netCDF clause is decided only by the differential run (values bit-exact, coords, attrs, continued learning); supplied strings contain no '|' and no trailing space; Python str() of floats/tuples is Python-supplied.",
    'C17': "partial: that the real bodies only write below their TemporaryDirectory (OnlyBelow) is what the differential run observes, not a theorem about the code; under it: paths and file CONTENTS unchanged (fs_clean_contents, inputs_unchanged), spool and chunk directory as siblings as in the code; shutil.rmtree succeeds and Pool.terminate leaves no writer (assumed).",
    'C18': "correlation_eq_pearson composes the model run with Pearson's r over the reals (2 <= rows, no constant / non-finite column); Cython prange variables are thread-private (assumed). The square root is irrational: value comparison |r^2 - nom^2/den^2| <= 2^-40 in Fraction arithmetic; rounding in np.mean/np.std; generators stay inside |x| <= 9 resp. N(0,1) except the extreme_range stream of F12.",
    'C19': "The time arithmetic is a parameter of the model; the driver evaluates it in IEEE doubles like the code (Lean Float = C double, trusted). The exact-time theorems (corpus_eq, not_found_listed, corpus_error_prefix, clean_document_code) carry the decidable hypothesis CodeCompareAgrees (the doubles and the rationals order every pair of times the reader can compare the same way), which the driver evaluates for every generated document; that the margin condition TimesExact implies it (TimesExactSuffices) is an OPEN statement — not proved in general (Lean's Float model ships almost no lemmas), kernel-evaluated on the documents of the file incl. the boundary counter-example, and checked on every generated document. Structural theorems hold for every arithmetic. xml.etree, gzip and os.walk(followlinks=True) are trusted (the harness writes real gzip XML from the JSON tree).",
    'C20': "sample_size is an Int (negative: every retained word; 0: ZeroDivisionError; float sizes only through the *_any_step theorems); band_size needs sample_size >= 1 and positive retained frequencies; load_save needs CR/TAB/LF-free distinct keys and an LF-free header (each shown necessary); 'leaves its argument unchanged' is definitional in the model (test only); float accumulator vs rationals outside the dyadic stream (predicates only there).",
}

TIE = {
    'C01': "dict_ndl / ndl threading / ndl openmp on generated event files (dense, late names, medium and shared vocabularies, > 1024 ids per event on either or both sides, per-cue alpha as defaultdict or dict, every input form, zero events) vs the Lean driver; exact rational comparison inside the exact-dyadic domain.",
    'C02': "real runs over n_jobs x chunk x method x PYTHONHASHSEED, exactly-once probes (also over two chunk files with 7..64 threads), continuation with extra outcome rows, logged work-queue traces replayed through the Lean transition system, partition bounds vs the model.",
    'C03': "chains of 2-4 real calls over every split, learner per piece from {dict_ndl (dict / DataArray / in-place), ndl threading, ndl openmp}, every input form, repeats under all policies, re-wrapped DataArrays and netCDF round trips between pieces, wh chains in three flavours; final weights vs the model's single pass; snapshots of every object handed in.",
    'C04': "create_binary_event_files on n x per x n_jobs with injected per-job delays, frequency columns, stale chunk files, throttle boundary; ndl.ndl across chunk sizes incl. >= 11 chunk files and the limits 0 / 2^32-1 / 2^32 of both chunk-size arguments, vs makeChunks / simulate / ndlCall.",
    'C05': "fault enumeration {repeated cue, malformed lines (1/4 columns, empty line, non-integer count), truncated gzip, missing vector, byte budgets (RLIMIT_FSIZE in the conversion workers), hyper-parameter and betas faults, failing generators} x position x 8 learners with per-task n_jobs / chunk sizes; the same task without the fault must return; violations shrunk.",
    'C06': "write_events / read_binary_file byte for byte vs encodeChunk / decodeChunkPy (small exhaustive + wide + window limits), all five kernel entry points on model-written chunks (incl. > 1024 ids per event, > 2^32-cell matrices and tables, empty file list), bad headers at every position.",
    'C07': "event lists over a hostile Unicode alphabet x containers (lists, strings, tuples, iterators, DataFrames in several shapes) x gzip/plain x compatible x columns= x delimiter=, files character by character vs renderFileWith; frequency cells in every int() spelling, start/step incl. 0; six input forms of the learners from scratch and continuing from weights, with chunking and both methods.",
    'C08': "wh.wh in three flavours (openmp; r2b also with beta1 != beta2), numpy and dict_wh in every shape their signatures allow, vs whModel: tables 1-23 dims with shuffled rows, chunk sizes tied to each dimension, >= 11 chunk files, missing vectors, outcome-less events, chains, given weights with foreign / permuted / repeated labels; every numpy / dict_wh case also vs its own model (whNumpyModel / dictWhModel, the calls of a chain one by one), plus events these two reject (two cues / outcomes, repeats under False, no outcome, names without a vector; which exception, which call) and numpy with given weights.",
    'C09': "generated corpora x all option combinations (incl. verbose) vs createEventFileX (= createEvents on success); failing calls (bad set expression, corpus that stops being UTF-8, raising callable) vs what the model says is left behind; existing event file.",
    'C10': "filter_event_file on generated files x rule kinds x n_jobs 1..8 x chunk sizes x argument containers (list, tuple, set, frozenset, key view; dict / OrderedDict / defaultdict) vs the model; constructor table; idempotence; verbose.",
    'C11': "event and corpus files x n_jobs 0..32 x lower_case vs the driver's direct and strided counts; frequency cells in other int() spellings.",
    'C12': "activation on DataArray (n_jobs 1..6, several memory layouts) and dict-of-dicts weights, events as list / iterator / event-file path (with frequency column), unknown cues, all policies, vs the model; every n_jobs >= 2 case also vs the multi-process model run in a harness-chosen random completion order; one further learning step vs the activation.",
    'C13': "every law run as a metamorphic relation between 2-3 real runs (all learners, repeats under keep/dedup, medium vocabularies, initial weights in several layouts, dict_ndl handed a DataArray) and every run also vs the model.",
    'C14': "wh.wh in all flavours and methods (openmp, numpy, dict_wh) with shuffled one-hot tables and unused dimensions vs ndl.ndl(alpha=1, betas=(eta,eta), lambda=1) on the same file, incl. >= 11 chunk files; both also vs their models (numpy and dict_wh vs whModel AND vs their own models).",
    'C15': "two pipeline heads (create_event_file -> filter_event_file; events_to_file in five containers x gzip/plain x compatible) -> reader -> counts -> learner -> activation, each stage model fed the implementation's previous artefact, plus the model-only chain end to end.",
    'C16': "chains of 1-4 calls of ndl / dict_ndl / wh flavours with save/load at random positions, pathlib.Path arguments, frequency columns and several chunk files; every attribute entry vs the model, netCDF round trip bit-exact.",
    'C17': "every learner x path/generator/list x temporary_directory given/defaulted x success, every fault of C05 and learning-stage failures (bad method, n_outcomes_per_job=0, malformed weights): directory listings and sha256 of the inputs before/after.",
    'C18': "correlation() through the public function, the Python shim and the kernel on matrices in seven memory layouts x n_jobs x chunk sizes vs the model ((r^2, sign) exactly in rationals); degenerate, non-finite and small-spread columns.",
    'C19': "generated subtitle trees (nested directories, links, dangling links, non-gzip files, bad tags, pauses incl. exactly the break duration between fractional times) x n_threads vs the model evaluated in IEEE doubles; corpus and .not_found files byte for byte.",
    'C20': "populations 0..2000 with the shuffle replaced by a harness-chosen permutation, cutoffs, sample sizes incl. 0 and negative, exact comparison in the dyadic stream and predicates elsewhere; counters with special keys through save/load.",
}

DESIGN_REF = {k: 'DESIGN.md §6 ' + k for k in ['C%02d' % i for i in range(1, 21)]}


def main():
    props = [json.loads(l) for l in open(os.path.join(HERE, 'properties.jsonl'))]
    checks = []
    na = []
    for p in props:
        pid = p['id']
        if pid in CLAIMED and os.path.exists(os.path.join(HERE, 'harness', 'run_%s.py' % pid)) \
                and os.path.exists(os.path.join(HERE, 'lean', 'PyndlProps', pid + '.lean')):
            _old_text, note = CLAIMED[pid]
            note = NOTE_OVERRIDE.get(pid, note)
            names, others = theorem_names(pid)
            text = '%s. Correspondence run (harness/run_%s.py): %s' % (', '.join(names), pid, TIE[pid])
            if others:
                text += ' Not counted as property theorems (definitional / lemmas): %s.' % ', '.join(others)
            checks.append({
                'property_id': pid,
                'quick_cmd': './check %s --tier quick' % pid,
                'thorough_cmd': './check %s --tier thorough' % pid,
                'evidence_file': 'evidence/%s.json' % pid,
                'replay_cmd_template': './check %s --replay {path}' % pid,
                'engine': 'lean4-model-and-proofs',
                'level_claimed': {'category': 'proof', 'text': 'Lean 4 theorems (PyndlProps/%s.lean): %s' % (pid, text),
                                  'design_ref': DESIGN_REF[pid]},
                'level_note': BASE_NOTE + note,
                'technique': 'Lean 4 proof over hand-written executable model + differential correspondence check against the rebuilt working tree',
            })
        else:
            na.append({'property_id': pid, 'reason': 'check under construction in this session (DESIGN.md §9); claimed once its Lean theorems and correspondence run are merged'})
    ids = [c['property_id'] for c in checks]
    m = {
        'version': 1,
        'setup_cmd': './setup.sh',
        'hooks': {
            'guard': 'PYNDL_VERIF',
            'enable': 'none needed: every observation point is reachable from the test side (module attributes, env vars); PYNDL_VERIF is reserved and unused',
            'baseline_off_cmd': 'cd /repo && /venv/bin/python -m pytest -ra -q -p no:cacheprovider --timeout=900 --continue-on-collection-errors',
            'source_commits': [],
            'add_only': True,
        },
        'engines': [
            {'name': 'lean4-model-and-proofs', 'path': 'lean/', 'serves_properties': ids,
             'kind_free_text': 'Lean 4.33 executable model (PyndlModel), helper lemmas (PyndlProofs), property theorems (PyndlProps), native model driver (pyndl-driver)'},
            {'name': 'correspondence-harness', 'path': 'harness/', 'serves_properties': ids,
             'kind_free_text': 'Python differential harness: scratch build of /repo working tree, real pyndl vs Lean driver on generated cases, exact rational comparison, failing-input search and shrinking'},
        ],
        'checks': checks,
        'not_applicable': na,
        'notes': 'Genuine defects of the pinned tree were repaired by fix: commits in /repo (known_findings.jsonl, status fixed); F11 (CR inside a token) is a known finding of C07.',
    }
    with open(os.path.join(HERE, 'MANIFEST.json'), 'w') as f:
        json.dump(m, f, indent=1)
    print('claimed:', ids)
    print('not claimed:', [x['property_id'] for x in na])


if __name__ == '__main__':
    main()
