#!/bin/bash
# usage: tools/confirm_seed.sh <seed id, e.g. C06_a>
# Confirms a seeded change in a fresh scratch worktree: suite green with the change, demo exit 1 with it, 0 without.
id=$1
src=/tmp/seed_out/$id
wt=/tmp/confirm_$id
log=/tmp/seed_out/$id/confirm.log
rm -rf $wt; git -C /repo worktree prune
git -C /repo worktree add -q --detach $wt HEAD || exit 2
{
  cd $wt
  git apply $src/patch.diff || { echo "PATCH DOES NOT APPLY"; }
  /venv/bin/python build.py > /dev/null 2>&1
  echo "== suite with change"
  PYTHONPATH=$wt /venv/bin/python -m pytest -q -p no:cacheprovider --timeout=900 2>&1 | tail -1
  echo "== demo with change"
  PYTHONPATH=$wt timeout 300 /venv/bin/python $src/demo.py > /tmp/confirm_$id.demo1 2>&1; echo "exit=$?"
  tail -3 /tmp/confirm_$id.demo1
  git checkout -q -- . 
  if grep -q "\.pyx\|\.pxd" $src/patch.diff; then /venv/bin/python build.py > /dev/null 2>&1; fi
  echo "== demo without change"
  PYTHONPATH=$wt timeout 300 /venv/bin/python $src/demo.py > /tmp/confirm_$id.demo0 2>&1; echo "exit=$?"
  tail -2 /tmp/confirm_$id.demo0
} > $log 2>&1
cd /; git -C /repo worktree remove --force $wt; rm -f /tmp/confirm_$id.demo0 /tmp/confirm_$id.demo1
cat $log
