#!/bin/bash
# usage: tools/run_all.sh quick|thorough [seed]   -- runs every registered check on /repo, prints one line each
tier=${1:-quick}; seed=${2:-0}
for i in $(seq -w 1 20); do
  start=$(date +%s)
  out=$(VERIF_SEED=$seed ./check C$i --tier $tier 2>&1); code=$?
  echo "exit=$code $(echo "$out" | tail -1) [$(( $(date +%s) - start ))s]"
  echo "$out" | grep -E "^VIOLATION|INFRASTRUCTURE" | head -3
done
