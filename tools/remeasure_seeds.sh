#!/bin/bash
# usage: tools/remeasure_seeds.sh <lane> <n_lanes>   -- re-runs every seeded change of seeded/ (ids with index % n_lanes == lane)
# against the check of its property (quick tier, VERIF_SEED 0 and 1) and appends one JSON line per seed to
# /var/tmp/seed_remeasure_<lane>.jsonl
lane=$1; n=$2
out=/var/tmp/seed_remeasure_$lane.jsonl; : > $out
i=0
for d in /verif/seeded/C*_*; do
  id=$(basename $d); i=$((i+1)); [ $((i % n)) -eq $lane ] || continue
  prop=${id%%_*}
  w=/var/tmp/seedrun_$id; rm -rf $w; mkdir -p $w
  cp -r /repo/pyndl /repo/build.py /repo/pyproject.toml $w/; rm -f $w/pyndl/*.so $w/pyndl/*.c
  if ! (cd $w && patch -p1 -s < $d/patch.diff) > /dev/null 2>&1; then echo "{\"seed\": \"$id\", \"error\": \"patch does not apply\"}" >> $out; rm -rf $w; continue; fi
  v0=$(cd /verif && PYNDL_REPO=$w VERIF_SEED=0 ./check $prop --tier quick 2>&1 | tail -1 | sed -n 's/.*violations=\([0-9]*\).*/\1/p')
  v1=$(cd /verif && PYNDL_REPO=$w VERIF_SEED=1 ./check $prop --tier quick 2>&1 | tail -1 | sed -n 's/.*violations=\([0-9]*\).*/\1/p')
  echo "{\"seed\": \"$id\", \"property\": \"$prop\", \"violations_seed0\": ${v0:-null}, \"violations_seed1\": ${v1:-null}}" >> $out
  rm -rf $w
done
flock /var/tmp/pyndl-verif/lean.lock /venv/bin/python -c "import sys; sys.path.insert(0,'/verif/harness'); import extract_constants as e; e.regenerate()" > /dev/null
echo done >> $out
