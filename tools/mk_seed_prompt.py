#!/usr/bin/env python3
"""
tools/mk_seed_prompt.py <round letter>  — write /tmp/seed/prompt_<id>_<round>.txt for every property:
the generic seeding brief (/tmp/seed/PROMPT.txt is regenerated from the text below), the property's
JSON record and one-line summaries of the changes already kept in seeded/ for that property (so the
next agent picks a different mechanism). The agent sees nothing else from /verif.
"""
import glob
import json
import os
import sys

rnd = sys.argv[1]
os.makedirs('/tmp/seed', exist_ok=True)
props = [json.loads(l) for l in open('/verif/properties.jsonl')]
tmpl = open('/verif/tools/seed_prompt.txt').read()
for p in props:
    sid = '%s_%s' % (p['id'], rnd)
    wt, out = '/tmp/seed/' + sid, '/tmp/seed_out/' + sid
    prior = []
    for m in sorted(glob.glob('/verif/seeded/%s_*/meta.json' % p['id'])):
        d = json.load(open(m))
        prior.append(' - ' + (d.get('summary') or '')[:500].replace('\n', ' '))
    note = ''
    if prior:
        note = ('NOTE: other engineers already seeded the following change(s) for this property; choose a DIFFERENT '
                'mechanism, a different function or a different clause of the statement:\n' + '\n'.join(prior) + '\n')
    t = tmpl.replace('WORKTREE', wt).replace('OUTDIR', out).replace('PROPERTY_JSON', json.dumps(p, indent=1, ensure_ascii=False)) \
            .replace('PRIOR_NOTE', note)
    open('/tmp/seed/prompt_%s.txt' % sid, 'w').write(t)
print('wrote', len(props))
