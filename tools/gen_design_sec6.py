#!/usr/bin/env python3
"""Rewrite DESIGN.md §6 (between '## 6. Per property' and '## 7.') from tools/gen_manifest.py (TIE, notes), the theorem
index (docs/THEOREMS.md) and the highlights below, so that the three never drift apart."""
import json
import os
import sys
import textwrap

HERE = os.path.dirname(os.path.dirname(os.path.abspath(__file__)))
sys.path.insert(0, os.path.join(HERE, 'tools'))
import gen_manifest as G  # noqa: E402

HIGHLIGHTS = {
    'C01': "`dictNdl_eq_spec` (any initial dict, late names, outcome-less events), `policy_error/keep`, `dedup_perm_invariant`, kernels under every valid schedule, **`ndl_eq_spec` / `ndl_call_eq_spec`** (the whole `ndl.ndl` model — counting, id maps, policy, chunk files, kernels, labels — equals `rwLearn` at every pair of names, under `CfgOK`, `Fits32`, ≥ 1 event), `ndl_call_labels` (labels are exactly the names that occur), `ndl_label_order_irrelevant`, and the error directions `ndl_dup_raises`, `ndl_chunk_args_raise`, `ndl_call_empty_openmp`.",
    'C02': "partitions (`sliceList_partition`, `ompParts_partition`, 32-bit bounds `ompParts_no_wrap`), `footprint_disjoint` / `micro_steps_commute`, `schedule_independent_threading/_openmp` for every valid schedule, `every_interleaving_is_valid` and its converse, the work-queue protocol (`queue_exactly_once`, bounded, progress, failing calls) and **`protocol_run_interleaves` / `threading_protocol_schedule_independent`**: every complete non-failing run of the refined protocol IS an interleaving of the part programs, each exactly once, hence yields the specification.",
    'C03': "`learn_append`, `chain_eq_single`, `dict_continue`, **`ndl_continue` / `ndl_call_continue`**, `ndl_chain_two` (restated: the earlier version was vacuous), hand-over lemmas, and for chains of ANY length with a different learner per part **`chain_any_length`**, `chain_any_length_from`, **`chain_eq_single_call`**, `chain_split_irrelevant` (model `chainRun` over `ndlCall`; every ndl part non-empty, `chain_empty_ndl_part_raises` otherwise). Widrow–Hoff chains: C08.",
    'C04': "`chunks_concat`, `writeEvents_window` (all policies), `conversion_files` (= `makeChunks_ok`), `name_key_roundtrip`, `sort_is_numeric`, `count_any_order`, **`submit_loop_terminates`** (every delay oracle, exact multiples), **`submit_loop_step_semantics`** (the pass-by-pass step semantics `runLoop` of the `while True` loop ends within `tDone(n/per)+2` passes in exactly the closed form's state, every oracle; the driver evaluates both on every case), `submit_loop_break_iff`, `submit_loop_fuel_irrelevant` (fuel only bounds the passes looked at; a final state has the pool closed), `submit_loop_old_rule_never_breaks`, `submit_loop_diverges_on_multiple_old_rule` (F1), `chunk_size_overflow`, `learn_chunk_independent`.",
    'C05': "`conversion_fault_raises` (every completion order), `worker_fault_raises`, `dict_fault_raises`, and at learner level `ndl_dup_raises`, `ndl_overflow_raises`, `ndl_empty_raises`, `wh_dup_raises_*`, `wh_missing_vector_raises_*`, with the failing-job oracle instantiated from the file (`failing_job_iff`, `job_result_is_write_events`, `conversion_dup_raises`).",
    'C06': "`magic_agree` / `version_agree` on regenerated constants, `decode_encode`, `kernel_reads_what_py_reads` / `kernel_rejects_what_py_rejects` (restated: truncation is outside), `written_chunks_are_complete`, `write_read_window` / `write_window_overflow`, `kernel_buffer_never_overrun`, `flatIndex_exact`, `bad_header_rejected(_b2b)`, `good_chunks_consumed`, `empty_file_list_raises`.",
    'C07': "`splitOn_joinWith`, `parse_render(_slice_with)` (for every integer-literal parser, `1 ≤ step`; `step_zero_raises`), `freq_expand_with` / `freq_error_with`, `renderFileWith_*` (columns=, delimiter=, legacy header), `forms_agree`, `literals_match_source`.",
    'C08': "kernels = delta rule on their own row, `wh_schedule_independent`, **`wh_{r2b,r2r,b2r}_end_to_end`** (`whModel` on names), `wh_*_continue`, `wh_continue_label_check_{b2r,r2b,r2r}` (what each flavour does with the labels of given weights — replaces a statement that was false for two flavours), **`wh_chain_any_length`**, `wh_chain_eq_single_call`, `wh_result_carries_table_labels`; the other two implementations (own models `whNumpyModel`, `dictWhModel`): **`wh_implementations_alike`**, `wh_numpy_eq_openmp` (the same matrix), `dict_wh_eq_openmp` (at every pair of keys), `wh_numpy_continue` / `dict_wh_continue`, `*_two_calls`, `single_event_checks` + `dict_wh_raises` / `wh_numpy_table_check` (which exception).",
    'C09': "`windows_spec`, `word_to_word_spec`, `ngrams_spec`, `stream_eq_contexts`, `no_cross_context`, `split_spec` (the context splitter is complete: a splitter that misses a marker fails it), `tokens_clean`, `tokens_allowed`, `tokens_lowered`, `remove_duplicates_spec`, `callable_vs_regex`, `line_event_spec`, **`create_frame`** (early failures leave nothing, late ones a prefix: `late_failure_prefix`, `late_failure_blocks_retry`), `no_overwrite`.",
    'C10': "`imap_eq_map`, `chunk_independent`, `filter_order`, `drop_iff_no_cue`, **`keep_eq_remove_compl`** (restated relative to the tokens that occur; the earlier hypothesis was unsatisfiable: `no_global_complement`), idempotence, `constructor_table`, `malformed_raises`, `chunk_zero_raises`.",
    'C11': "`stride_perm`, `strided_sum`, `cues_outcomes_exact(_with)` for every integer-literal parser, `n_jobs_irrelevant`, `zero_jobs_raises`, `word_counts_exact`, `counters_distinct_positive`.",
    'C12': "**`activation_matrix_spec`** (about `activationMatrix` itself), `accepted_iff` / `activation_raises` (which event raises what), `act_dict_eq_sum`, `paths_agree`, `events_independent`, `dict_step_delta` / `ndl_step_delta` (one more learning step vs the modelled activation); multi-process path on the flat shared buffer: **`activation_mp_eq_single`** (every completion order, every initial buffer), **`mp_cells_written_once`**, `mp_dropped_tail_differs` (seeded change C12_b).",
    'C13': "`row_depends_only`, `rename_equivariant`, `cue_perm` / `event_perm`, `affine`, `lambda_homogeneous`, `beta2_zero(_seq)`, `alpha_zero(_cue)` on `rwLearn`, and the same laws on the MODELS: `dict_*` (via `dict_transport`) and `ndl_*`.",
    'C14': "one event / one row (`wh_*_onehot_eq_rw`), whole sequences on names (`wh*Spec_onehot_eq_rw`), **`wh_{r2b,b2r,r2r}_onehot_eq_ndl`** (`whModel` vs `ndlCall`, both read through their labels), **`table_row_order_irrelevant_*`**, **`wh_numpy_onehot_eq_ndl`** / **`dict_wh_onehot_eq_ndl`** (the other two methods, own models), counter-examples for a repeated outcome and a non-injective dimension map.",
    'C15': "interfaces (`conventions_agree`, `create_tokens_wf`, `filter_preserves_tokens`, `writer_reader_learner`, …), the assembled **`pipeline`** and **`pipeline_all`** (one filtered file, its counts, `dict_ndl` and `ndl.ndl`, both activation paths), `pipeline_order_irrelevant`, `pipeline_ndl_empty_raises`.",
    'C16': "`entries_count(_mixed)`, `call_appends_one_entry`, `chain_appends_from` (any length, any starting attrs), `chain_late_from`, **`ndl_chain_reports`** (entries are what the learner model did: `number_events` = the count it returns), `ndl_count_is_actual`, `split_join`, `pad_strip`.",
    'C17': "`fs_clean` (bracket = `with TemporaryDirectory`), `fs_clean_siblings` (spool and chunk directory as in the code), `fs_clean_contents` / **`inputs_unchanged`** (file contents), `generator_call_clean_any_spool`, `old_spool_leaks` (F7).",
    'C18': "`nom_eq_cov`, `var_zero_iff_const`, `reject_iff_const`, `raises_iff`, `cells_independent(_perm)`, `*_schedule_independent`, **`correlation_eq_pearson`** and `correlation_driver_sound` (the model run = Pearson's r over ℝ; what the rational driver computes is its square and sign).",
    'C19': "structure for every arithmetic (`threads_independent`, `imap_any_arrival_order`, `sort_total`, `walk_order_irrelevant`, `no_overwrite*`), exact times under the decidable per-document hypothesis `CodeCompareAgrees` (**`corpus_eq`**, `not_found_listed`, `corpus_error_prefix`, `code_eq_exact`, `clean_document_code`; `TimesExactSuffices` — the margin condition implies it — is an OPEN statement used only by the `*_of_times_exact` corollaries), `boundary_pair` (the float/rational counter-example as a theorem), cleaning (`clean_words`, `clean_strip`, `clean_sentence`, `paragraph_break_iff`, `clean_document`), `parse_time_spec`.",
    'C20': "`band_terminates(_any_step)`, `band_multiset`, `band_sub`, `band_cutoff`, `band_nodup`, `band_counter`, `band_size`, `band_negative_size`, `load_save` (each hypothesis shown necessary).",
}


def main():
    props = {json.loads(l)['id']: json.loads(l) for l in open(os.path.join(HERE, 'properties.jsonl'))}
    out = ['## 6. Per property', '',
           'Generated by `tools/gen_design_sec6.py` from the same tables as `MANIFEST.json`. The complete list of',
           'property theorems with their docstrings is `docs/THEOREMS.md` (generated from `lean/PyndlProps/*.lean`);',
           'below: the main ones, what the correspondence run does, and what stays partial or trusted.', '']
    for pid in sorted(props):
        names, others = G.theorem_names(pid)
        note = G.NOTE_OVERRIDE.get(pid, G.CLAIMED[pid][1])
        out.append('### %s — %s' % (pid, props[pid]['title']))
        for label, text in (('Theorems (%d; main ones)' % len(names), HIGHLIGHTS[pid]), ('Tie', G.TIE[pid]),
                            ('Partial / hypotheses / trusted', note)):
            body = textwrap.fill('**%s.** %s' % (label, text), 78, initial_indent='* ', subsequent_indent='  ',
                                 break_long_words=False, break_on_hyphens=False)
            out.append(body)
        out.append('')
    p = os.path.join(HERE, 'DESIGN.md')
    s = open(p).read()
    i, j = s.index('## 6. Per property'), s.index('## 7. Hypotheses the theorems carry')
    open(p, 'w').write(s[:i] + '\n'.join(out) + '\n' + s[j:])
    print('rewrote §6:', len(out), 'lines')


if __name__ == '__main__':
    main()
