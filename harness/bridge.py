"""
The driver evaluates Mathlib-free COPIES (lean/PyndlDriver/ModelCopies.lean) of model definitions that live
in proof files, at the scalar type TR.  Two proof files make that sound and are not imported by any
PyndlProps file, so `./check` does not build them by itself:
  PyndlProofs/DriverBridge.lean  every copy equals the original (chainRunD_eq, whChainRunD_eq,
                                 ndlChainMetaD_eq, failingJobD_eq)
  PyndlProofs/ScalarBridge.lean  the value component of TR commutes with the model functions
The runners whose expectation comes from such a copy call `check_bridges` first: a definition changed in
a proof file without its copy (or the other way round) breaks the build of DriverBridge and is reported
as a broken proof obligation.
"""
import common

MODULES = ['PyndlProofs.DriverBridge', 'PyndlProofs.ScalarBridge']


def check_bridges(rep):
    with common.lean_lock():
        # another invocation (possibly against another source tree) may have rewritten the generated constants
        # since this run's own build
        import extract_constants
        extract_constants.regenerate()
        ok, log, secs = common.lake_build(MODULES)
    rep.extra['bridge_build_s'] = round(secs, 1)
    if not ok:
        rep.lean_problems.append('the bridge between the driver\'s model copies and the theorems no longer builds: ' + log[-1200:])
    return ok
