"""
Regenerate lean/PyndlModel/Generated.lean from the literals of /repo's current
working tree.  Theorems that mention these constants (magic_agree,
version_agree, conventions_agree, ...) are re-checked against what the code
says now on every run.  Extraction is deliberately dumb: regular expressions
plus `ast.literal_eval`-style evaluation of integer expressions.
"""
import ast
import os
import re

from common import REPO, LEAN_DIR


def _int_expr(src):
    node = ast.parse(src.strip(), mode='eval').body

    def ev(n):
        if isinstance(n, ast.Constant) and isinstance(n.value, int):
            return n.value
        if isinstance(n, ast.BinOp) and isinstance(n.op, (ast.Add, ast.Sub, ast.Mult)):
            a, b = ev(n.left), ev(n.right)
            return a + b if isinstance(n.op, ast.Add) else a - b if isinstance(n.op, ast.Sub) else a * b
        raise ValueError('not an integer expression: ' + src)
    return ev(node)


def _find(pattern, text, what, problems, default=0, conv=_int_expr):
    m = re.search(pattern, text, re.M)
    if not m:
        problems.append('constant not found in source: ' + what)
        return default
    try:
        return conv(m.group(1))
    except Exception as e:  # noqa
        problems.append('constant %s not understood: %s' % (what, e))
        return default


def _str_lit(src):
    v = ast.literal_eval(src.strip())
    if not isinstance(v, str):
        raise ValueError('not a string literal')
    return v


def lean_str(s):
    out = '"'
    for ch in s:
        if ch == '"':
            out += '\\"'
        elif ch == '\\':
            out += '\\\\'
        elif ch == '\n':
            out += '\\n'
        elif ch == '\t':
            out += '\\t'
        elif ch == '\r':
            out += '\\r'
        else:
            out += ch
    return out + '"'


def extract():
    problems = []
    rd = lambda n: open(os.path.join(REPO, 'pyndl', n), encoding='utf-8').read()  # noqa: E731
    pre, par, omp, io_, cnt, corp = (rd('preprocess.py'), rd('ndl_parallel.pyx'), rd('ndl_openmp.pyx'),
                                    rd('io.py'), rd('count.py'), rd('corpus.py'))
    c = {}
    c['pyMagic'] = _find(r'^MAGIC_NUMBER\s*=\s*(.+)$', pre, 'preprocess.MAGIC_NUMBER', problems)
    c['pyVersionWithFreq'] = _find(r'^CURRENT_VERSION_WITH_FREQ\s*=\s*(.+)$', pre, 'preprocess.CURRENT_VERSION_WITH_FREQ', problems)
    c['pyVersion'] = _find(r'^CURRENT_VERSION\s*=\s*(.+)$', pre, 'preprocess.CURRENT_VERSION', problems)
    c['kernelMagic'] = _find(r'^cdef unsigned int MAGIC_NUMBER\s*=\s*(.+)$', par, 'ndl_parallel.MAGIC_NUMBER', problems)
    c['kernelVersion'] = _find(r'^cdef unsigned int CURRENT_VERSION\s*=\s*(.+)$', par, 'ndl_parallel.CURRENT_VERSION', problems)
    caps = [int(x) for x in re.findall(r'cdef unsigned int max_number_of_(?:cues|outcomes)\s*=\s*(\d+)', par)]
    if len(caps) != 8:
        problems.append('expected 8 buffer capacity literals in ndl_parallel.pyx, found %d' % len(caps))
    c['kernelBufferCap'] = min(caps) if caps else 0
    c['kernelBufferCapMax'] = max(caps) if caps else 0
    # default stop of write_events (2^32 - 1) and the shape guard of ndl.ndl
    c['writeStopDefault'] = _find(r'def write_events\(.*stop=(\d+)', pre, 'write_events stop default', problems)
    ndl_src = rd('ndl.py')
    c['shapeGuard'] = _find(r'length > (\d+) for length in weights\.shape', ndl_src, 'ndl shape guard', problems)
    # text format conventions
    strs = {}
    strs['readerColSep'] = _find(r"entries = line\.strip\('\\n'\)\.split\(('.*?')\)", io_, 'io reader column separator', problems, '', _str_lit)
    strs['readerTokSep'] = _find(r"cues = cues\.split\(('.*?')\)\n\s+outcomes = outcomes\.split", io_, 'io reader token separator', problems, '', _str_lit)
    strs['writerColSep'] = _find(r'def events_to_file\(events, file_path, delimiter=(".*?")', io_, 'io writer delimiter', problems, '', _str_lit)
    strs['writerTokSep'] = _find(r'cues = ("_")\.join\(cues\)', io_, 'io writer token separator', problems, '', _str_lit)
    strs['filterColSep'] = _find(r"cues, outcomes = line\.strip\('\\n'\)\.split\((\".*?\")\)", pre, 'filter column separator', problems, '', _str_lit)
    strs['filterTokSep'] = _find(r'cues = cues\.split\(("_")\)\n\s+outcomes = outcomes\.split\("_"\)\n\s+cues = self', pre, 'filter token separator', problems, '', _str_lit)
    strs['createHeader'] = _find(r'outfile\.write\(("cues\\toutcomes\\n")\)', pre, 'create_event_file header', problems, '', _str_lit)
    strs['createLineFormat'] = _find(r'outfile\.write\(("\{\}\\t\{\}\\n")\.format\(cues, outcomes\)\)', pre, 'create_event_file line format', problems, '', _str_lit)
    strs['specialChars'] = _find(r'special_chars = re\.compile\(("\[.*?\]")\)', pre, 'special chars pattern', problems, '', _str_lit)
    strs['contextPattern'] = _find(r'context_pattern = re\.compile\(("\(.*?\)")\)', pre, 'context pattern', problems, '', _str_lit)
    strs['corpusMarker'] = _find(r'lines\.append\(("\\n---END\.OF\.DOCUMENT---\\n\\n")\)', corp, 'corpus end-of-document marker', problems, '', _str_lit)
    strs['counterHeader'] = _find(r"def save_counter\(counter, filename, \*, header=('.*?')\)", cnt, 'save_counter header', problems, '', _str_lit)
    strs['attrSep'] = _find(r"new_attrs\[key\] = old_val \+ (' \| ') \+ new_val", ndl_src, 'attribute separator', problems, '', _str_lit)
    # literals the corpus / counting / writer models copy (agreement theorems: C19, C11, C07 literals_match_source)
    strs['corpusPunctuation'] = _find(r'^PUNCTUATION\s*=\s*tuple\((".*?")\)\s*$', corp, 'corpus.PUNCTUATION', problems, '', _str_lit)
    strs['corpusSuffix'] = _find(r'if name\.endswith\(\((".*?"),\)\)\]', corp, 'corpus gz suffix', problems, '', _str_lit)
    strs['notFoundSuffix'] = _find(r'io\.safe_write_path\(outfile \+ (".*?"), template=', corp, 'corpus .not_found suffix', problems, '', _str_lit)
    strs['notFoundTemplate'] = _find(r"io\.safe_write_path\(outfile \+ \".*?\", template=('.*?')\)", corp, 'corpus not_found template', problems, '', _str_lit)
    strs['countPunct'] = _find(r"word = word\.strip\(('(?:[^'\\]|\\.)*')\)", cnt, 'count.words_symbols punctuation', problems, '', _str_lit)
    strs['legacyHeader'] = _find(r"legacy_columns = (\(.*?\))$", io_, 'io legacy columns', problems, '',
                                 lambda src: '\t'.join(ast.literal_eval(src)))
    c['framesPerSecond'] = _find(r'^FRAMES_PER_SECOND\s*=\s*(.+)$', corp, 'corpus.FRAMES_PER_SECOND', problems)
    c['breakDurationTimes10'] = _find(r'JobParseGz\(break_duration=(\d+)\.0\)', corp, 'corpus break duration', problems) * 10
    c['chunkThrottle'] = _find(r'if ii % \(n_jobs\*(\d+)\) == 0', pre, 'submit throttle', problems)
    return c, strs, problems


def render(c, strs):
    lines = ['/- GENERATED by harness/extract_constants.py from /repo\'s working tree. Do not edit. -/',
             'namespace Pyndl.Generated', '']
    for k in sorted(c):
        lines.append('def %s : Nat := %d' % (k, c[k]))
    for k in sorted(strs):
        lines.append('def %s : String := %s' % (k, lean_str(strs[k])))
    lines += ['', 'end Pyndl.Generated', '']
    return '\n'.join(lines)


def regenerate():
    c, strs, problems = extract()
    text = render(c, strs)
    path = os.path.join(LEAN_DIR, 'PyndlModel', 'Generated.lean')
    old = open(path).read() if os.path.exists(path) else None
    if old != text:
        with open(path, 'w') as f:
            f.write(text)
    allc = dict(c)
    allc.update(strs)
    return allc, problems


if __name__ == '__main__':
    import json
    consts, probs = regenerate()
    print(json.dumps(consts, indent=1, ensure_ascii=False))
    print(probs)
