"""
Learner differential shared by C01/C02/C03/C04/C13: build the implementation
task and the model request for the same case, and compare the outcomes.
"""
from fractions import Fraction

from common import close, frac, TOL
import gen

# exact comparison iff the model's computation history needs at most this many mantissa bits.  Not 53: the code may
# add the terms of an activation in another order than the model (set order under remove_duplicates=True, id order
# from a merged Counter); a partial sum of up to 16 terms needs at most 4 bits more than the largest term or the total
EXACT_BITS = 49


def model_request(case, learner):
    """driver request for one learner on one case"""
    # a case with a frequency column (case['freq'], file forms only): the model gets what the file means
    es = gen.expand(case['events'], case['freq']) if case.get('freq') is not None else case['events']
    if learner.startswith('dict_ndl'):
        req = {'op': 'dict_ndl', 'events': es, 'alpha': case['alpha'], 'beta1': case['beta1'],
               'beta2': case['beta2'], 'lambda': case['lambda'], 'policy': case['policy']}
        if case.get('init_cells') is not None:
            req['init'] = case['init_cells']
        return req
    method = 'threading' if learner == 'ndl_threading' else 'openmp'
    req = {'op': 'ndl', 'events': gen.file_norm(es), 'alpha': case['alpha'], 'beta1': case['beta1'],
           'beta2': case['beta2'], 'lambda': case['lambda'], 'policy': case['policy'],
           'method': method, 'per_job': case.get('per_job', 10), 'per_file': case.get('per_file', 10000000)}
    if case.get('init_lw') is not None:
        req['init'] = case['init_lw']
    return req


def impl_task(case, learner):
    t = {'op': 'learn', 'events': case['events'], 'alpha': case['alpha'], 'beta1': case['beta1'],
         'beta2': case['beta2'], 'lambda': case['lambda'], 'policy': case['policy']}
    if learner.startswith('dict_ndl'):
        t['learner'] = 'dict_ndl'
        t['form'] = case.get('form_dict', case.get('form', 'list'))
        if case.get('init_cells') is not None:
            t['init'] = case['init_cells']
            t['init_form'] = 'dict'
        if case.get('init_form_dict') == 'da' and case.get('init_lw') is not None:
            # optional: dict_ndl is handed the same initial weights as a DataArray (init_cells must list
            # every cell of it, zeros included: that is what the model starts from)
            t['init'] = case['init_lw']
            t['init_form'] = 'da'
    else:
        t['learner'] = 'ndl'
        t['method'] = 'threading' if learner == 'ndl_threading' else 'openmp'
        t['n_jobs'] = case.get('n_jobs', 2)
        t['per_job'] = case.get('per_job', 10)
        t['per_file'] = case.get('per_file', 10000000)
        t['form'] = case.get('form_ndl', case.get('form', 'path'))
        t['given_tmp'] = case.get('given_tmp', False)
        if case.get('init_lw') is not None:
            t['init'] = case['init_lw']
            t['init_form'] = 'da'
    if case.get('freq') is not None:
        t['freq'] = case['freq']
    if '_timeout' in case:
        t['_timeout'] = case['_timeout']
    return t


def model_cells(reply):
    """{(o, c): Fraction} of a driver reply (dict_ndl / rw_spec / ndl)"""
    if 'outcomes' in reply:
        outs, cues = reply['outcomes'], reply['cues']
        return {(outs[i], cues[j]): frac(v) for i, j, v in reply['cells'] if frac(v) != 0}
    return gen.cells_dict(reply['cells'])


def compare(impl, model):
    """
    None when implementation and model agree, else a short description.
    Values: exact in the exact-dyadic domain (model bits <= EXACT_BITS), 2^-30 relative
    otherwise. Labels (for labelled matrices): same sets.
    """
    if 'err' in model:
        if impl.get('err') == model['err']:
            return None
        return 'model predicts %s, implementation %s' % (model['err'], impl.get('err', 'Returned'))
    if 'err' in impl:
        return 'model predicts a result, implementation %s (%s)' % (impl['err'], impl.get('msg', '')[:120])
    exact = model.get('bits', 9999) <= EXACT_BITS
    mc = model_cells(model)
    ic = gen.cells_dict(impl['cells'])
    # tolerance domain: rounding errors of a row scale with the largest weight of that row (diverging recurrences
    # produce rows with entries of 1e9 next to entries of 1): the bound is 2^-30 * max(1, max |row|)
    row_scale = {}
    if not exact:
        for (o, _c), v in mc.items():
            row_scale[o] = max(row_scale.get(o, Fraction(1)), abs(v))
    for k in set(mc) | set(ic):
        mv = mc.get(k, Fraction(0))
        iv = ic.get(k, Fraction(0))
        if not (close(iv, mv, exact) or (not exact and abs(iv - mv) <= TOL * row_scale.get(k[0], Fraction(1)))):
            return 'weight[%r][%r]: implementation %s, model %s (%s)' % (
                k[0], k[1], float(iv), float(mv), 'exact domain' if exact else 'tolerance 2^-30')
    if 'outcomes' in model:
        if set(model['outcomes']) != set(impl['outcomes']):
            return 'outcome labels differ: impl %r model %r' % (sorted(impl['outcomes'])[:8], sorted(model['outcomes'])[:8])
        if set(model['cues']) != set(impl['cues']):
            return 'cue labels differ: impl %r model %r' % (sorted(impl['cues'])[:8], sorted(model['cues'])[:8])
        if 'n_events' in model and 'attrs' in impl:
            ne = impl['attrs'].get('number_events', '').split('|')[-1].strip()
            if ne != str(model['n_events']):
                return 'number_events attribute %r, model %d' % (ne, model['n_events'])
    return None


def side_checks(impl):
    """C03/C17 side observations made on every learner call"""
    probs = []
    if impl.get('input_unmodified') is False:
        probs.append('weights argument was modified')
    lo = impl.get('leftovers')
    if lo and (lo['systmp'] or lo['giventmp']):
        probs.append('temporary entries left behind: %r' % lo)
    if impl.get('file_unchanged') is False:
        probs.append('input event file changed')
    return probs


def evaluate(pool, driver, case, learner):
    """run one case on both sides; returns (disagreement or None, impl, model)"""
    impl = pool.map([impl_task(case, learner)])[0]
    model = driver.ask([model_request(case, learner)])[0]
    return compare(impl, model), impl, model


def shrink(pool, driver, case, learner, budget=60):
    """greedy shrink of a disagreeing case: drop events, drop tokens, simplify configuration"""
    cur = dict(case)
    steps = 0
    if sum(len(c) + len(o) for c, o in case['events']) > 2000:
        budget = min(budget, 6)      # a wide case costs seconds per evaluation: only drop whole events
    d0, impl0, _ = evaluate(pool, driver, case, learner)
    if impl0.get('err') == 'Timeout':
        budget = min(budget, 8)      # every candidate that still hangs costs a whole deadline

    def still_fails(c):
        nonlocal steps
        steps += 1
        d, _, _ = evaluate(pool, driver, c, learner)
        return d is not None

    changed = True
    while changed and steps < budget:
        changed = False
        es = cur['events']
        for i in range(len(es)):
            if len(es) <= 1 or steps >= budget:
                break
            c = dict(cur, events=es[:i] + es[i + 1:])
            if cur.get('freq') is not None:
                c['freq'] = cur['freq'][:i] + cur['freq'][i + 1:]
            if still_fails(c):
                cur, changed = c, True
                break
        if changed:
            continue
        if cur.get('freq') is not None and steps < budget:
            # the same events written out without a frequency column, then single frequencies lowered
            c = dict(cur, events=gen.expand(es, cur['freq']), freq=None)
            if still_fails(c):
                cur, changed = c, True
                continue
            for i, k in enumerate(cur['freq']):
                if k > 1 and steps < budget:
                    c = dict(cur, freq=cur['freq'][:i] + [1] + cur['freq'][i + 1:])
                    if still_fails(c):
                        cur, changed = c, True
                        break
            if changed:
                continue
        for i, (cs, os_) in enumerate(es):
            for side in (0, 1):
                lst = (cs, os_)[side]
                for j in range(len(lst)):
                    if side == 0 and len(lst) <= 1:
                        break
                    if steps >= budget:
                        break
                    ne = [list(cs), list(os_)]
                    ne[side] = lst[:j] + lst[j + 1:]
                    c = dict(cur, events=es[:i] + [ne] + es[i + 1:])
                    if still_fails(c):
                        cur, changed = c, True
                        break
                if changed:
                    break
            if changed:
                break
        if changed:
            continue
        for k, v in (('n_jobs', 1), ('per_job', 10), ('per_file', 10000000)):
            if cur.get(k, v) != v and steps < budget:
                c = dict(cur, **{k: v})
                if still_fails(c):
                    cur, changed = c, True
                    break
    return cur, steps


def python_snippet(case, learner):
    """self-contained replay against the public API"""
    lines = ["import gzip, tempfile, os", "from pyndl import ndl",
             "events = %r" % (case['events'],),
             "from fractions import Fraction as F"]
    a = case['alpha']
    if learner.startswith('dict_ndl'):
        if isinstance(a, dict):
            lines.append("from collections import defaultdict")
            lines.append("alpha = defaultdict(lambda: float(F(%r)), {k: float(F(v)) for k, v in %r.items()})"
                         % (a['default'], a.get('map', {})))
        else:
            lines.append("alpha = float(F(%r))" % a)
        lines.append("w = ndl.dict_ndl(events, alpha, (float(F(%r)), float(F(%r))), float(F(%r)), "
                     "remove_duplicates=%r)" % (case['beta1'], case['beta2'], case['lambda'],
                                                {'error': None, 'dedup': True, 'keep': False}[case['policy']]))
        lines.append("print({o: dict(r) for o, r in w.items()})")
    else:
        kw_init = ''
        if case.get('init_lw') is not None:
            lw = case['init_lw']
            lines += ["import numpy as np, xarray as xr",
                      "w0 = xr.DataArray(np.array([float(F(v)) for v in %r]).reshape((%d, %d)), [('outcomes', %r), ('cues', %r)])"
                      "   # memory layout in the run: %s (harness/impl.py make_da)"
                      % (lw['vals'], len(lw['outcomes']), len(lw['cues']), lw['outcomes'], lw['cues'], lw.get('layout', 'c'))]
            kw_init = 'weights=w0, '
        lines += ["freq = %r  # third column of the event file (None: no such column)" % (case.get('freq'),),
                  "d = tempfile.mkdtemp(); p = os.path.join(d, 'events.tab.gz')",
                  "with gzip.open(p, 'wt', encoding='utf-8') as f:",
                  "    f.write('cues\\toutcomes\\n')",
                  "    for k, (c, o) in enumerate(events): f.write('_'.join(c) + '\\t' + '_'.join(o) + ('\\t%d' % freq[k] if freq else '') + '\\n')",
                  ("w = ndl.ndl(p, float(F(%r)), (float(F(%r)), float(F(%r))), float(F(%r)), " + kw_init + "method=%r, n_jobs=%d, "
                   "n_outcomes_per_job=%d, events_per_temporary_file=%d, remove_duplicates=%r)")
                  % (case['alpha'], case['beta1'], case['beta2'], case['lambda'],
                     'threading' if learner == 'ndl_threading' else 'openmp', case.get('n_jobs', 2),
                     case.get('per_job', 10), case.get('per_file', 10000000),
                     {'error': None, 'dedup': True, 'keep': False}[case['policy']]),
                  "print(w)"]
    return '\n'.join(lines)
