"""
Implementation side of C20: the real `pyndl.preprocess.bandsample` and
`pyndl.count.save_counter` / `load_counter`, run inside a pool worker.

`bandsample` draws its permutation from `random.Random(seed).shuffle`.  For the
duration of one call `pyndl.preprocess.random` is replaced by a shim module
object whose `Random(seed)` returns an object whose `shuffle(lst)` reorders
`lst` in place by a rank table chosen by the harness (so the model driver can
be given the very same order).  Nothing of bandsample itself is re-implemented.
"""
import collections
import contextlib
import io
import os
import shutil
import tempfile
from fractions import Fraction

from pyndl import count, preprocess

WORK = os.getcwd()


def _classify(exc):
    if isinstance(exc, KeyError):
        return 'Raised:Key'
    if isinstance(exc, ValueError):
        return 'Raised:Value'
    if isinstance(exc, OSError):
        return 'Raised:IO'
    if isinstance(exc, TypeError):
        return 'Raised:Type'
    return 'Raised:Other'


def _err(exc, **kw):
    return dict({'err': _classify(exc), 'cls': type(exc).__name__, 'msg': str(exc)[:300]}, **kw)


def _num(s):
    """'num/den' | int -> int when integral, else float (exact when dyadic)"""
    f = Fraction(s)
    return int(f) if f.denominator == 1 else float(f)


def _rat(x):
    f = Fraction(x)
    return '%d/%d' % (f.numerator, f.denominator)


class _ShimRandomObject:
    def __init__(self, owner):
        self.owner = owner

    def shuffle(self, lst):
        self.owner.shuffle_calls += 1
        self.owner.shuffled_len = len(lst)
        rank = self.owner.rank
        lst.sort(key=lambda e: rank[e[0]])


class ShimRandomModule:
    """stands in for the `random` module inside pyndl.preprocess"""

    def __init__(self, rank):
        self.rank = rank
        self.shuffle_calls = 0
        self.shuffled_len = None
        self.seeds = []

    def Random(self, seed=None):  # noqa: N802
        self.seeds.append(seed)
        return _ShimRandomObject(self)


def op_bandsample(t):
    # `fraction`: the same real code, called with fractions.Fraction frequencies and cutoff, so that
    # the walk it performs is the exact rational walk (used outside the exact-dyadic float domain)
    num = Fraction if t.get('fraction') else _num
    items = [(w, num(f)) for w, f in t['population']]
    population = collections.Counter()
    for w, f in items:
        population[w] = f
    rank = {w: r for (w, _), r in zip(items, t['rank'])}
    before = [(k, v, type(v).__name__) for k, v in population.items()]
    shim = ShimRandomModule(rank)
    real_random = preprocess.random
    preprocess.random = shim
    captured = io.StringIO()
    try:
        try:
            kw = {}
            if 'cutoff' in t:
                kw['cutoff'] = num(t['cutoff'])
            if 'seed' in t:
                kw['seed'] = t['seed']
            if t.get('verbose'):
                # X1: the `if verbose:` blocks run as well; what they print is captured in memory (a
                # StringIO takes every str; the worker's protocol channel is a private fd anyway)
                kw['verbose'] = True
            with contextlib.redirect_stdout(captured):
                s = preprocess.bandsample(population, int(t['sample_size']), **kw)
            res = {'sample': [[k, _rat(v)] for k, v in s.items()],
                   'type': type(s).__name__,
                   'value_types': sorted({type(v).__name__ for v in s.values()})}
        except Exception as e:  # noqa
            res = _err(e)
    finally:
        preprocess.random = real_random
    after = [(k, v, type(v).__name__) for k, v in population.items()]
    res['arg_unchanged'] = (after == before)
    if t.get('verbose'):
        res['printed_chars'] = len(captured.getvalue())
    res['shuffle_calls'] = shim.shuffle_calls
    res['shuffled_len'] = shim.shuffled_len
    res['seeds'] = [None if s is None else str(s) for s in shim.seeds]
    return res


def _items(c):
    return [[k, int(v)] for k, v in c.items()]


def op_counter_io(t):
    d = tempfile.mkdtemp(prefix='ctr-', dir=WORK)
    try:
        c = collections.Counter()
        for k, n in t['items']:
            c[k] = int(n)
        before = list(c.items())
        path = os.path.join(d, 'counter.tab')
        res = {}
        try:
            if 'header' in t:
                count.save_counter(c, path, header=t['header'])
            else:
                count.save_counter(c, path)
        except Exception as e:  # noqa
            return _err(e, stage='save')
        raw = open(path, 'rb').read()
        try:
            res['text'] = raw.decode('utf-8')
        except UnicodeDecodeError as e:
            return _err(e, stage='decode')
        try:
            loaded = count.load_counter(path)
            res['loaded'] = _items(loaded)
            res['type'] = type(loaded).__name__
            res['value_types'] = sorted({type(v).__name__ for v in loaded.values()})
        except Exception as e:  # noqa
            res.update(_err(e, stage='load'))
        res['arg_unchanged'] = (list(c.items()) == before)
        res['file_unchanged_by_load'] = (open(path, 'rb').read() == raw)
        res['dir'] = sorted(os.listdir(d))
        return res
    finally:
        shutil.rmtree(d, ignore_errors=True)


def op_counter_load(t):
    d = tempfile.mkdtemp(prefix='ctr-', dir=WORK)
    try:
        path = os.path.join(d, 'counter.tab')
        with open(path, 'wb') as f:
            f.write(t['text'].encode('utf-8'))
        try:
            loaded = count.load_counter(path)
            return {'loaded': _items(loaded), 'type': type(loaded).__name__}
        except Exception as e:  # noqa
            return _err(e, stage='load')
    finally:
        shutil.rmtree(d, ignore_errors=True)


OPS = {'bandsample': op_bandsample, 'counter_io': op_counter_io, 'counter_load': op_counter_load}
