"""
Generators, encoders and shrinkers shared by the text campaigns (C07, C11).
All randomness comes from the `random.Random` handed in.
"""

# ---- transport: the driver's text ops take/return strings as code point lists

def cps(s):
    return [ord(ch) for ch in s]


def uncps(a):
    return ''.join(chr(x) for x in a)


def ev_cps(events):
    return [[[cps(t) for t in c], [cps(t) for t in o]] for c, o in events]


def ev_uncps(events):
    return [[[uncps(t) for t in c], [uncps(t) for t in o]] for c, o in events]


def counter_uncps(items):
    return sorted([uncps(k), int(n)] for k, n in items)


# ---- alphabets

ASCII = list('abcdeXYZ019 -.,#:;\'"\\/()|&<>=%$')
MARKS = ['\u0301', '\u0308', '\u20d7']                       # combining marks
ASTRAL = ['\U0001F600', '\U00010400', '\U00020000', '\U000E0041']
# Unicode spaces and "line separators" that are NOT line breaks for Python's
# file iteration (only \n, \r, \r\n are): NEL, NBSP, LS, PS, VT, FF, FS, GS, RS,
# ideographic space, BOM, thin space, zero-width space
SPACES = ['\x85', '\xa0', '\u2028', '\u2029', '\x0b', '\x0c', '\x1c', '\x1d', '\x1e', '\u3000', '\ufeff', '\u2009', '\u200b']
OTHER = ['\xe4', '\xdf', '\u96ea', '\u0130', '\u03a3', '\u03c2', '\x00', '\x7f', '\u0600']
FULL = ASCII * 2 + MARKS + ASTRAL + SPACES + OTHER
# characters that survive the driver's string-valued (non code point) ops
TAME = list('abcdefxyz01 #-') + ['\xe4', '\u96ea', 'e\u0301', '\U0001f600', '\xdf']
FORBIDDEN = set('\t\n\r_')


def token(r, alphabet=FULL, max_len=4):
    n = r.choice([1, 1, 1, 2, 2, 3, max_len])
    return ''.join(r.choice(alphabet) for _ in range(n))


def tokens(r, k, alphabet=FULL, pool=None):
    out = []
    for _ in range(k):
        if pool and r.random() < 0.6:
            out.append(r.choice(pool))
        else:
            out.append(token(r, alphabet))
    return out


def event(r, alphabet=FULL, pool=None, max_cues=4, max_outs=3, empty_out=0.2):
    cs = tokens(r, r.randint(1, max_cues), alphabet, pool)
    os_ = [] if r.random() < empty_out else tokens(r, r.randint(1, max_outs), alphabet, pool)
    return [cs, os_]


def events(r, n, alphabet=FULL, **kw):
    pool = [token(r, alphabet) for _ in range(r.randint(2, 8))]
    return [event(r, alphabet, pool, **kw) for _ in range(n)]


def well_formed(evs):
    return all(len(c) >= 1 and all(t != '' and not (set(t) & FORBIDDEN) for t in c + o) for c, o in evs)


def file_norm(evs):
    return [[list(c) if c else [''], list(o) if o else ['']] for c, o in evs]


ONECOL = '<one-column>'


def build_content(rows, header='cues\toutcomes', eol='\n', final_eol=True):
    """the harness' own writer of the documented format; rows = [cues, outcomes, freq|None]"""
    lines = [header]
    for c, o, f in rows:
        line = '_'.join(c) + '\t' + '_'.join(o)
        if f == ONECOL:
            line = '_'.join(c)
        elif f is not None:
            line += '\t' + str(f)
        lines.append(line)
    s = eol.join(lines)
    if final_eol:
        s += eol
    return s


def expand(rows):
    out = []
    for c, o, f in rows:
        out += [[list(c), list(o)]] * (1 if f is None else int(f))
    return out


# ---- shrinking

def shrink_rows(case, key, fails, budget=80, min_cues=1, simplify=()):
    """
    Greedy shrink of case[key] = list of [cues, outcomes, *rest] while
    `fails(case)` stays true: drop rows, drop tokens, drop characters, replace
    characters by 'a', then try the configuration simplifications
    `simplify` = [(key, value), ...].
    """
    cur = dict(case)
    steps = [0]

    def ok(c):
        if steps[0] >= budget:
            return False
        steps[0] += 1
        try:
            return bool(fails(c))
        except Exception:  # noqa
            return False

    changed = True
    while changed and steps[0] < budget:
        changed = False
        rows = cur[key]
        # halves first, then single rows
        if len(rows) > 3:
            for part in (rows[:len(rows) // 2], rows[len(rows) // 2:]):
                c = dict(cur, **{key: part})
                if ok(c):
                    cur, changed = c, True
                    break
            if changed:
                continue
        for i in range(len(rows)):
            c = dict(cur, **{key: rows[:i] + rows[i + 1:]})
            if ok(c):
                cur, changed = c, True
                break
        if changed:
            continue
        for k, v in simplify:
            if cur.get(k) != v:
                c = dict(cur, **{k: v})
                if ok(c):
                    cur, changed = c, True
                    break
        if changed:
            continue
        for i, row in enumerate(rows):
            for side in (0, 1):
                lst = row[side]
                for j in range(len(lst)):
                    if side == 0 and len(lst) <= min_cues:
                        break
                    nr = list(row)
                    nr[side] = lst[:j] + lst[j + 1:]
                    c = dict(cur, **{key: rows[:i] + [nr] + rows[i + 1:]})
                    if ok(c):
                        cur, changed = c, True
                        break
                if changed:
                    break
                for j, tok in enumerate(lst):
                    cands = [tok[:p] + tok[p + 1:] for p in range(len(tok)) if len(tok) > 1]
                    cands += [tok[:p] + 'a' + tok[p + 1:] for p in range(len(tok)) if tok[p] != 'a']
                    for nt in cands:
                        nr = list(row)
                        nr[side] = lst[:j] + [nt] + lst[j + 1:]
                        c = dict(cur, **{key: rows[:i] + [nr] + rows[i + 1:]})
                        if ok(c):
                            cur, changed = c, True
                            break
                    if changed:
                        break
                if changed:
                    break
            if changed:
                break
    return cur, steps[0]


def shrink_lines(case, key, fails, budget=80, simplify=()):
    """greedy shrink of case[key] = list of strings: drop lines, drop characters, simplify config"""
    cur = dict(case)
    steps = [0]

    def ok(c):
        if steps[0] >= budget:
            return False
        steps[0] += 1
        try:
            return bool(fails(c))
        except Exception:  # noqa
            return False

    changed = True
    while changed and steps[0] < budget:
        changed = False
        lines = cur[key]
        if len(lines) > 3:
            for part in (lines[:len(lines) // 2], lines[len(lines) // 2:]):
                c = dict(cur, **{key: part})
                if ok(c):
                    cur, changed = c, True
                    break
            if changed:
                continue
        for i in range(len(lines)):
            c = dict(cur, **{key: lines[:i] + lines[i + 1:]})
            if ok(c):
                cur, changed = c, True
                break
        if changed:
            continue
        for k, v in simplify:
            if cur.get(k) != v:
                c = dict(cur, **{k: v})
                if ok(c):
                    cur, changed = c, True
                    break
        if changed:
            continue
        for i, ln in enumerate(lines):
            n = len(ln)
            cands = []
            if n > 4:
                cands += [ln[:n // 2], ln[n // 2:]]
            cands += [ln[:p] + ln[p + 1:] for p in range(n)]
            for nl in cands:
                c = dict(cur, **{key: lines[:i] + [nl] + lines[i + 1:]})
                if ok(c):
                    cur, changed = c, True
                    break
            if changed:
                break
    return cur, steps[0]
