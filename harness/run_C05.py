"""
C05 — a failed training run raises in bounded time and never returns weights.
Lean (PyndlProps/C05.lean): conversion_fault_raises (every completion order),
conversion_any_submitted_fault_raises, no_fault_returns, worker_fault_raises /
worker_runs_bounded / worker_never_blocks (every interleaving), dict_fault_raises,
policy_rejects_iff, storage_need.
Correspondence = fault enumeration on the real code: fault kind {repeated cue
under the default policy, malformed line (1 / 4 columns), truncated gzip, cue or
outcome without vector, per-file byte budget for the chunk files swept over
every chunk-size boundary (RLIMIT_FSIZE set inside the conversion workers),
unusable hyper-parameter type} x position of the faulty event (first, middle,
last; so in the first / an inner / the last chunk) x learner {dict_ndl, ndl
threading, ndl openmp, wh real-real / binary-real / real-binary (openmp), wh
numpy, dict_wh} x n_jobs x chunk sizes; every call in a killable worker with a
deadline. Predicted by the stage table below + the Lean driver (storage:
encodedSize of every chunk vs. the budget): `Raised` — never `Returned`, never
`Timeout`. The same task without the fault must return (non-vacuity).
"""
import learners as L  # noqa
from common import rng

TIMEOUT = 40
WORKERS = 14

ALL = ['dict_ndl', 'ndl_threading', 'ndl_openmp', 'wh_r2r', 'wh_b2r', 'wh_r2b', 'wh_numpy', 'dict_wh']
PATH_CONV = ['ndl_threading', 'ndl_openmp', 'wh_r2r', 'wh_b2r', 'wh_r2b']   # learners that write chunk files
SINGLE = ['wh_numpy', 'dict_wh']                                             # one cue / one outcome per event

# stage that detects the fault and the exception class (DESIGN §6 C05 `detected_at`)
EXPECT = {
    'dup_cue': lambda l: 'Raised:Value',
    'bad_line': lambda l: 'Raised:Value',
    'truncated_gz': lambda l: 'Raised:Other',          # EOFError
    'no_vector': lambda l: 'Raised:Key' if l == 'dict_wh' else 'Raised:Value',
    'storage': lambda l: 'Raised:IO',
    'bad_param': lambda l: 'Raised:Type',
    'gen_raises': lambda l: 'Raised:Other',           # the generator's own RuntimeError
    'gen_bad_event': lambda l: 'Raised:Value',        # events_to_file / the unpacking of the event
}


def base_events(r, n, single):
    cues, outs = ['a', 'b', 'c', 'd'], ['x', 'y', 'z']
    es = []
    for i in range(n):
        if single:
            es.append([[r.choice(cues)], [r.choice(outs)]])
        else:
            es.append([r.sample(cues, r.randint(1, 3)), r.sample(outs, r.randint(1, 2))])
    return es


def positions(n):
    return sorted({0, n // 2, n - 1})


def run(rep, pool, driver, tier):
    r = rng('C05')
    quick = tier == 'quick'
    tasks = []   # (task, expected outcome or None=must return, tag)
    n_rounds = 1 if quick else 6
    for rnd in range(n_rounds):
        for learner in ALL:
            single = learner in SINGLE
            n = r.choice([5, 6, 7])
            per = r.choice([2, 3]) if learner in PATH_CONV else 10000000
            cfg = dict(learner=learner, n_jobs=r.choice([1, 2, 4]), per_job=r.choice([1, 2, 10]), per_file=per)
            es = base_events(r, n, single)
            tasks.append((dict(cfg, op='fault_run', events=es, fault=None), None, 'no_fault'))
            for pos in (positions(n) if not quick else r.sample(positions(n), 2)):
                # repeated cue under the default policy
                es2 = [list(map(list, e)) for e in es]
                es2[pos][0] = es2[pos][0] + [es2[pos][0][0]]
                tasks.append((dict(cfg, op='fault_run', events=es2, fault={'kind': 'dup_cue', 'pos': pos}), 'dup_cue', 'dup_cue'))
                for shape in (['one_col', 'four_cols'] if not quick else [r.choice(['one_col', 'four_cols'])]):
                    tasks.append((dict(cfg, op='fault_run', events=es, fault={'kind': 'bad_line', 'pos': pos, 'shape': shape}),
                                  'bad_line', 'bad_line'))
            tasks.append((dict(cfg, op='fault_run', events=es, n_jobs=r.choice([2, 4, 8]), fault={'kind': 'all_bad'}), 'bad_line', 'all_lines_bad'))
            for frac_ in ([0.3, 0.6, 0.9] if not quick else [r.choice([0.3, 0.6, 0.9])]):
                tasks.append((dict(cfg, op='fault_run', events=es * 3, fault={'kind': 'truncated_gz', 'fraction': frac_}),
                              'truncated_gz', 'truncated_gz'))
            if learner.startswith('wh') or learner == 'dict_wh':
                sides = []
                if learner in ('wh_r2r', 'wh_r2b', 'wh_numpy', 'dict_wh'):
                    sides.append('cue')
                if learner in ('wh_r2r', 'wh_b2r', 'wh_numpy', 'dict_wh'):
                    sides.append('outcome')
                for side in sides:
                    for pos in (positions(n) if not quick else [r.choice(positions(n))]):
                        name = es[pos][0][0] if side == 'cue' else es[pos][1][0]
                        tasks.append((dict(cfg, op='fault_run', events=es, fault={'kind': 'no_vector', 'side': side, 'name': name}),
                                      'no_vector', 'no_vector'))
            whichs = {'dict_ndl': ['alpha', 'beta', 'lambda'], 'ndl_threading': ['alpha', 'beta', 'lambda'],
                      'ndl_openmp': ['alpha', 'beta', 'lambda']}.get(learner, ['eta'])
            for which in whichs:
                for value in (['str', 'none', 'list'] if not quick else [r.choice(['str', 'none'])]):
                    if learner == 'wh_numpy' and value == 'list':
                        # eta=[0.5] is a usable value for the numpy method (broadcasting: the run is carried
                        # out correctly with eta = 0.5), not a fault — see DESIGN §11
                        continue
                    tasks.append((dict(cfg, op='fault_run', events=es, fault={'kind': 'bad_param', 'which': which, 'value': value}),
                                  'bad_param', 'bad_param'))
    # the events generator itself fails while it is consumed (dict_ndl) or spooled (ndl.ndl)
    for rnd in range(1 if quick else 4):
        for learner in ('dict_ndl', 'ndl_threading', 'ndl_openmp'):
            n = r.choice([4, 5, 6])
            es = base_events(r, n, False)
            for kind in ('gen_raises', 'gen_bad_event'):
                for pos in ([r.choice([0, n - 1])] if quick else [0, n // 2, n - 1]):
                    tasks.append((dict(op='fault_run', learner=learner, n_jobs=2, per_job=10, per_file=3, form='generator',
                                       events=es, fault={'kind': kind, 'pos': pos}), kind, kind))
    # storage budget sweep over every chunk-size boundary
    storage = []
    for rnd in range(2 if quick else 10):
        for learner in PATH_CONV:
            n = r.choice([4, 5, 6, 7])
            per = r.choice([2, 3])
            es = base_events(r, n, False)
            names_c = sorted({c for cs, _ in es for c in cs})
            names_o = sorted({o for _, os_ in es for o in os_})
            ids = [[[names_c.index(c) for c in cs], [names_o.index(o) for o in os_]] for cs, os_ in es]
            storage.append((learner, es, ids, per, r.choice([1, 2, 4])))
    sizes = driver.ask([{'op': 'storage_fault', 'events': ids, 'per': per, 'budget': 0} for _, _, ids, per, _ in storage])
    st_tasks, st_reqs = [], []
    for (learner, es, ids, per, nj), sz in zip(storage, sizes):
        bounds = sorted({0, 11, 12} | {s - 1 for s in sz['sizes']} | {s for s in sz['sizes']} | {max(sz['sizes']) + 8})
        if quick:
            bounds = r.sample(bounds, min(len(bounds), 4))
        for b in bounds:
            st_tasks.append(dict(op='fault_run', learner=learner, events=es, n_jobs=nj, per_job=10, per_file=per,
                                 fault={'kind': 'storage', 'budget': b}))
            st_reqs.append({'op': 'storage_fault', 'events': ids, 'per': per, 'budget': b})
    st_models = driver.ask(st_reqs)
    impls = pool.map([t for t, _, _ in tasks] + st_tasks)
    all_cases = [(t, (EXPECT[e](t['learner']) if e else 'Returned'), tag) for t, e, tag in tasks] + \
                [(t, 'Raised:IO' if m['raises'] else 'Returned', 'storage') for t, m in zip(st_tasks, st_models)]
    for (t, want, tag), res in zip(all_cases, impls):
        got = res.get('outcome', res.get('err', '?'))
        rep.case({'learner': t['learner'], 'fault': t['fault'], 'events': t['events'], 'cfg': [t['n_jobs'], t['per_file']]},
                 nontrivial=True, stream=tag)
        rep.count('learner:' + t['learner'])
        rep.count('fault:' + tag)
        rep.count('observed:' + got)
        prob = None
        if want == 'Returned':
            if got != 'Returned':
                prob = 'no fault manifests (%s), but the call did not return: %s %s' % (tag, got, res.get('msg', ''))
        else:
            if got == 'Returned':
                prob = 'a faulty run (%s) RETURNED weights%s' % (t['fault'], ' (all zero)' if res.get('all_zero') else '')
            elif got in ('Timeout', 'WorkerDied'):
                prob = 'a faulty run (%s) blocked: %s after %ss' % (t['fault'], got, res.get('seconds', res.get('_seconds')))
            elif got != want:
                rep.count('class_differs_from_stage_table:%s:%s!=%s' % (tag, got, want))
        lo = res.get('leftovers')
        if prob is None and lo and (lo['systmp'] or lo['giventmp']):
            prob = 'temporary entries left behind after %s: %r' % (got, lo)
        if prob is None and res.get('file_unchanged') is False:
            prob = 'input event file modified'
        if prob:
            rep.violation({'what': prob, 'input': t, 'observed': {k: res.get(k) for k in ('outcome', 'err', 'cls', 'msg', 'seconds', 'leftovers')},
                           'expected': want, 'theorem_or_stream': 'C05 fault enumeration (%s) on %s' % (tag, t['learner'])})
        elif tag != 'no_fault' and want != 'Returned':
            rep.sample({'learner': t['learner'], 'fault': t['fault'], 'outcome': got, 'cls': res.get('cls'), 'seconds': res.get('seconds')}, limit=8)
    rep.extra['max_seconds_per_call'] = max(x.get('seconds', x.get('_seconds', 0)) for x in impls)
