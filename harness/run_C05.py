"""
C05 — a failed training run raises in bounded time and never returns weights.
Lean (PyndlProps/C05.lean): conversion_fault_raises (every completion order),
conversion_any_submitted_fault_raises, no_fault_returns, worker_fault_raises /
worker_runs_bounded / worker_never_blocks (every interleaving), dict_fault_raises,
policy_rejects_iff, storage_need.
Correspondence = fault enumeration on the real code: fault kind {repeated cue
under the default policy, malformed line (1 / 4 columns, an empty line in the
middle or at the end of the file, a third column that is not a decimal count:
a word, a float, empty), truncated gzip, cue or outcome without vector, per-file
byte budget for the chunk files swept over every chunk-size boundary
(RLIMIT_FSIZE set inside the conversion workers), unusable hyper-parameter type
(alpha / beta1 / lambda / eta a str, None, list; `betas` a scalar, a 3-tuple,
(0.5, None), (0.5, '0.25'), (None, 0.25))} x position of the faulty event
(first, middle, last; so in the first / an inner / the last chunk) x learner
{dict_ndl, ndl threading, ndl openmp, wh real-real / binary-real / real-binary
(openmp), wh numpy, dict_wh} x n_jobs x chunk sizes — the configuration
(n_jobs, n_outcomes_per_job, events_per_temporary_file incl. the single-chunk
value) is drawn anew for EVERY task; verbose=True for a quarter of the tasks;
every call in a killable worker with a deadline. Predicted by the stage table
below + the Lean driver (storage: encodedSize of every chunk vs. the budget):
`Raised` — never `Returned`, never `Timeout`. The same task without the fault
must return (non-vacuity).
Not faults (so not generated as such): a value the learner never needs
(dict_ndl reads beta2 only when an event lacks an outcome seen before: the
expectation is computed per task by `beta2_needed`), eta=[0.5] for the numpy
method (DESIGN §11), and a NEGATIVE frequency `a\tx\t-1`, which the reader
(int(), range()) accepts as zero repetitions in every learner: the format does
not define it, so only "terminates, leaves nothing behind" is required there
(stream line_outside_format).
"""
import json

import learners as L  # noqa
from common import rng

TIMEOUT = 40
WORKERS = 14

ALL = ['dict_ndl', 'ndl_threading', 'ndl_openmp', 'wh_r2r', 'wh_b2r', 'wh_r2b', 'wh_numpy', 'dict_wh']
PATH_CONV = ['ndl_threading', 'ndl_openmp', 'wh_r2r', 'wh_b2r', 'wh_r2b']   # learners that write chunk files
SINGLE = ['wh_numpy', 'dict_wh']                                             # one cue / one outcome per event

# stage that detects the fault and the exception class (DESIGN §6 C05 `detected_at`)
EXPECT = {
    'dup_cue': lambda l: 'Raised:Value',
    'bad_line': lambda l: 'Raised:Value',
    'truncated_gz': lambda l: 'Raised:Other',          # EOFError
    'no_vector': lambda l: 'Raised:Key' if l == 'dict_wh' else 'Raised:Value',
    'storage': lambda l: 'Raised:IO',
    'bad_param': lambda l: 'Raised:Type',
    'bad_betas': lambda l: 'Raised:Type',             # (a 3-tuple fails to unpack with ValueError: counted as class difference)
    'gen_raises': lambda l: 'Raised:Other',           # the generator's own RuntimeError
    'gen_bad_event': lambda l: 'Raised:Value',        # events_to_file / the unpacking of the event
}


def base_events(r, n, single):
    cues, outs = ['a', 'b', 'c', 'd'], ['x', 'y', 'z']
    es = []
    for i in range(n):
        if single:
            es.append([[r.choice(cues)], [r.choice(outs)]])
        else:
            es.append([r.sample(cues, r.randint(1, 3)), r.sample(outs, r.randint(1, 2))])
    return es


def positions(n):
    return sorted({0, n // 2, n - 1})


OLD_SHAPES = ['one_col', 'four_cols']
NEW_SHAPES = ['empty', 'freq_word', 'freq_float', 'freq_empty']       # see impl_fault._BAD_LINES
BETAS = ['pair_none', 'scalar', 'triple', 'beta2_str', 'none_pair']   # see impl_fault._BETAS
PER_FILE = [2, 3, 10000000]                                           # 10000000: the whole file is one chunk


def configuration(r, learner):
    """(n_jobs, n_outcomes_per_job, events_per_temporary_file) — drawn per task"""
    return dict(learner=learner, n_jobs=r.choice([1, 2, 4]), per_job=r.choice([1, 2, 10]),
                per_file=r.choice(PER_FILE) if learner in PATH_CONV else 10000000)


def beta2_needed(events):
    """dict_ndl multiplies by beta2 only for an outcome seen before that the current event lacks"""
    seen = set()
    for _, outs in events:
        if seen - set(outs):
            return True
        seen |= set(outs)
    return False


def judge(t, want, tag, res, count=None):
    """the property predicate on one observed call: a description of the violation, or None"""
    got = res.get('outcome', res.get('err', '?'))
    prob = None
    if want == 'Any':
        # not defined by the format: either outcome, but in bounded time (and nothing left behind, below)
        if got in ('Timeout', 'WorkerDied', 'HarnessError'):
            prob = 'a run on a file with %s did not finish: %s' % (t['fault'], got)
    elif want == 'Returned':
        if got != 'Returned':
            prob = 'no fault manifests (%s), but the call did not return: %s %s' % (tag, got, res.get('msg', ''))
    else:
        if got == 'Returned':
            prob = 'a faulty run (%s) RETURNED weights%s' % (t['fault'], ' (all zero)' if res.get('all_zero') else '')
        elif got in ('Timeout', 'WorkerDied'):
            prob = 'a faulty run (%s) blocked: %s after %ss' % (t['fault'], got, res.get('seconds', res.get('_seconds')))
        elif got == 'HarnessError':
            prob = 'harness: the fault could not be set up: %s' % res.get('msg')
        elif got != want and count is not None:
            count('class_differs_from_stage_table:%s:%s!=%s' % (tag, got, want))
    lo = res.get('leftovers')
    if prob is None and lo and (lo['systmp'] or lo['giventmp']):
        prob = 'temporary entries left behind after %s: %r' % (got, lo)
    if prob is None and res.get('file_unchanged') is False:
        prob = 'input event file modified'
    return prob


def smaller(t, tag):
    """smaller variants of a fault task that carry the same fault (the expectation stays what it was)"""
    f = t['fault'] or {}
    es = t['events']
    pos = f.get('pos')
    out = []
    if tag != 'storage':         # (the storage expectation is a function of the chunk sizes)
        for i in range(len(es)):
            if len(es) <= 1 or (f.get('kind') in ('dup_cue', 'gen_raises', 'gen_bad_event') and i == pos):
                continue
            es2 = es[:i] + es[i + 1:]
            f2 = dict(f)
            if pos is not None and i < pos:
                f2['pos'] = pos - 1
            if f.get('kind') == 'no_vector' and not any(f['name'] in (c if f['side'] == 'cue' else o) for c, o in es2):
                continue
            if tag == 'bad_betas' and t['learner'] == 'dict_ndl' and f['value'] in ('pair_none', 'beta2_str') and not beta2_needed(es2):
                continue
            if tag == 'betas_value_never_read' and beta2_needed(es2):
                continue
            out.append(dict(t, events=es2, fault=f2 if t['fault'] else None))
    if t.get('verbose'):
        out.append({k: v for k, v in t.items() if k != 'verbose'})
    if tag != 'storage':
        for k, v in (('n_jobs', 1), ('per_job', 10), ('per_file', 10000000)):
            if t.get(k) not in (None, v):
                out.append(dict(t, **{k: v}))
    return out


def snippet(t):
    return ("import json, os, sys\n"
            "sys.path.insert(0, '/verif/harness')   # impl_fault builds the faulty file / arguments; pyndl from PYTHONPATH\n"
            "os.makedirs('work', exist_ok=True); os.chdir('work')\n"
            "import impl_fault\n"
            "print(impl_fault.op_fault_run(json.loads(%r)))   # one call of %s under the fault %r\n"
            % (json.dumps(t), t['learner'], t.get('fault')))


def shrink(pool, t, tag, fails, rounds=8):
    """greedy: the first smaller variant that still violates, per round one batch through the pool; a
    variant counts only if it fails (a hang must stay a hang: variants run with a 15 s deadline, an
    unhindered call takes about 1 s)"""
    steps = 0
    for _ in range(rounds):
        cands = smaller(t, tag)
        if not cands:
            break
        res = pool.map([dict(c, _timeout=15) for c in cands])
        hit = next((c for c, x in zip(cands, res) if fails(c, x)), None)
        if hit is None:
            break
        t = hit
        steps += 1
    return t, steps


def run(rep, pool, driver, tier):
    r = rng('C05')
    quick = tier == 'quick'
    tasks = []   # (task, expected outcome or None=must return, tag)
    n_rounds = 1 if quick else 6
    for rnd in range(n_rounds):
        for learner in ALL:
            single = learner in SINGLE
            n = r.choice([5, 6, 7])
            es = base_events(r, n, single)

            def cfg():
                # audit C05-1/C05-4: every task has a configuration of its own (F2 depended on the worker count;
                # with one chunk the failing job is also the one that ends the submit loop)
                return configuration(r, learner)
            # without a fault: with one job and with several, in several chunks and in one
            tasks.append((dict(cfg(), op='fault_run', events=es, fault=None), None, 'no_fault'))
            tasks.append((dict(cfg(), op='fault_run', events=es, n_jobs=r.choice([1, 4]), fault=None,
                               **({'per_file': 10000000} if r.random() < 0.5 else {})), None, 'no_fault'))
            for pos in (positions(n) if not quick else r.sample(positions(n), 2)):
                # repeated cue under the default policy
                es2 = [list(map(list, e)) for e in es]
                es2[pos][0] = es2[pos][0] + [es2[pos][0][0]]
                tasks.append((dict(cfg(), op='fault_run', events=es2, fault={'kind': 'dup_cue', 'pos': pos}), 'dup_cue', 'dup_cue'))
                for shape in (OLD_SHAPES + NEW_SHAPES if not quick else [r.choice(OLD_SHAPES), r.choice(NEW_SHAPES)]):
                    tasks.append((dict(cfg(), op='fault_run', events=es, fault={'kind': 'bad_line', 'pos': pos, 'shape': shape}),
                                  'bad_line', 'bad_line'))
            # an empty line behind the last event (the end of the file)
            tasks.append((dict(cfg(), op='fault_run', events=es, fault={'kind': 'bad_line', 'pos': n, 'shape': 'empty'}),
                          'bad_line', 'bad_line'))
            # a negative frequency: accepted by the reader as zero repetitions, not defined by the format
            tasks.append((dict(cfg(), op='fault_run', events=es, fault={'kind': 'bad_line', 'pos': r.choice(positions(n) + [n]),
                                                                         'shape': 'freq_negative'}), 'any', 'line_outside_format'))
            tasks.append((dict(cfg(), op='fault_run', events=es, n_jobs=r.choice([2, 4, 8]), fault={'kind': 'all_bad'}), 'bad_line', 'all_lines_bad'))
            for frac_ in ([0.3, 0.6, 0.9] if not quick else [r.choice([0.3, 0.6, 0.9])]):
                tasks.append((dict(cfg(), op='fault_run', events=es * 3, fault={'kind': 'truncated_gz', 'fraction': frac_}),
                              'truncated_gz', 'truncated_gz'))
            if learner.startswith('wh') or learner == 'dict_wh':
                sides = []
                if learner in ('wh_r2r', 'wh_r2b', 'wh_numpy', 'dict_wh'):
                    sides.append('cue')
                if learner in ('wh_r2r', 'wh_b2r', 'wh_numpy', 'dict_wh'):
                    sides.append('outcome')
                for side in sides:
                    for pos in (positions(n) if not quick else [r.choice(positions(n))]):
                        name = es[pos][0][0] if side == 'cue' else es[pos][1][0]
                        tasks.append((dict(cfg(), op='fault_run', events=es, fault={'kind': 'no_vector', 'side': side, 'name': name}),
                                      'no_vector', 'no_vector'))
            whichs = {'dict_ndl': ['alpha', 'beta', 'lambda'], 'ndl_threading': ['alpha', 'beta', 'lambda'],
                      'ndl_openmp': ['alpha', 'beta', 'lambda']}.get(learner, ['eta'])
            for which in whichs:
                for value in (['str', 'none', 'list'] if not quick else [r.choice(['str', 'none'])]):
                    if learner == 'wh_numpy' and value == 'list':
                        # eta=[0.5] is a usable value for the numpy method (broadcasting: the run is carried
                        # out correctly with eta = 0.5), not a fault — see DESIGN §11
                        continue
                    tasks.append((dict(cfg(), op='fault_run', events=es, fault={'kind': 'bad_param', 'which': which, 'value': value}),
                                  'bad_param', 'bad_param'))
            if learner in ('dict_ndl', 'ndl_threading', 'ndl_openmp'):
                # the `betas` argument as a whole (audit C05-3).  dict_ndl reads beta2 only when it needs it:
                # if these events never need it, (0.5, None) and (0.5, '0.25') are usable and the run must return
                for value in BETAS:
                    unused = learner == 'dict_ndl' and value in ('pair_none', 'beta2_str') and not beta2_needed(es)
                    tasks.append((dict(cfg(), op='fault_run', events=es, fault={'kind': 'bad_param', 'which': 'betas', 'value': value}),
                                  None if unused else 'bad_betas', 'betas_value_never_read' if unused else 'bad_betas'))
    # the events generator itself fails while it is consumed (dict_ndl) or spooled (ndl.ndl)
    for rnd in range(1 if quick else 4):
        for learner in ('dict_ndl', 'ndl_threading', 'ndl_openmp'):
            n = r.choice([4, 5, 6])
            es = base_events(r, n, False)
            for kind in ('gen_raises', 'gen_bad_event'):
                for pos in ([r.choice([0, n - 1])] if quick else [0, n // 2, n - 1]):
                    tasks.append((dict(op='fault_run', learner=learner, n_jobs=r.choice([1, 2, 4]), per_job=r.choice([1, 2, 10]),
                                       per_file=r.choice(PER_FILE), form='generator',
                                       events=es, fault={'kind': kind, 'pos': pos}), kind, kind))
    # storage budget sweep over every chunk-size boundary
    storage = []
    for rnd in range(2 if quick else 10):
        for learner in PATH_CONV:
            n = r.choice([4, 5, 6, 7])
            per = r.choice([2, 3])
            es = base_events(r, n, False)
            names_c = sorted({c for cs, _ in es for c in cs})
            names_o = sorted({o for _, os_ in es for o in os_})
            ids = [[[names_c.index(c) for c in cs], [names_o.index(o) for o in os_]] for cs, os_ in es]
            storage.append((learner, es, ids, per, r.choice([1, 2, 4])))
    sizes = driver.ask([{'op': 'storage_fault', 'events': ids, 'per': per, 'budget': 0} for _, _, ids, per, _ in storage])
    st_tasks, st_reqs = [], []
    for (learner, es, ids, per, nj), sz in zip(storage, sizes):
        bounds = sorted({0, 11, 12} | {s - 1 for s in sz['sizes']} | {s for s in sz['sizes']} | {max(sz['sizes']) + 8})
        if quick:
            bounds = r.sample(bounds, min(len(bounds), 4))
        for b in bounds:
            st_tasks.append(dict(op='fault_run', learner=learner, events=es, n_jobs=nj, per_job=10, per_file=per,
                                 fault={'kind': 'storage', 'budget': b}))
            st_reqs.append({'op': 'storage_fault', 'events': ids, 'per': per, 'budget': b})
    st_models = driver.ask(st_reqs)
    # X1: verbose=True for a quarter of the calls (a stream of its own: the tasks above are what they were);
    # the expectation does not know the flag
    rv = rng('C05/verbose')
    for t in [t for t, _, _ in tasks] + st_tasks:
        if rv.random() < 0.25:
            t['verbose'] = True
    impls = pool.map([t for t, _, _ in tasks] + st_tasks)
    all_cases = [(t, ('Any' if e == 'any' else EXPECT[e](t['learner']) if e else 'Returned'), tag) for t, e, tag in tasks] + \
                [(t, 'Raised:IO' if m['raises'] else 'Returned', 'storage') for t, m in zip(st_tasks, st_models)]
    n_shrunk = 0
    for (t, want, tag), res in zip(all_cases, impls):
        got = res.get('outcome', res.get('err', '?'))
        rep.case({'learner': t['learner'], 'fault': t['fault'], 'events': t['events'], 'cfg': [t['n_jobs'], t['per_file']]},
                 nontrivial=True, stream=tag)
        rep.count('learner:' + t['learner'])
        rep.count('fault:' + tag)
        rep.count('observed:' + got)
        rep.count('n_jobs:%d' % t['n_jobs'])
        rep.count('per_job:%d' % t['per_job'])
        if t['learner'] in PATH_CONV:
            rep.count('per_file:%s' % ('single_chunk' if t['per_file'] >= 10000000 else t['per_file']))
        rep.count('verbose:%s' % bool(t.get('verbose')))
        f = t['fault'] or {}
        if f.get('kind') == 'bad_line':
            rep.count('bad_line_shape:%s@%s' % (f['shape'], 'end' if f['pos'] >= len(t['events']) else 'first' if f['pos'] == 0 else 'inner'))
        if f.get('kind') == 'bad_param':
            rep.count('bad_param:%s=%s' % (f['which'], f['value']))
        prob = judge(t, want, tag, res, rep.count)
        if prob:
            steps = 0
            if n_shrunk < 3:
                # the first three violations are shrunk (events dropped, configuration simplified)
                n_shrunk += 1
                n_before = len(t['events'])
                t, steps = shrink(pool, t, tag, lambda c, x: judge(c, want, tag, x) is not None,
                                  rounds=3 if got in ('Timeout', 'WorkerDied') else 8)   # a hanging variant costs 15 s
                if steps:
                    res = pool.map([t])[0]
                    prob = judge(t, want, tag, res) or prob
            rep.violation({'what': prob, 'input': t, 'observed': {k: res.get(k) for k in ('outcome', 'err', 'cls', 'msg', 'seconds', 'leftovers')},
                           'expected': want, 'theorem_or_stream': 'C05 fault enumeration (%s) on %s' % (tag, t['learner']),
                           'python': snippet(t), 'shrink_steps': steps})
        elif tag != 'no_fault' and want != 'Returned':
            rep.sample({'learner': t['learner'], 'fault': t['fault'], 'outcome': got, 'cls': res.get('cls'), 'seconds': res.get('seconds')}, limit=8)
    rep.extra['max_seconds_per_call'] = max(x.get('seconds', x.get('_seconds', 0)) for x in impls)
