"""
C05 — a failed training run raises in bounded time and never returns weights.
Lean (PyndlProps/C05.lean): conversion_fault_raises (every completion order),
conversion_any_submitted_fault_raises, no_fault_returns, worker_fault_raises /
worker_runs_bounded / worker_never_blocks (every interleaving), dict_fault_raises,
policy_rejects_iff, storage_need.
Correspondence = fault enumeration on the real code: fault kind {repeated cue
under the default policy, malformed line (1 / 4 columns, an empty line in the
middle or at the end of the file, a third column that is not a decimal count:
a word, a float, empty), truncated gzip, cue or outcome without vector, per-file
byte budget for the chunk files swept over every chunk-size boundary
(RLIMIT_FSIZE set inside the conversion workers), unusable hyper-parameter type
(alpha / beta1 / lambda / eta a str, None, list; `betas` a scalar, a 3-tuple,
(0.5, None), (0.5, '0.25'), (None, 0.25))} x position of the faulty event
(first, middle, last; so in the first / an inner / the last chunk) x learner
{dict_ndl, ndl threading, ndl openmp, wh real-real / binary-real / real-binary
(openmp), wh numpy, dict_wh} x n_jobs x chunk sizes — the configuration
(n_jobs, n_outcomes_per_job, events_per_temporary_file incl. the single-chunk
value) is drawn anew for EVERY task; verbose=True for a quarter of the tasks;
every call in a killable worker with a deadline.
WHERE THE EXPECTATION COMES FROM.  Fault kinds the Lean MODEL knows — a repeated
cue under the default policy (dup_cue), a cue / outcome without a vector
(no_vector), no fault at all, and the argument / input faults of stream
`model_faults`: events_per_temporary_file >= 2^32 and = 1, an event file with
ZERO events, n_outcomes_per_job = 0 and >= 2^32 — are predicted by the driver op
`conversion_faults`, which runs the learner model of the task's learner
(`dictNdl`, `ndlCall`, `whModel`, `whNumpyModel`, `dictWhModel`) on the task's
events and configuration and returns `Returned` or the exception CLASS; for these
kinds a class that differs from the model's is a violation, and so is a
`Returned` where the model raises (and vice versa).  For the learners that write
chunk files the same op evaluates the conversion model: the failing-job oracle
of the event file (`failingJob`, C05 failing_job_iff) and the submit loop
`simulateF` run with it under a random completion-delay oracle (C05
conversion_dup_raises / conversion_overflow_raises / conversion_no_fault):
`sim_raises` must imply that the real call raises.  (whModel has no
events_per_temporary_file: the chunk-size faults are generated for ndl.ndl
only.)  Storage budgets: op `storage_fault` — the theorem-backed `encodedSize`
of every conversion job's window (C06 encoded_size / C05 storage_need) against
the budget.  The OTHER kinds have NO MODEL and keep the stage table EXPECT
below: malformed lines, truncated gzip, unusable parameter TYPES (the model's
scalars are numbers; a failing worker exists only as the nondeterministic
`.fail` action of the queue model), a generator that raises or yields a
malformed event; there only `Raised` — never `Returned`, never `Timeout` — is
required and a differing class is counted, not reported.  The same task without
the fault must return (non-vacuity).
Stream `worker_fault_trace` — the queue model WITH failures (`qRun` / `qFinal` /
`qRaises`, C05 worker_fault_raises / worker_runs_bounded): ndl.ndl
(method='threading') under an unusable alpha / beta / lambda (and without a
fault) runs with the logging work queue of C02 (harness/impl_sched.py); a kernel
call that raises is the action `fail`.  The observed history must be accepted
by the Lean transition system, be final, stay within 2*parts+threads steps, and
`qRaises` of the final state must say whether the real call raised.
Not faults (so not generated as such): a value the learner never needs
(dict_ndl reads beta2 only when an event lacks an outcome seen before: the
expectation is computed per task by `beta2_needed`), eta=[0.5] for the numpy
method (DESIGN §11), and a NEGATIVE frequency `a\tx\t-1`, which the reader
(int(), range()) accepts as zero repetitions in every learner: the format does
not define it, so only "terminates, leaves nothing behind" is required there
(stream line_outside_format).
"""
import json

import learners as L  # noqa
from common import rng

TIMEOUT = 40
WORKERS = 14

ALL = ['dict_ndl', 'ndl_threading', 'ndl_openmp', 'wh_r2r', 'wh_b2r', 'wh_r2b', 'wh_numpy', 'dict_wh']
PATH_CONV = ['ndl_threading', 'ndl_openmp', 'wh_r2r', 'wh_b2r', 'wh_r2b']   # learners that write chunk files
SINGLE = ['wh_numpy', 'dict_wh']                                             # one cue / one outcome per event

# stage that detects the fault and the exception class (DESIGN §6 C05 `detected_at`)
EXPECT = {
    'dup_cue': lambda l: 'Raised:Value',
    'bad_line': lambda l: 'Raised:Value',
    'truncated_gz': lambda l: 'Raised:Other',          # EOFError
    'no_vector': lambda l: 'Raised:Key' if l == 'dict_wh' else 'Raised:Value',
    'storage': lambda l: 'Raised:IO',
    'bad_param': lambda l: 'Raised:Type',
    'bad_betas': lambda l: 'Raised:Type',             # (a 3-tuple fails to unpack with ValueError: counted as class difference)
    'gen_raises': lambda l: 'Raised:Other',           # the generator's own RuntimeError
    'gen_bad_event': lambda l: 'Raised:Value',        # events_to_file / the unpacking of the event
}


# fault kinds whose expectation is the learner model's (driver op conversion_faults); every other kind: EXPECT
MODEL_KINDS = ('none', 'dup_cue', 'no_vector', 'per_file_overflow', 'per_file_one', 'zero_events', 'per_job_zero',
               'per_job_overflow')
_LEARNER_TABLES = {'wh_r2r': ('cue', 'outcome'), 'wh_b2r': ('outcome',), 'wh_r2b': ('cue',), 'wh_numpy': ('cue', 'outcome'),
                   'dict_wh': ('cue', 'outcome')}


def _fault_table(names, n_dims, prefix):
    """the vector table impl_fault._table builds for these names (entries ((3i + j) % 5 - 2) / 2), as a driver table"""
    return {'names': list(names), 'dims': ['%s%d' % (prefix, j) for j in range(n_dims)],
            'rows': [['%d/2' % ((i * 3 + j) % 5 - 2) for j in range(n_dims)] for i in range(len(names))]}


def model_request(t, r=None):
    """driver op conversion_faults for a task whose fault kind the model knows: the learner, the events as the
    file reads them back, the configuration and (wh) the vector tables impl_fault hands to the real call"""
    f = t['fault'] or {'kind': 'none'}
    events = [[list(c), list(o) if o else ['']] for c, o in t['events']]
    q = {'op': 'conversion_faults', 'learner': t['learner'], 'events': events, 'policy': t.get('policy', 'error'),
         'per_file': int(t.get('per_file', 10000000)), 'per_job': 0 if f['kind'] == 'per_job_zero' else int(t.get('per_job', 10)),
         'burst': 4 * int(t.get('n_jobs', 2))}
    if r is not None:
        # a completion-delay oracle for the submit loop (ticks job 0, 1, … needs): any order must raise / not raise alike
        q['delays'] = [r.choice([0, 0, 1, 3, 9]) for _ in range(len(events) + 2)]
    names = t.get('table_names') or {'cue': sorted({c for cs, _ in events for c in cs}),
                                      'outcome': sorted({o for _, os_ in events for o in os_})}
    for side in _LEARNER_TABLES.get(t['learner'], ()):
        ns = [x for x in names[side] if not (f['kind'] == 'no_vector' and f['side'] == side and x == f['name'])]
        q['cue_vectors' if side == 'cue' else 'outcome_vectors'] = _fault_table(ns, 3 if side == 'cue' else 2,
                                                                                'cd' if side == 'cue' else 'od')
    return q


def base_events(r, n, single):
    cues, outs = ['a', 'b', 'c', 'd'], ['x', 'y', 'z']
    es = []
    for i in range(n):
        if single:
            es.append([[r.choice(cues)], [r.choice(outs)]])
        else:
            es.append([r.sample(cues, r.randint(1, 3)), r.sample(outs, r.randint(1, 2))])
    return es


def positions(n):
    return sorted({0, n // 2, n - 1})


OLD_SHAPES = ['one_col', 'four_cols']
NEW_SHAPES = ['empty', 'freq_word', 'freq_float', 'freq_empty']       # see impl_fault._BAD_LINES
BETAS = ['pair_none', 'scalar', 'triple', 'beta2_str', 'none_pair']   # see impl_fault._BETAS
PER_FILE = [2, 3, 10000000]                                           # 10000000: the whole file is one chunk


def configuration(r, learner):
    """(n_jobs, n_outcomes_per_job, events_per_temporary_file) — drawn per task"""
    return dict(learner=learner, n_jobs=r.choice([1, 2, 4]), per_job=r.choice([1, 2, 10]),
                per_file=r.choice(PER_FILE) if learner in PATH_CONV else 10000000)


def beta2_needed(events):
    """dict_ndl multiplies by beta2 only for an outcome seen before that the current event lacks"""
    seen = set()
    for _, outs in events:
        if seen - set(outs):
            return True
        seen |= set(outs)
    return False


def judge(t, want, tag, res, count=None, model=None):
    """the property predicate on one observed call: a description of the violation, or None.
    `model`: the reply of conversion_faults when the expectation is the learner model's (then the class counts)"""
    got = res.get('outcome', res.get('err', '?'))
    prob = None
    if model is not None and got not in ('Timeout', 'WorkerDied', 'HarnessError'):
        conv = model.get('conversion')
        if got != want:
            return 'the learner model (%s) predicts %s for fault %r, the call: %s %s' % (
                t['learner'], want, (t['fault'] or {}).get('kind', 'none'), got, res.get('msg', '')[:160])
        if conv and conv['sim_raises'] and got == 'Returned':
            return 'the conversion model (simulateF with the failing-job oracle of the file: jobs %r fail) raises, the call returned' % (
                conv['failing_jobs'],)
    if want == 'Any':
        # not defined by the format: either outcome, but in bounded time (and nothing left behind, below)
        if got in ('Timeout', 'WorkerDied', 'HarnessError'):
            prob = 'a run on a file with %s did not finish: %s' % (t['fault'], got)
    elif want == 'Returned':
        if got != 'Returned':
            prob = 'no fault manifests (%s), but the call did not return: %s %s' % (tag, got, res.get('msg', ''))
    else:
        if got == 'Returned':
            prob = 'a faulty run (%s) RETURNED weights%s' % (t['fault'], ' (all zero)' if res.get('all_zero') else '')
        elif got in ('Timeout', 'WorkerDied'):
            prob = 'a faulty run (%s) blocked: %s after %ss' % (t['fault'], got, res.get('seconds', res.get('_seconds')))
        elif got == 'HarnessError':
            prob = 'harness: the fault could not be set up: %s' % res.get('msg')
        elif got != want and count is not None:
            count('class_differs_from_stage_table:%s:%s!=%s' % (tag, got, want))
    lo = res.get('leftovers')
    if prob is None and lo and (lo['systmp'] or lo['giventmp']):
        prob = 'temporary entries left behind after %s: %r' % (got, lo)
    if prob is None and res.get('file_unchanged') is False:
        prob = 'input event file modified'
    return prob


def smaller(t, tag):
    """smaller variants of a fault task that carry the same fault (the expectation stays what it was)"""
    f = t['fault'] or {}
    es = t['events']
    pos = f.get('pos')
    out = []
    if tag != 'storage':         # (the storage expectation is a function of the chunk sizes)
        for i in range(len(es)):
            if len(es) <= 1 or (f.get('kind') in ('dup_cue', 'gen_raises', 'gen_bad_event') and i == pos):
                continue
            es2 = es[:i] + es[i + 1:]
            f2 = dict(f)
            if pos is not None and i < pos:
                f2['pos'] = pos - 1
            if f.get('kind') == 'no_vector' and not any(f['name'] in (c if f['side'] == 'cue' else o) for c, o in es2):
                continue
            if tag == 'bad_betas' and t['learner'] == 'dict_ndl' and f['value'] in ('pair_none', 'beta2_str') and not beta2_needed(es2):
                continue
            if tag == 'betas_value_never_read' and beta2_needed(es2):
                continue
            out.append(dict(t, events=es2, fault=f2 if t['fault'] else None))
    if t.get('verbose'):
        out.append({k: v for k, v in t.items() if k != 'verbose'})
    if tag != 'storage':
        for k, v in (('n_jobs', 1), ('per_job', 10), ('per_file', 10000000)):
            if t.get(k) not in (None, v):
                out.append(dict(t, **{k: v}))
    return out


def snippet(t):
    return ("import json, os, sys\n"
            "sys.path.insert(0, '/verif/harness')   # impl_fault builds the faulty file / arguments; pyndl from PYTHONPATH\n"
            "os.makedirs('work', exist_ok=True); os.chdir('work')\n"
            "import impl_fault\n"
            "print(impl_fault.op_fault_run(json.loads(%r)))   # one call of %s under the fault %r\n"
            % (json.dumps(t), t['learner'], t.get('fault')))


def shrink(pool, t, tag, fails, rounds=8):
    """greedy: the first smaller variant that still violates, per round one batch through the pool; a
    variant counts only if it fails (a hang must stay a hang: variants run with a 15 s deadline, an
    unhindered call takes about 1 s)"""
    steps = 0
    for _ in range(rounds):
        cands = smaller(t, tag)
        if not cands:
            break
        res = pool.map([dict(c, _timeout=15) for c in cands])
        hit = next((c for c, x in zip(cands, res) if fails(c, x)), None)
        if hit is None:
            break
        t = hit
        steps += 1
    return t, steps


def run(rep, pool, driver, tier):
    import bridge
    bridge.check_bridges(rep)       # driver copies = the definitions of the theorems; TR.v commutes
    r = rng('C05')
    quick = tier == 'quick'
    tasks = []   # (task, expected outcome or None=must return, tag)
    n_rounds = 1 if quick else 6
    for rnd in range(n_rounds):
        for learner in ALL:
            single = learner in SINGLE
            n = r.choice([5, 6, 7])
            es = base_events(r, n, single)

            def cfg():
                # audit C05-1/C05-4: every task has a configuration of its own (F2 depended on the worker count;
                # with one chunk the failing job is also the one that ends the submit loop)
                return configuration(r, learner)
            # without a fault: with one job and with several, in several chunks and in one
            tasks.append((dict(cfg(), op='fault_run', events=es, fault=None), 'model', 'no_fault'))
            tasks.append((dict(cfg(), op='fault_run', events=es, n_jobs=r.choice([1, 4]), fault=None,
                               **({'per_file': 10000000} if r.random() < 0.5 else {})), 'model', 'no_fault'))
            for pos in (positions(n) if not quick else r.sample(positions(n), 2)):
                # repeated cue under the default policy
                es2 = [list(map(list, e)) for e in es]
                es2[pos][0] = es2[pos][0] + [es2[pos][0][0]]
                tasks.append((dict(cfg(), op='fault_run', events=es2, fault={'kind': 'dup_cue', 'pos': pos}), 'model', 'dup_cue'))
                for shape in (OLD_SHAPES + NEW_SHAPES if not quick else [r.choice(OLD_SHAPES), r.choice(NEW_SHAPES)]):
                    tasks.append((dict(cfg(), op='fault_run', events=es, fault={'kind': 'bad_line', 'pos': pos, 'shape': shape}),
                                  'bad_line', 'bad_line'))
            # an empty line behind the last event (the end of the file)
            tasks.append((dict(cfg(), op='fault_run', events=es, fault={'kind': 'bad_line', 'pos': n, 'shape': 'empty'}),
                          'bad_line', 'bad_line'))
            # a negative frequency: accepted by the reader as zero repetitions, not defined by the format
            tasks.append((dict(cfg(), op='fault_run', events=es, fault={'kind': 'bad_line', 'pos': r.choice(positions(n) + [n]),
                                                                         'shape': 'freq_negative'}), 'any', 'line_outside_format'))
            tasks.append((dict(cfg(), op='fault_run', events=es, n_jobs=r.choice([2, 4, 8]), fault={'kind': 'all_bad'}), 'bad_line', 'all_lines_bad'))
            for frac_ in ([0.3, 0.6, 0.9] if not quick else [r.choice([0.3, 0.6, 0.9])]):
                tasks.append((dict(cfg(), op='fault_run', events=es * 3, fault={'kind': 'truncated_gz', 'fraction': frac_}),
                              'truncated_gz', 'truncated_gz'))
            if learner.startswith('wh') or learner == 'dict_wh':
                sides = []
                if learner in ('wh_r2r', 'wh_r2b', 'wh_numpy', 'dict_wh'):
                    sides.append('cue')
                if learner in ('wh_r2r', 'wh_b2r', 'wh_numpy', 'dict_wh'):
                    sides.append('outcome')
                for side in sides:
                    for pos in (positions(n) if not quick else [r.choice(positions(n))]):
                        name = es[pos][0][0] if side == 'cue' else es[pos][1][0]
                        tasks.append((dict(cfg(), op='fault_run', events=es, fault={'kind': 'no_vector', 'side': side, 'name': name}),
                                      'model', 'no_vector'))
            # argument / input faults the learner model decides itself (stream model_faults)
            if learner in ('ndl_threading', 'ndl_openmp'):
                for kind, over in (('per_file_overflow', {'per_file': r.choice([2 ** 32, 2 ** 32 + 5, 2 ** 40])}),
                                   ('per_file_one', {'per_file': 1}),
                                   ('per_job_zero', {}),
                                   ('per_job_overflow', {'per_job': r.choice([2 ** 32, 2 ** 33 + 1])})):
                    tasks.append((dict(cfg(), op='fault_run', events=es, fault={'kind': kind}, **over), 'model', 'model_faults'))
            # an event file with zero events (the wh learners get vector tables for the usual names)
            tasks.append((dict(cfg(), op='fault_run', events=[], fault={'kind': 'zero_events'},
                               **({'table_names': {'cue': ['a', 'b', 'c', 'd'], 'outcome': ['x', 'y', 'z']}}
                                  if learner in _LEARNER_TABLES else {})), 'model', 'model_faults'))
            whichs = {'dict_ndl': ['alpha', 'beta', 'lambda'], 'ndl_threading': ['alpha', 'beta', 'lambda'],
                      'ndl_openmp': ['alpha', 'beta', 'lambda']}.get(learner, ['eta'])
            for which in whichs:
                for value in (['str', 'none', 'list'] if not quick else [r.choice(['str', 'none'])]):
                    if learner == 'wh_numpy' and value == 'list':
                        # eta=[0.5] is a usable value for the numpy method (broadcasting: the run is carried
                        # out correctly with eta = 0.5), not a fault — see DESIGN §11
                        continue
                    tasks.append((dict(cfg(), op='fault_run', events=es, fault={'kind': 'bad_param', 'which': which, 'value': value}),
                                  'bad_param', 'bad_param'))
            if learner in ('dict_ndl', 'ndl_threading', 'ndl_openmp'):
                # the `betas` argument as a whole (audit C05-3).  dict_ndl reads beta2 only when it needs it:
                # if these events never need it, (0.5, None) and (0.5, '0.25') are usable and the run must return
                for value in BETAS:
                    unused = learner == 'dict_ndl' and value in ('pair_none', 'beta2_str') and not beta2_needed(es)
                    tasks.append((dict(cfg(), op='fault_run', events=es, fault={'kind': 'bad_param', 'which': 'betas', 'value': value}),
                                  None if unused else 'bad_betas', 'betas_value_never_read' if unused else 'bad_betas'))
    # the events generator itself fails while it is consumed (dict_ndl) or spooled (ndl.ndl)
    for rnd in range(1 if quick else 4):
        for learner in ('dict_ndl', 'ndl_threading', 'ndl_openmp'):
            n = r.choice([4, 5, 6])
            es = base_events(r, n, False)
            for kind in ('gen_raises', 'gen_bad_event'):
                for pos in ([r.choice([0, n - 1])] if quick else [0, n // 2, n - 1]):
                    tasks.append((dict(op='fault_run', learner=learner, n_jobs=r.choice([1, 2, 4]), per_job=r.choice([1, 2, 10]),
                                       per_file=r.choice(PER_FILE), form='generator',
                                       events=es, fault={'kind': kind, 'pos': pos}), kind, kind))
    # storage budget sweep over every chunk-size boundary
    storage = []
    for rnd in range(2 if quick else 10):
        for learner in PATH_CONV:
            n = r.choice([4, 5, 6, 7])
            per = r.choice([2, 3])
            es = base_events(r, n, False)
            names_c = sorted({c for cs, _ in es for c in cs})
            names_o = sorted({o for _, os_ in es for o in os_})
            ids = [[[names_c.index(c) for c in cs], [names_o.index(o) for o in os_]] for cs, os_ in es]
            storage.append((learner, es, ids, per, r.choice([1, 2, 4])))
    sizes = driver.ask([{'op': 'storage_fault', 'events': ids, 'per': per, 'budget': 0} for _, _, ids, per, _ in storage])
    st_tasks, st_reqs = [], []
    for (learner, es, ids, per, nj), sz in zip(storage, sizes):
        bounds = sorted({0, 11, 12} | {s - 1 for s in sz['sizes']} | {s for s in sz['sizes']} | {max(sz['sizes']) + 8})
        if quick:
            bounds = r.sample(bounds, min(len(bounds), 4))
        for b in bounds:
            st_tasks.append(dict(op='fault_run', learner=learner, events=es, n_jobs=nj, per_job=10, per_file=per,
                                 fault={'kind': 'storage', 'budget': b}))
            st_reqs.append({'op': 'storage_fault', 'events': ids, 'per': per, 'budget': b})
    st_models = driver.ask(st_reqs)
    # X1: verbose=True for a quarter of the calls (a stream of its own: the tasks above are what they were);
    # the expectation does not know the flag
    rv = rng('C05/verbose')
    for t in [t for t, _, _ in tasks] + st_tasks:
        if rv.random() < 0.25:
            t['verbose'] = True
    impls = pool.map([t for t, _, _ in tasks] + st_tasks)
    # the learner model's verdict for the fault kinds it knows
    rm = rng('C05/model')
    mreps = iter(driver.ask([model_request(t, rm) for t, e, _ in tasks if e == 'model']))
    models = [next(mreps) if e == 'model' else None for _, e, _ in tasks] + [None] * len(st_tasks)
    all_cases = [(t, (m['learner'] if e == 'model' else 'Any' if e == 'any' else EXPECT[e](t['learner']) if e else 'Returned'), tag)
                 for (t, e, tag), m in zip(tasks, models)] + \
                [(t, 'Raised:IO' if m['raises'] else 'Returned', 'storage') for t, m in zip(st_tasks, st_models)]
    n_shrunk = 0
    for (t, want, tag), res, model in zip(all_cases, impls, models):
        got = res.get('outcome', res.get('err', '?'))
        rep.case({'learner': t['learner'], 'fault': t['fault'], 'events': t['events'], 'cfg': [t['n_jobs'], t['per_file']]},
                 nontrivial=True, stream=tag)
        rep.count('learner:' + t['learner'])
        rep.count('fault:' + tag)
        rep.count('observed:' + got)
        rep.count('n_jobs:%d' % t['n_jobs'])
        rep.count('per_job:%d' % t['per_job'])
        if t['learner'] in PATH_CONV:
            rep.count('per_file:%s' % ('single_chunk' if t['per_file'] >= 10000000 else t['per_file']))
        rep.count('verbose:%s' % bool(t.get('verbose')))
        f = t['fault'] or {}
        if f.get('kind') == 'bad_line':
            rep.count('bad_line_shape:%s@%s' % (f['shape'], 'end' if f['pos'] >= len(t['events']) else 'first' if f['pos'] == 0 else 'inner'))
        if f.get('kind') == 'bad_param':
            rep.count('bad_param:%s=%s' % (f['which'], f['value']))
        if model is not None:
            kind = (t['fault'] or {'kind': 'none'})['kind']
            rep.count('model_verdict:%s:%s:%s' % (kind, t['learner'], model['learner']))
            conv = model.get('conversion')
            if conv is not None:
                rep.count('conversion_model:%s:failing_jobs=%s:sim_raises=%s' % (
                    kind, 'none' if not conv['failing_jobs'] else 'first' if conv['failing_jobs'][0] == 0 else 'later', conv['sim_raises']))
        prob = judge(t, want, tag, res, rep.count, model)
        if prob:
            steps = 0
            if n_shrunk < 3:
                # the first three violations are shrunk (events dropped, configuration simplified)
                n_shrunk += 1
                n_before = len(t['events'])
                def fails(c, x):
                    if model is None:
                        return judge(c, want, tag, x) is not None
                    m = driver.ask([model_request(c)])[0]      # the model's verdict for the smaller task
                    return judge(c, m['learner'], tag, x, model=m) is not None
                t, steps = shrink(pool, t, tag, fails,
                                  rounds=3 if got in ('Timeout', 'WorkerDied') else 8)   # a hanging variant costs 15 s
                if steps:
                    res = pool.map([t])[0]
                    if model is not None:
                        model = driver.ask([model_request(t)])[0]
                        want = model['learner']
                    prob = judge(t, want, tag, res, model=model) or prob
            rep.violation({'what': prob, 'input': t, 'observed': {k: res.get(k) for k in ('outcome', 'err', 'cls', 'msg', 'seconds', 'leftovers')},
                           'expected': want if model is None else {'learner_model': want, 'conversion_model': model.get('conversion')},
                           'theorem_or_stream': ('C05 fault enumeration (%s) on %s' + ('' if model is None else
                                                 ': verdict of the learner model (driver op conversion_faults)')) % (tag, t['learner']),
                           'python': snippet(t), 'shrink_steps': steps})
        elif tag != 'no_fault' and want != 'Returned':
            rep.sample({'learner': t['learner'], 'fault': t['fault'], 'outcome': got, 'cls': res.get('cls'), 'seconds': res.get('seconds')}, limit=8)
    _worker_fault_traces(rep, pool, driver, r, quick)
    rep.extra['max_seconds_per_call'] = max(x.get('seconds', x.get('_seconds', 0)) for x in impls)


def _worker_fault_traces(rep, pool, driver, r, quick):
    """the work-queue protocol of method='threading' when kernel calls RAISE: observed history vs qRun/qRaises"""
    tasks = []
    for i in range(4 if quick else 30):
        n_out = r.randint(1, 9)
        outs = ['o%d' % k for k in range(n_out)]
        es = [[r.sample(['a', 'b', 'c', 'd'], r.randint(1, 3)), r.sample(outs, r.randint(1, n_out))] for _ in range(r.randint(2, 5))]
        es[0][1] = outs
        faults = [None] + [{'kind': 'bad_param', 'which': w, 'value': v} for w in ('alpha', 'beta', 'lambda') for v in ('str', 'none')]
        for f in ([None] + r.sample(faults[1:], 2) if quick else faults):
            tasks.append(dict(op='trace_threading', fault_run=True, learner='ndl_threading', events=es, fault=f,
                              n_jobs=r.choice([1, 2, 3, 5, 8]), per_job=r.randint(1, n_out + 1),
                              per_file=r.choice([2, 10000000]), jitter_seed=r.randint(0, 10 ** 6)))
    impls = pool.map(tasks)
    replies = driver.ask([{'op': 'queue_trace', 'parts': len(res.get('parts', [])), 'threads': t['n_jobs'],
                           'trace': [[a[0], a[1]] for a in res.get('trace', [])]} for t, res in zip(tasks, impls)])
    for t, res, rp in zip(tasks, impls, replies):
        got = res.get('outcome', res.get('err', '?'))
        trace = res.get('trace', [])
        n_fail = sum(1 for a in trace if a[0] == 'fail')
        rep.case({'trace': trace, 'cfg': [t['n_jobs'], t['per_job']], 'fault': t['fault']}, nontrivial=len(trace) > 2,
                 stream='worker_fault_trace')
        rep.count('worker_fault_trace:%s:kernel_calls_failed=%s:%s' % ('fault' if t['fault'] else 'no_fault',
                                                                       '0' if n_fail == 0 else '1' if n_fail == 1 else '2+', got))
        prob = None
        if got in ('Timeout', 'WorkerDied', 'HarnessError') or 'trace' not in res:
            prob = 'traced run did not finish: %s %s' % (got, res.get('msg', ''))
        elif not trace and got != 'Returned':
            continue        # the call failed before the workers were started: nothing for the queue model to say
        elif not rp['accepted']:
            prob = 'work-queue history rejected by the Lean transition system at step %d: %r' % (rp['first_rejected'], trace[rp['first_rejected']])
        elif not rp['final']:
            prob = 'history accepted but not final (a worker neither left the loop nor failed)'
        elif len(trace) > 2 * len(res.get('parts', [])) + t['n_jobs']:
            prob = 'history longer than the bound 2*parts+threads'
        elif rp['raises'] != (got != 'Returned'):
            prob = 'qRaises of the final state is %s, the call: %s' % (rp['raises'], got)
        elif t['fault'] and got == 'Returned':
            prob = 'a run with an unusable %s returned weights' % t['fault']['which']
        if prob:
            rep.violation({'what': prob, 'input': t, 'observed': {'outcome': got, 'trace': trace, 'msg': res.get('msg')},
                           'expected': {'accepted': True, 'final': True, 'raises': got != 'Returned'}, 'python': snippet(dict(t, op='fault_run')),
                           'theorem_or_stream': 'C05 worker_fault_raises / worker_runs_bounded: observed work-queue history with failing kernel calls vs qRun / qRaises'})
