"""
Implementation side: every op calls the *real* pyndl (imported from the scratch
build of /repo's working tree) on a JSON task and returns a canonical JSON
result: floats as exact rationals 'num/den', exceptions as a small enum, sets
sorted.  Nothing here re-implements a learner.
"""
import gzip
import hashlib
import os
import shutil
import tempfile
from collections import defaultdict
from fractions import Fraction

import numpy as np
import xarray as xr

from pyndl import ndl, io, preprocess, count, activation, wh  # noqa: F401

WORK = os.getcwd()


def classify(exc):
    if isinstance(exc, KeyError):
        return 'Raised:Key'
    if isinstance(exc, ValueError):
        return 'Raised:Value'
    if isinstance(exc, OSError):
        return 'Raised:IO'
    if isinstance(exc, TypeError):
        return 'Raised:Type'
    if isinstance(exc, AssertionError):
        return 'Raised:Assertion'
    return 'Raised:Other'


def err(exc):
    return {'err': classify(exc), 'cls': type(exc).__name__, 'msg': str(exc)[:300]}


def fl(s):
    """'num/den' -> float (exact when dyadic)"""
    if isinstance(s, (int, float)):
        return float(s)
    return float(Fraction(s))


def rat(x):
    f = Fraction(float(x))
    return '%d/%d' % (f.numerator, f.denominator)


POLICY = {'error': None, 'dedup': True, 'keep': False}


def write_event_file(path, events, freq=None, header='cues\toutcomes\n', compress=True):
    """the harness' own writer of the documented text format (not pyndl's)"""
    op = gzip.open if compress else open
    with op(path, 'wt', encoding='utf-8', newline='\n') as f:
        f.write(header)
        for i, (cues, outcomes) in enumerate(events):
            line = '_'.join(cues) + '\t' + '_'.join(outcomes)
            if freq is not None:
                line += '\t' + str(freq[i])
            f.write(line + '\n')


class CallDir:
    """private TMPDIR + private temporary_directory + private input dir for one call"""

    def __init__(self):
        self.root = tempfile.mkdtemp(prefix='call-', dir=WORK)
        self.sys_tmp = os.path.join(self.root, 'systmp')
        self.given_tmp = os.path.join(self.root, 'giventmp')
        self.inp = os.path.join(self.root, 'in')
        for d in (self.sys_tmp, self.given_tmp, self.inp):
            os.mkdir(d)
        self._old = (os.environ.get('TMPDIR'), tempfile.tempdir)
        os.environ['TMPDIR'] = self.sys_tmp
        tempfile.tempdir = self.sys_tmp

    def leftovers(self):
        return {'systmp': sorted(os.listdir(self.sys_tmp)), 'giventmp': sorted(os.listdir(self.given_tmp))}

    def close(self):
        old_env, old_td = self._old
        if old_env is None:
            os.environ.pop('TMPDIR', None)
        else:
            os.environ['TMPDIR'] = old_env
        tempfile.tempdir = old_td
        shutil.rmtree(self.root, ignore_errors=True)


def sha(path):
    return hashlib.sha256(open(path, 'rb').read()).hexdigest()


def da_to_result(w):
    dims = w.dims
    rows = [str(x) for x in w.coords[dims[0]].values.tolist()]
    cols = [str(x) for x in w.coords[dims[1]].values.tolist()]
    vals = np.asarray(w.values)
    nz = np.argwhere(vals != 0)
    cells = [[rows[i], cols[j], rat(vals[i, j])] for i, j in nz.tolist()]
    return {'outcomes': rows, 'cues': cols, 'cells': cells, 'dims': list(dims)}


def dict_to_result(w):
    rows = list(w.keys())
    cols = set()
    cells = []
    for o, row in w.items():
        for c, v in row.items():
            cols.add(c)
            if v != 0:
                cells.append([o, c, rat(v)])
    return {'outcomes': rows, 'cues': sorted(cols), 'cells': cells}


def make_da(init):
    outs, cues = init['outcomes'], init['cues']
    vals = np.array([fl(v) for v in init['vals']], dtype=np.float64).reshape((len(outs), len(cues)))
    layout = init.get('layout', 'c')
    attrs = dict(init.get('attrs', {}))
    if layout == 'f':
        vals = np.asfortranarray(vals)
    elif layout == 'transposed':
        return xr.DataArray(np.ascontiguousarray(vals.T), [('cues', cues), ('outcomes', outs)], attrs=attrs).T
    elif layout == 'slice':
        big = np.full((len(outs) + 2, len(cues) + 3), 7.25)
        big[1:-1, 2:-1] = vals
        da = xr.DataArray(big, [('outcomes', ['PAD0'] + outs + ['PAD1']), ('cues', ['P0', 'P1'] + cues + ['P2'])], attrs=attrs)
        return da.isel(outcomes=slice(1, len(outs) + 1), cues=slice(2, len(cues) + 2))
    return xr.DataArray(vals, [('outcomes', outs), ('cues', cues)], attrs=attrs)


def make_wd(cells):
    w = ndl.WeightDict()
    for o, c, v in cells:
        w[o][c] = fl(v)
    return w


def snapshot(w):
    if w is None:
        return None
    if isinstance(w, xr.DataArray):
        return ('da', w.values.copy().tobytes(), [c.values.tolist() for c in w.coords.values()],
                dict(w.attrs), w.dims)
    return ('dict', {o: dict(r) for o, r in w.items()}, dict(getattr(w, 'attrs', {})))


def alpha_arg(a):
    if isinstance(a, dict):
        d = fl(a['default'])
        if a.get('container') == 'dict':
            # a plain dict that names every cue of the file (the generator guarantees it)
            return {k: fl(v) for k, v in a.get('map', {}).items()}
        m = defaultdict(lambda: d)
        for k, v in a.get('map', {}).items():
            m[k] = fl(v)
        return m
    return fl(a)


def op_learn(t):
    """one call of dict_ndl or ndl.ndl"""
    cd = CallDir()
    try:
        events = [(list(c), list(o)) for c, o in t['events']]
        learner = t['learner']
        form = t.get('form', 'path' if learner == 'ndl' else 'list')
        path = os.path.join(cd.inp, 'events.tab.gz')
        before = None
        if form in ('path', 'pathobj'):
            write_event_file(path, events, freq=t.get('freq'))
            before = sha(path)
            arg = path
            if form == 'pathobj':
                import pathlib
                arg = pathlib.Path(path)
        elif form == 'list':
            arg = events
        elif form == 'generator':
            arg = ((c, o) for c, o in events)
        else:
            raise RuntimeError('bad form')
        init = None
        if t.get('init') is not None:
            if t.get('init_form', 'da' if learner == 'ndl' else 'dict') == 'da':
                init = make_da(t['init'])
            else:
                init = make_wd(t['init'])
        snap = snapshot(init)
        res = {}
        try:
            if learner == 'dict_ndl':
                w = ndl.dict_ndl(arg, alpha_arg(t['alpha']), (fl(t['beta1']), fl(t['beta2'])), fl(t['lambda']),
                                 weights=init, remove_duplicates=POLICY[t['policy']],
                                 inplace=bool(t.get('inplace', False)),
                                 make_data_array=bool(t.get('make_data_array', False)))
                if isinstance(w, xr.DataArray):
                    res = da_to_result(w)
                else:
                    res = dict_to_result(w)
                res['attrs'] = {k: str(v) for k, v in w.attrs.items()}
            else:
                kw = {}
                if t.get('given_tmp'):
                    kw['temporary_directory'] = cd.given_tmp
                w = ndl.ndl(arg, fl(t['alpha']), (fl(t['beta1']), fl(t['beta2'])), fl(t['lambda']),
                            method=t['method'], weights=init, n_jobs=int(t.get('n_jobs', 2)),
                            n_outcomes_per_job=int(t.get('per_job', 10)),
                            remove_duplicates=POLICY[t['policy']],
                            events_per_temporary_file=int(t.get('per_file', 10000000)), **kw)
                res = da_to_result(w)
                res['attrs'] = {k: str(v) for k, v in w.attrs.items()}
        except Exception as e:  # noqa
            res = err(e)
        res['input_unmodified'] = (snapshot(init) == snap) if not t.get('inplace') else True
        res['leftovers'] = cd.leftovers()
        if before is not None:
            res['file_unchanged'] = (sha(path) == before)
        return res
    finally:
        cd.close()


OPS = {'learn': op_learn}


def run(task):
    return OPS[task['op']](task)


REWRAPS = ('f', 'transposed', 'slice', 'netcdf')


def rewrap_da(w, how, directory, tag=''):
    """the SAME labelled weights (values, coords, attrs) as a new DataArray with another memory layout:
    'f' Fortran-ordered copy, 'transposed' transposed view of a transposed copy, 'slice' isel selection
    of a padded array (the layouts of make_da), 'netcdf' to_netcdf + open_dataarray().load() in
    `directory`.  Uses xarray/numpy only, never pyndl."""
    outs = w.coords['outcomes'].values.tolist()
    cues = w.coords['cues'].values.tolist()
    vals = np.array(w.transpose('outcomes', 'cues').values, dtype=np.float64, order='C')
    attrs = dict(w.attrs)
    if how == 'f':
        return xr.DataArray(np.asfortranarray(vals), [('outcomes', outs), ('cues', cues)], attrs=attrs)
    if how == 'transposed':
        return xr.DataArray(np.ascontiguousarray(vals.T), [('cues', cues), ('outcomes', outs)], attrs=attrs).T
    if how == 'slice':
        big = np.full((len(outs) + 2, len(cues) + 3), 7.25)
        big[1:-1, 2:-1] = vals
        da = xr.DataArray(big, [('outcomes', ['PAD0'] + outs + ['PAD1']), ('cues', ['P0', 'P1'] + cues + ['P2'])],
                          attrs=attrs)
        return da.isel(outcomes=slice(1, len(outs) + 1), cues=slice(2, len(cues) + 2))
    if how == 'netcdf':
        path = os.path.join(directory, 'rewrap_%s.nc' % tag)
        w.to_netcdf(path)
        with xr.open_dataarray(path) as fh:
            w2 = fh.load()
        os.remove(path)
        return w2
    raise RuntimeError('bad rewrap')


def _denoted(w):
    """what a weights DataArray denotes, independent of its memory layout"""
    w = w.transpose('outcomes', 'cues')
    return (w.coords['outcomes'].values.tolist(), w.coords['cues'].values.tolist(),
            np.ascontiguousarray(w.values, dtype=np.float64).tobytes(), w.values.dtype == np.float64, dict(w.attrs))


def op_chain(t):
    """
    A chain of learner calls through the `weights` argument inside ONE process
    (so aliasing between a result and a later call's input is observable).
    pieces: [{learner: dict_ndl|ndl, events, method, n_jobs, per_job, per_file, make_data_array, convert}]
    Every piece reads its events from its own file.  Returns the final weights,
    and for every call whether the object handed in as `weights` (values,
    coords, attrs) is unchanged afterwards — also checked again at the very end.
    Optional per piece: `inplace` (dict_ndl(inplace=True): when the object handed in is a dict, the
    call is asked to learn IN it — reported as `inplace_same_object` (w2 is w); that object is not held
    to the non-mutation clause for this call, but every object handed in earlier still is, and so is
    this one in every later call); `rewrap` (the DataArray about to be handed in is re-wrapped by
    rewrap_da first — same denoted weights, other memory layout; `rewrap_kept` says whether values,
    coords and attrs survived the re-wrapping itself).  Optional per task: `policy` may make the model
    predict ValueError; the error class is reported like any other.
    """
    cd = CallDir()
    try:
        w = None
        snaps = []          # (object, snapshot) of everything ever handed in
        flags = []
        n_events = []
        same_object, rewrapped, rewrap_kept = [], [], []
        for k, pc in enumerate(t['pieces']):
            path = os.path.join(cd.inp, 'events_%d.tab.gz' % k)
            write_event_file(path, [(list(c), list(o)) for c, o in pc['events']])
            if w is not None and pc['learner'] == 'ndl' and not isinstance(w, xr.DataArray):
                w = ndl.data_array(w)
            if pc.get('rewrap') and isinstance(w, xr.DataArray):
                w_r = rewrap_da(w, pc['rewrap'], cd.inp, str(k))
                rewrap_kept.append(_denoted(w_r) == _denoted(w) and tuple(w_r.dims) == ('outcomes', 'cues'))
                rewrapped.append([k, pc['rewrap']])
                w = w_r
            snap = snapshot(w)
            inplace = bool(pc.get('inplace', False)) and pc['learner'] == 'dict_ndl'
            in_dict = inplace and w is not None and not isinstance(w, xr.DataArray)
            if w is not None and not inplace:
                snaps.append((w, snap))
            # the events argument in the form the piece asks for (file forms read events_<k>.tab.gz; the
            # in-memory forms carry what that file reads back as)
            form = pc.get('form', 'path')
            evs = [(list(c), list(o)) for c, o in pc['events']]
            arg = {'path': path, 'pathobj': __import__('pathlib').Path(path), 'list': evs,
                   'generator': (e for e in evs)}[form]
            path_or_events = arg
            try:
                if pc['learner'] == 'dict_ndl':
                    w2 = ndl.dict_ndl(path_or_events, fl(t['alpha']), (fl(t['beta1']), fl(t['beta2'])), fl(t['lambda']),
                                      weights=w, remove_duplicates=POLICY[t['policy']],
                                      make_data_array=bool(pc.get('make_data_array', False)),
                                      **({'inplace': True} if inplace else {}))
                else:
                    w2 = ndl.ndl(path_or_events, fl(t['alpha']), (fl(t['beta1']), fl(t['beta2'])), fl(t['lambda']),
                                 method=pc['method'], weights=w, n_jobs=int(pc.get('n_jobs', 2)),
                                 n_outcomes_per_job=int(pc.get('per_job', 10)),
                                 remove_duplicates=POLICY[t['policy']],
                                 events_per_temporary_file=int(pc.get('per_file', 10000000)))
            except Exception as e:  # noqa
                r = err(e)
                r['failed_piece'] = k
                return r
            flags.append(True if inplace else snapshot(w) == snap)
            if in_dict:
                same_object.append([k, w2 is w])
            w = w2
        res = da_to_result(w) if isinstance(w, xr.DataArray) else dict_to_result(w)
        res['inplace_same_object'] = same_object
        res['rewrapped'] = rewrapped
        res['rewrap_kept'] = rewrap_kept
        res['is_data_array'] = isinstance(w, xr.DataArray)
        res['attrs'] = {k: str(v) for k, v in w.attrs.items()}
        res['inputs_unmodified'] = flags
        res['inputs_unmodified_at_end'] = [snapshot(o) == s for o, s in snaps]
        res['leftovers'] = cd.leftovers()
        return res
    finally:
        cd.close()


OPS['chain'] = op_chain


def _load_plugins():
    """every harness/impl_*.py contributes its own OPS dict"""
    import glob
    import importlib
    here = os.path.dirname(os.path.abspath(__file__))
    for p in sorted(glob.glob(os.path.join(here, 'impl_*.py'))):
        m = importlib.import_module(os.path.basename(p)[:-3])
        OPS.update(getattr(m, 'OPS', {}))


_load_plugins()
