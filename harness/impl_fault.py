"""
C05/C17 implementation op: one learner call under one injected fault (or none),
observed as (outcome class, seconds, temp-dir leftovers, input file unchanged).
Faults are injected from the test side only: crafted event files, crafted
vector tables, unusable hyper-parameter objects, and a per-file byte budget set
with RLIMIT_FSIZE *inside the conversion workers* (wrapper around
pyndl.preprocess._job_binary_event_file, inherited through fork).
"""
import contextlib
import gzip
import io
import os
import resource
import time

import numpy as np
import xarray as xr

import impl
from impl import fl, POLICY, CallDir, sha
from pyndl import ndl, wh, preprocess

_REAL_JOB = preprocess._job_binary_event_file
_BUDGET = None


def _limited_job(**kw):
    _soft, hard = resource.getrlimit(resource.RLIMIT_FSIZE)
    resource.setrlimit(resource.RLIMIT_FSIZE, (_BUDGET, hard))
    return _REAL_JOB(**kw)


def _write_lines(path, lines, truncate=None):
    with gzip.open(path, 'wt', encoding='utf-8', newline='\n') as f:
        for l in lines:
            f.write(l + '\n')
    if truncate is not None:
        data = open(path, 'rb').read()
        open(path, 'wb').write(data[:max(1, int(len(data) * truncate))])


def _table(names, n_dims, kind):
    vals = np.ascontiguousarray(np.array([[float((i * 3 + j) % 5 - 2) / 2 for j in range(n_dims)]
                                          for i in range(len(names))], dtype=np.float64))
    if kind == 'cue':
        return xr.DataArray(vals, dims=('cues', 'cue_vector_dimensions'),
                            coords={'cues': names, 'cue_vector_dimensions': ['cd%d' % j for j in range(n_dims)]})
    return xr.DataArray(vals, dims=('outcomes', 'outcome_vector_dimensions'),
                        coords={'outcomes': names, 'outcome_vector_dimensions': ['od%d' % j for j in range(n_dims)]})


def _bad_weights(learner, shape, cue_names, out_names):
    """a DataArray laid out like the learner's own result, except for `shape`"""
    rows, row_dim = ((['od0', 'od1'], 'outcome_vector_dimensions') if learner in ('wh_r2r', 'wh_b2r', 'wh_numpy')
                     else (list(out_names), 'outcomes'))
    cols, col_dim = ((['cd0', 'cd1', 'cd2'], 'cue_vector_dimensions') if learner in ('wh_r2r', 'wh_r2b', 'wh_numpy')
                     else (list(cue_names), 'cues'))
    if shape == 'extra_vector_dim':
        # one vector dimension more than the tables have
        if row_dim.endswith('dimensions'):
            rows = rows + ['od2']
        else:
            cols = cols + ['cd3']
    elif shape == 'transposed':
        rows, row_dim, cols, col_dim = cols, col_dim, rows, row_dim
    elif shape == 'ndarray':
        return np.zeros((len(rows), len(cols)))
    else:
        raise RuntimeError('bad shape')
    return xr.DataArray(np.zeros((len(rows), len(cols))), dims=(row_dim, col_dim), coords={row_dim: rows, col_dim: cols})


_PARAMS = {'str': '0.5', 'none': None, 'list': [0.5], 'bytes': b'1'}
# the `betas` argument as a whole (documented: (float, float))
_BETAS = {'pair_none': (0.5, None), 'scalar': 0.5, 'triple': (0.5, 0.25, 0.25), 'beta2_str': (0.5, '0.25'),
          'none_pair': (None, 0.25)}
# lines that are put into an otherwise well-formed file; the third column is the frequency
_BAD_LINES = {'one_col': 'justonecolumn', 'four_cols': 'a\tb\t1\textra', 'empty': '',
              'freq_word': 'a\tx\tfoo', 'freq_float': 'a\tx\t1.5', 'freq_negative': 'a\tx\t-1',
              'freq_empty': 'a\tx\t'}


def op_fault_run(t):
    global _BUDGET
    cd = CallDir()
    try:
        learner = t['learner']
        fault = t.get('fault') or {'kind': 'none'}
        kind = fault['kind']
        events = [(list(c), list(o)) for c, o in t['events']]
        lines = ['cues\toutcomes'] + ['_'.join(c) + '\t' + '_'.join(o) for c, o in events]
        if kind == 'bad_line':
            # pos = len(events) puts the line behind the last event (the end of the file)
            lines.insert(1 + fault['pos'], _BAD_LINES[fault['shape']])
        if kind == 'all_bad':
            # a file in a different format altogether (comma separated): every line is malformed,
            # so every counting / conversion worker fails at once
            lines = ['cues,outcomes'] + [','.join(c) + ',' + ','.join(o) for c, o in events] * 20
        path = os.path.join(cd.inp, 'events.tab.gz')
        _write_lines(path, lines, truncate=fault.get('fraction') if kind == 'truncated_gz' else None)
        before = sha(path)
        cue_names = sorted({c for cs, _ in events for c in cs})
        out_names = sorted({o for _, os_ in events for o in os_})
        if t.get('table_names'):
            # the names the vector tables are built for, when they are not to be taken from the events
            # (an event file with zero events still needs tables)
            cue_names, out_names = list(t['table_names']['cue']), list(t['table_names']['outcome'])
        if kind == 'no_vector':
            if fault['side'] == 'cue':
                cue_names = [c for c in cue_names if c != fault['name']]
            else:
                out_names = [o for o in out_names if o != fault['name']]
        alpha, b1, b2, lam, eta = 0.25, 0.5, 0.25, 1.0, 0.25
        betas = None
        if kind == 'bad_param' and fault['which'] == 'betas':
            betas = _BETAS[fault['value']]
        elif kind == 'bad_param':
            v = _PARAMS[fault['value']]
            if fault['which'] == 'alpha':
                alpha = v
            elif fault['which'] == 'beta':
                b1 = v
            elif fault['which'] == 'lambda':
                lam = v
            elif fault['which'] == 'eta':
                eta = v
        policy = POLICY[t.get('policy', 'error')]
        kw = dict(n_jobs=int(t.get('n_jobs', 2)), n_outcomes_per_job=int(t.get('per_job', 10)),
                  remove_duplicates=policy, events_per_temporary_file=int(t.get('per_file', 10000000)))
        if t.get('given_tmp'):
            kw['temporary_directory'] = cd.given_tmp
        if betas is None:
            betas = (b1, b2)
        vkw = {'verbose': True} if t.get('verbose') else {}     # X1; the output is captured below
        kw.update(vkw)
        method = None
        wkw = {}
        if kind == 'bad_method':
            # a method name no learner knows: found only after counting and after the chunk files exist
            method = fault['method']
        if kind == 'per_job_zero':
            kw['n_outcomes_per_job'] = 0
        if kind == 'bad_weights':
            # a `weights` array that does not fit the vector tables of this call (wh flavours only)
            wkw['weights'] = _bad_weights(learner, fault['shape'], cue_names, out_names)
        arg = path
        if t.get('form') == 'generator':
            if kind == 'gen_raises':
                def _gen():
                    for i, (c, o) in enumerate(events):
                        if i == fault['pos']:
                            raise RuntimeError('generator failed after %d events' % i)
                        yield (c, o)
                arg = _gen()
            elif kind == 'gen_bad_event':
                def _gen():
                    for i, (c, o) in enumerate(events):
                        if i == fault['pos']:
                            yield (('not', 'a list'), 7)
                        yield (c, o)
                arg = _gen()
            else:
                arg = ((c, o) for c, o in events)
        if kind == 'storage':
            _BUDGET = int(fault['budget'])
            preprocess._job_binary_event_file = _limited_job
        if method is not None and learner not in ('dict_ndl', 'dict_wh'):
            kw['method'] = method
        elif learner in ('ndl_threading', 'ndl_openmp'):
            kw['method'] = learner[4:]
        watcher, listing_before = None, None
        if t.get('watch'):
            # C17: listing (paths + sha256) of the call's whole private root before / after, and the entries the
            # call (its worker processes included) is observed to create / remove meanwhile
            import fswatch
            listing_before = fswatch.listing(cd.root)
            try:
                watcher = fswatch.Watcher(cd.root)
                watcher.start()
            except OSError:
                watcher = False          # no inotify instance to be had: the listings are still compared
        t0 = time.time()
        res = {}
        captured = io.StringIO()
        try:
            with contextlib.redirect_stdout(captured):
                if learner == 'dict_ndl':
                    w = ndl.dict_ndl(arg if t.get('form') != 'list' else events, alpha, betas, lam, remove_duplicates=policy,
                                     **vkw)
                elif learner in ('ndl_threading', 'ndl_openmp'):
                    w = ndl.ndl(arg, alpha, betas, lam, **kw)
                elif learner == 'wh_r2r':
                    w = wh.wh(path, eta, cue_vectors=_table(cue_names, 3, 'cue'), outcome_vectors=_table(out_names, 2, 'out'),
                              **wkw, **kw)
                elif learner == 'wh_b2r':
                    w = wh.wh(path, eta, outcome_vectors=_table(out_names, 2, 'out'), **wkw, **kw)
                elif learner == 'wh_r2b':
                    w = wh.wh(path, eta, cue_vectors=_table(cue_names, 3, 'cue'), **wkw, **kw)
                elif learner == 'wh_numpy':
                    w = wh.wh(path, eta, cue_vectors=_table(cue_names, 3, 'cue'), outcome_vectors=_table(out_names, 2, 'out'),
                              method=method or 'numpy', remove_duplicates=policy, **wkw, **vkw)
                elif learner == 'dict_wh':
                    w = wh.dict_wh(path, eta, _table(cue_names, 3, 'cue'), _table(out_names, 2, 'out'), remove_duplicates=policy,
                                   **vkw)
                else:
                    raise RuntimeError('unknown learner')
            res = {'outcome': 'Returned', 'all_zero': bool(not np.asarray(getattr(w, 'values', [1])).any())
                   if hasattr(w, 'values') else False}
        except AssertionError as e:
            res = {'outcome': 'Raised:Assertion', 'err': 'Raised:Assertion', 'msg': str(e)[:120], 'cls': 'AssertionError'}
        except Exception as e:  # noqa
            res = impl.err(e)
            res['outcome'] = res['err']
        finally:
            preprocess._job_binary_event_file = _REAL_JOB
        res['seconds'] = round(time.time() - t0, 2)
        if watcher is not None:
            import fswatch
            res['observed'] = watcher.stop() if watcher else []
            res['watched'] = bool(watcher)
            res['listing_before'] = listing_before
            res['listing_after'] = fswatch.listing(cd.root)
        if t.get('verbose'):
            res['printed_chars'] = len(captured.getvalue())
        res['leftovers'] = cd.leftovers()
        res['file_unchanged'] = (sha(path) == before)
        return res
    finally:
        cd.close()


OPS = {'fault_run': op_fault_run}
