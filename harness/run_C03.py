"""
C03 — continuing from earlier weights equals learning everything in one pass;
inputs are not modified.
Lean (PyndlProps/C03.lean): learn_append, chain_eq_single (any k-way split),
dict_continue, dict_chain_two, dict_from_data_array, abs_extend (new labels in
later parts, any order), input_preserved_partial.
Correspondence: chains of 2..4 real learner calls inside one process over every
split position, learners drawn per piece from {dict_ndl (dict hand-over),
dict_ndl (DataArray in / DataArray out), ndl threading, ndl openmp}, and chains
of wh.wh calls in each of its three vector flavours (stream wh_chain; model:
whModel's single pass), later pieces with and without new cues/outcomes; the final
weights are compared exactly with the Lean model's SINGLE pass over the
concatenation. Every object handed in as `weights` is snapshotted (values,
coords, attrs) before the call and compared after it and again at the end of
the chain — the only evidence for the non-mutation clause (partial: aliasing
inside numpy/xarray/deepcopy is not modelled).
In-place learning: piece kind dict_ndl(inplace=True); handed a dict it must
return that very object (`w2 is w`), the chain must still equal the single
pass, and every object handed in to an EARLIER or LATER non-in-place call must
stay as it was (an earlier shallow copy shows here).  Events contain repeated
cues/outcomes (dup in {0, 0.4}) under the policies dedup / keep (and, rarely,
error: the model predicts ValueError, classes compared).  Between two pieces
the DataArray handed on is re-wrapped with probability 0.3 (Fortran copy,
transposed view of a transposed copy, isel of a padded array, netCDF save/load;
harness/impl.py rewrap_da) — the denoted weights, hence the expected result,
are unchanged.  wh chains: 2..4 pieces, small and medium (20 x 19) label sets,
repeats.  Failing chains are shrunk (events, pieces, re-wrapping, forms).
"""
import itertools

from fractions import Fraction

import gen
import learners as L
import whgen
from common import rng, close

TIMEOUT = 120


def splits(n, k):
    """all ways to cut range(n) into k non-empty consecutive pieces"""
    for cuts in itertools.combinations(range(1, n), k - 1):
        b = (0,) + cuts + (n,)
        yield [(b[i], b[i + 1]) for i in range(k)]


KINDS = [
    {'learner': 'dict_ndl'},
    {'learner': 'dict_ndl', 'make_data_array': True},
    {'learner': 'ndl', 'method': 'threading'},
    {'learner': 'ndl', 'method': 'openmp'},
    # in-place learning requested: the dict handed in is the dict trained and returned
    {'learner': 'dict_ndl', 'inplace': True},
]
REWRAPS = ['f', 'transposed', 'slice', 'netcdf']


def _returns_dict(kind):
    return kind['learner'] == 'dict_ndl' and not kind.get('make_data_array')


def kind_name(pc):
    return (pc['learner'] + ('+da' if pc.get('make_data_array') else '') + ('+inplace' if pc.get('inplace') else '') +
            (':' + pc['method'] if 'method' in pc else ''))


def make_chain(r, es, cut, p, policy):
    """one chain task: a learner kind, configuration and events form per piece; from the second piece on
    possibly a re-wrapping of the DataArray handed in (drawn only where a DataArray is handed in)"""
    pieces = []
    for j, (a, b) in enumerate(cut):
        prev = pieces[-1] if pieces else None
        if prev is not None and _returns_dict(prev) and r.random() < 0.3:
            kind = dict(KINDS[4])      # in-place on the dict the previous call returned
        else:
            # (as the first call, in-place has nothing to learn in; handed a DataArray it is a rare extra)
            kind = dict(r.choice(KINDS[:4] if prev is None or r.random() < 0.6 else KINDS))
        kind.update(events=es[a:b], n_jobs=r.choice([1, 2, 3]), per_job=r.choice([1, 2, 10]),
                    per_file=r.choice([2, 10000000]))
        # the events argument in any of its documented forms (es is file-normalised, so the
        # in-memory forms denote the same events as the file)
        kind['form'] = r.choice(['path', 'path', 'pathobj', 'generator'] if kind['learner'] == 'ndl'
                                else ['path', 'path', 'list', 'generator'])
        hands_da = prev is not None and (kind['learner'] == 'ndl' or not _returns_dict(prev))
        if hands_da and r.random() < 0.3:
            kind['rewrap'] = r.choice(REWRAPS)
        pieces.append(kind)
    return dict(p, op='chain', pieces=pieces, policy=policy)


def model_req(t, es):
    return dict(op='dict_ndl', events=es, alpha=t['alpha'], beta1=t['beta1'], beta2=t['beta2'],
                **{'lambda': t['lambda']}, policy=t['policy'])


def chain_model_req(t):
    """the request for `chainRun` on the parts of this chain (driver op `chain`)"""
    pieces = []
    for pc in t['pieces']:
        q = {'learner': pc['learner'], 'events': pc['events']}
        if pc['learner'] == 'dict_ndl':
            q['make_data_array'] = bool(pc.get('make_data_array', False))
        else:
            q.update(method=pc['method'], per_job=int(pc.get('per_job', 10)), per_file=int(pc.get('per_file', 10000000)))
        pieces.append(q)
    return dict(op='chain', alpha=t['alpha'], beta1=t['beta1'], beta2=t['beta2'], **{'lambda': t['lambda']},
                policy=t['policy'], pieces=pieces)


def chain_state_problem(impl, cm):
    """the real chain's final state against `chainRun`'s: None, or what differs"""
    if 'err' in cm:
        if impl.get('err') != cm['err']:
            return 'chainRun predicts %s, implementation %s' % (cm['err'], impl.get('err', 'Returned'))
        if impl.get('failed_piece') != cm.get('failed_piece'):
            return 'chainRun: call %r of the chain raises, implementation: call %r' % (cm.get('failed_piece'), impl.get('failed_piece'))
        return None
    if 'err' in impl:
        return 'chainRun predicts a result, implementation %s in call %r (%s)' % (impl['err'], impl.get('failed_piece'), impl.get('msg', '')[:120])
    kind = 'matrix' if impl['is_data_array'] else 'dict'
    if kind != cm['kind']:
        return 'the chain ends with a %s, chainRun with a %s' % ({'matrix': 'DataArray', 'dict': 'WeightDict'}[kind], cm['kind'])
    exact = cm.get('bits', 9999) <= L.EXACT_BITS
    mc, ic = gen.cells_dict(cm['cells']), gen.cells_dict(impl['cells'])
    for k in sorted(set(mc) | set(ic)):
        mv, iv = mc.get(k, Fraction(0)), ic.get(k, Fraction(0))
        if not close(iv, mv, exact):
            return 'chainRun: weight[%r][%r] = %s, implementation %s (%s)' % (
                k[0], k[1], float(mv), float(iv), 'exact domain' if exact else 'tolerance 2^-30')
    for axis in ('outcomes', 'cues'):
        if set(impl[axis]) != set(cm[axis]):
            return '%s labels of the final %s: implementation %r, chainRun %r' % (
                axis[:-1], cm['kind'], sorted(impl[axis]), sorted(cm[axis]))
    return None


def chain_problem(t, es, impl, model, cmodel=None):
    """the property predicate on one chain: None, or what is wrong"""
    prob = L.compare(impl, model)
    if prob is None and cmodel is not None:
        prob = chain_state_problem(impl, cmodel)
    if prob is None and 'err' not in impl:
        if not all(impl['inputs_unmodified']):
            prob = 'weights argument of call %d was modified by that call' % impl['inputs_unmodified'].index(False)
        elif not all(impl['inputs_unmodified_at_end']):
            prob = 'an object handed in earlier as weights was modified by a later call (aliasing)'
        elif not all(same for _, same in impl['inplace_same_object']):
            prob = ('dict_ndl(inplace=True) call %d did not return the dict it was given (in-place learning was '
                    'requested)' % [k for k, same in impl['inplace_same_object'] if not same][0])
        elif not all(impl['rewrap_kept']):
            prob = 'HARNESS: re-wrapping %r changed the denoted weights (xarray/netCDF, not pyndl)' % impl['rewrapped']
        elif impl['rewrapped'] != [[k, pc['rewrap']] for k, pc in enumerate(t['pieces']) if pc.get('rewrap')]:
            prob = 'HARNESS: re-wrapping drawn for a piece that is not handed a DataArray: %r' % impl['rewrapped']
        elif impl['is_data_array']:
            names_o = {o for _, os_ in es for o in os_}
            names_c = {c for cs, _ in es for c in cs}
            if set(impl['outcomes']) != names_o or set(impl['cues']) != names_c:
                prob = 'labels of the chained result %r / %r differ from the names in the events' % (
                    sorted(impl['outcomes']), sorted(impl['cues']))
        lo = impl.get('leftovers')
        if prob is None and lo and (lo['systmp'] or lo['giventmp']):
            prob = 'temporary entries left behind: %r' % lo
    return prob


def shrink_chain(pool, driver, t, budget=50):
    """greedy: drop a piece (two stay), drop an event of a piece (pieces stay non-empty), take away a piece's
    extras (rewrap, form, configuration), drop a cue / an outcome, while the predicate still fails"""
    steps = 0

    def fails(c):
        nonlocal steps
        steps += 1
        es = [e for pc in c['pieces'] for e in pc['events']]
        impl = pool.map([c])[0]
        model, cmodel = driver.ask([model_req(c, es), chain_model_req(c)])
        return chain_problem(c, es, impl, model, cmodel) is not None

    cur = t
    changed = True
    while changed and steps < budget:
        changed = False
        cands = []
        for k, pc in enumerate(cur['pieces']):
            for j in range(len(pc['events'])):
                if len(pc['events']) > 1:
                    cands.append((k, dict(pc, events=pc['events'][:j] + pc['events'][j + 1:])))
            if len(cur['pieces']) > 2:
                cands.insert(0, (k, None))
            for key, v in (('rewrap', None), ('form', 'path'), ('n_jobs', 1), ('per_job', 10), ('per_file', 10000000)):
                if pc.get(key) not in (None, v):
                    cands.append((k, {kk: vv for kk, vv in dict(pc, **{key: v}).items() if vv is not None}))
        for k, pc in enumerate(cur['pieces']):
            for j, (cs, os_) in enumerate(pc['events']):
                for side, lst in ((0, cs), (1, os_)):
                    for x in range(len(lst)):
                        if len(lst) > 1:
                            ev = [list(cs), list(os_)]
                            ev[side] = lst[:x] + lst[x + 1:]
                            cands.append((k, dict(pc, events=pc['events'][:j] + [ev] + pc['events'][j + 1:])))
        for k, pc in cands:
            if steps >= budget:
                break
            pieces = cur['pieces'][:k] + ([pc] if pc is not None else []) + cur['pieces'][k + 1:]
            c = dict(cur, pieces=pieces)
            if fails(c):
                cur, changed = c, True
                break
    return cur, steps


def chain_snippet(t):
    """replay of a chain against the public API"""
    lines = ["import gzip, os, tempfile, xarray as xr, numpy as np", "from pyndl import ndl",
             "from fractions import Fraction as F", "d = tempfile.mkdtemp(); w = None",
             "def write(k, events):",
             "    p = os.path.join(d, 'events_%d.tab.gz' % k)",
             "    with gzip.open(p, 'wt', encoding='utf-8') as f:",
             "        f.write('cues\\toutcomes\\n')",
             "        for c, o in events: f.write('_'.join(c) + '\\t' + '_'.join(o) + '\\n')",
             "    return p",
             "par = (float(F(%r)), (float(F(%r)), float(F(%r))), float(F(%r)))" % (t['alpha'], t['beta1'], t['beta2'], t['lambda']),
             "rd = %r" % {'error': None, 'dedup': True, 'keep': False}[t['policy']]]
    for k, pc in enumerate(t['pieces']):
        lines.append("p = write(%d, %r)" % (k, pc['events']))
        if pc.get('rewrap'):
            lines.append("# harness/impl.py rewrap_da(w, %r): same labelled values, other memory layout" % pc['rewrap'])
            lines.append({'f': "w = xr.DataArray(np.asfortranarray(w.values), w.coords, w.dims, attrs=w.attrs)",
                          'transposed': "w = xr.DataArray(np.ascontiguousarray(w.values.T), dims=('cues', 'outcomes'), "
                                        "coords={'cues': w.cues.values, 'outcomes': w.outcomes.values}, attrs=w.attrs).T",
                          'slice': "w = w.pad(outcomes=(1, 1), cues=(2, 1), constant_values=7.25).isel("
                                   "outcomes=slice(1, -1), cues=slice(2, -1))",
                          'netcdf': "w.to_netcdf(os.path.join(d, 'w.nc')); w = xr.open_dataarray(os.path.join(d, 'w.nc')).load()"}
                         [pc['rewrap']])
        if pc['learner'] == 'dict_ndl':
            lines.append("w_in = w; w = ndl.dict_ndl(p, *par, weights=w, remove_duplicates=rd, make_data_array=%r, inplace=%r)"
                         "   # events form in the run: %s" % (bool(pc.get('make_data_array')), bool(pc.get('inplace')), pc.get('form')))
            if pc.get('inplace'):
                lines.append("print('same object:', w is w_in)")
        else:
            lines.append("if w is not None and not isinstance(w, xr.DataArray): w = ndl.data_array(w)")
            lines.append("w = ndl.ndl(p, *par, weights=w, method=%r, n_jobs=%d, n_outcomes_per_job=%d, "
                         "events_per_temporary_file=%d, remove_duplicates=rd)" % (
                             pc['method'], pc.get('n_jobs', 2), pc.get('per_job', 10), pc.get('per_file', 10000000)))
    lines.append("print(w)")
    return '\n'.join(lines)


def run(rep, pool, driver, tier):
    import bridge
    bridge.check_bridges(rep)       # driver copies = the definitions of the theorems; TR.v commutes
    r = rng('C03')
    quick = tier == 'quick'
    tasks, metas = [], []
    for i in range(10 if quick else 80):
        n = r.randint(3, 7)
        # repeated cues / outcomes inside an event: every learner applies the duplicate policy on its own
        # path (set() in dict_ndl, set() on ids in write_events), and the chain must apply it like one pass
        es = gen.file_norm(gen.events(r, n, dup=r.choice([0.0, 0.4]), late=(i % 2 == 0)))
        p = gen.params(r)
        for k in (2, 3, 4):
            if k > n:
                continue
            sp = list(splits(n, k))
            for cut in (r.sample(sp, min(len(sp), 3)) if quick else sp):
                if gen.has_dup(es):
                    # 'error': the model predicts ValueError for the whole chain (kept rare)
                    policy = r.choice(['dedup', 'keep']) if r.random() < 0.8 else 'error'
                else:
                    policy = r.choice(['error', 'error', 'dedup', 'keep'])
                tasks.append(make_chain(r, es, cut, p, policy))
                metas.append((es, cut))
    impls = pool.map(tasks)
    models = driver.ask([model_req(t, es) for t, (es, _) in zip(tasks, metas)])
    cmodels = driver.ask([chain_model_req(t) for t in tasks])
    failures = []
    for t, (es, cut), impl, model, cmodel in zip(tasks, metas, impls, models, cmodels):
        kinds = [kind_name(pc) for pc in t['pieces']]
        for pc in t['pieces']:
            rep.count('form:%s/%s' % (pc['learner'], pc.get('form', 'path')))
        first_names = {x for c, o in es[:cut[0][1]] for x in c + o}
        later_new = any(x not in first_names for c, o in es[cut[0][1]:] for x in c + o)
        rep.case({'events': es, 'cut': cut, 'kinds': kinds, 'policy': t['policy'],
                  'rewrap': [pc.get('rewrap') for pc in t['pieces']]}, nontrivial=True, stream='chain_k%d' % len(cut))
        rep.count('chain_len:%d' % len(cut))
        rep.count('later_piece_has_new_labels' if later_new else 'no_new_labels')
        rep.count('events_with_repeats:%s' % ('yes' if gen.has_dup(es) else 'no'))
        rep.count('policy:%s%s' % (t['policy'], '/repeats' if gen.has_dup(es) else ''))
        rep.count('outcome:' + (model.get('err') or 'Returned'))
        rep.count('chainRun_state:' + (cmodel.get('err') or cmodel['kind']))
        if 'err' in cmodel:
            rep.count('chainRun_failed_piece:%d' % cmodel['failed_piece'])
        for k in kinds:
            rep.count('piece:' + k)
        for j, pc in enumerate(t['pieces']):
            if pc.get('inplace'):
                prev = t['pieces'][j - 1] if j else None
                rep.count('inplace_input:%s' % ('none' if prev is None else 'dict' if _returns_dict(prev) else 'data_array'))
                if j + 1 < len(t['pieces']):
                    rep.count('inplace_followed_by:' + kind_name(t['pieces'][j + 1]))
            rep.count('rewrap:%s' % pc.get('rewrap', 'none' if j else 'first_piece'))
            if pc.get('rewrap'):
                rep.count('rewrap_into:' + kind_name(pc))
        if 'err' not in impl:
            rep.count('inplace_same_object_observed', len(impl['inplace_same_object']))
        prob = chain_problem(t, es, impl, model, cmodel)
        if prob:
            failures.append((t, es, cut, prob, impl, model, cmodel))
        elif 'err' not in impl:
            rep.sample({'kinds': kinds, 'cut': cut, 'events': es, 'policy': t['policy'], 'final_cells': impl['cells'][:4]})
    def which(prob):
        return ('C03 chain_any_length: chain %s vs chainRun on the same parts (driver op chain)' if 'chainRun' in prob
                else 'C03 chain_eq_single: chain %s vs single pass of the Lean model')

    def state(x):
        return {k: x.get(k) for k in ('err', 'failed_piece', 'kind', 'is_data_array', 'outcomes', 'cues', 'cells') if k in x}

    for t, es, cut, prob, impl, model, cmodel in failures[:2]:
        small, steps = shrink_chain(pool, driver, t)
        es2 = [e for pc in small['pieces'] for e in pc['events']]
        impl2 = pool.map([small])[0]
        model2, cmodel2 = driver.ask([model_req(small, es2), chain_model_req(small)])
        prob2 = chain_problem(small, es2, impl2, model2, cmodel2)
        if prob2 is None:
            small, es2, impl2, model2, cmodel2, prob2 = t, es, impl, model, cmodel, prob
        kinds = [kind_name(pc) for pc in small['pieces']]
        rep.violation({'what': prob2, 'input': small, 'observed': state(impl2),
                       'expected': {'single_pass': model2.get('cells', model2.get('err')), 'chainRun': state(cmodel2)}, 'cut': cut,
                       'python': chain_snippet(small), 'shrunk_from_events': len(es), 'shrink_steps': steps,
                       'theorem_or_stream': which(prob2) % ' -> '.join(kinds)})
    for t, es, cut, prob, impl, model, cmodel in failures[2:]:
        kinds = [kind_name(pc) for pc in t['pieces']]
        rep.violation({'what': prob, 'input': t, 'observed': state(impl),
                       'expected': {'single_pass': model.get('cells', model.get('err')), 'chainRun': state(cmodel)}, 'cut': cut,
                       'theorem_or_stream': which(prob) % ' -> '.join(kinds)})
    rep.extra['failures_total'] = len(failures)

    _wh_chains(rep, pool, driver, r, quick)


WH_CUES = ['a', 'b', 'c', 'd', 'ä', 'e', 'f', 'g', 'h']
WH_OUTS = ['x', 'y', 'z', 'ö', 'u', 'v', 'w']
# medium-size label sets: more than 8 labels per side, so that label order, set order and order of
# first occurrence stop coinciding, and a later piece can bring in a dozen new labels at once
WH_CUES_M = WH_CUES + ['c%d' % i for i in range(11)]
WH_OUTS_M = WH_OUTS + ['o%d' % i for i in range(12)]


def wh_chain_req(t):
    """the request for `whChainRun` on the pieces of this chain (driver op `wh_chain`): the request of the
    single pass, with the pieces (as the event files read back) instead of their concatenation"""
    q = whgen.model_request(t)
    q['op'] = 'wh_chain'
    del q['events']
    q['pieces'] = [[[list(c), list(o) if o else ['']] for c, o in p] for p in t['pieces']]
    return q


def wh_problem(impl, model, cmodel):
    """chain vs single pass of whModel, then chain vs whChainRun (which also says WHICH call fails)"""
    d = whgen.compare(impl, model)
    if d is None:
        d = whgen.compare(impl, cmodel)
        if d is None and 'err' in cmodel and impl.get('failed_piece') != cmodel.get('failed_piece'):
            d = 'call %r of the chain raises, implementation: call %r' % (cmodel.get('failed_piece'), impl.get('failed_piece'))
        if d is not None:
            d = 'whChainRun: ' + d
    return d


def _shrink_wh(pool, driver, t, budget=40):
    """greedy: drop a piece (two stay), an event of a piece (pieces stay non-empty), a cue / an outcome
    (one of each stays), while chain and single pass of the model still disagree"""
    steps = 0

    def with_pieces(pieces):
        return dict(t, pieces=pieces, events=[e for p in pieces for e in p])

    def fails(c):
        nonlocal steps
        steps += 1
        return wh_problem(pool.map([c])[0], *driver.ask([whgen.model_request(c), wh_chain_req(c)])) is not None

    cur = [[[list(c), list(o)] for c, o in p] for p in t['pieces']]
    changed = True
    while changed and steps < budget:
        changed = False
        cands = []
        if len(cur) > 2:
            cands += [cur[:k] + cur[k + 1:] for k in range(len(cur))]
        for k, p in enumerate(cur):
            if len(p) > 1:
                cands += [cur[:k] + [p[:j] + p[j + 1:]] + cur[k + 1:] for j in range(len(p))]
        for k, p in enumerate(cur):
            for j, ev in enumerate(p):
                for side in (0, 1):
                    for x in range(len(ev[side]) if len(ev[side]) > 1 else 0):
                        ne = [list(ev[0]), list(ev[1])]
                        ne[side] = ev[side][:x] + ev[side][x + 1:]
                        cands.append(cur[:k] + [p[:j] + [ne] + p[j + 1:]] + cur[k + 1:])
        for c in cands:
            if steps >= budget:
                break
            if fails(with_pieces(c)):
                cur, changed = c, True
                break
    return with_pieces(cur), steps


def _wh_chains(rep, pool, driver, r, quick):
    """chains of wh.wh calls (weights= handed on) for the three vector flavours; the first piece uses
    few names, later pieces bring in several new cues AND outcomes at once (their hash order and their
    order of first occurrence differ); every split position; 2..4 pieces; small and medium label sets;
    events with repeated cues/outcomes under the policies that accept them"""
    tasks = []
    for i in range(6 if quick else 60):
        for flavour in ('r2r', 'b2r', 'r2b'):
            medium = r.random() < 0.35
            all_cues, all_outs = (WH_CUES_M, WH_OUTS_M) if medium else (WH_CUES, WH_OUTS)
            n = r.randint(3, 6)
            es = []
            for j in range(n):
                cues = all_cues[:2] if j == 0 else all_cues
                outs = all_outs[:2] if j == 0 else all_outs
                cs = r.sample(cues, r.randint(1, min(8 if medium else 4, len(cues))))
                os_ = r.sample(outs, r.randint(1, min(6 if medium else 3, len(outs))))
                if j == 1:
                    # the second event alone introduces >= 3 new names on each side, in shuffled order
                    cs = r.sample(all_cues[2:], r.randint(7, 12) if medium else r.randint(3, 5)) + r.sample(all_cues[:2], r.randint(0, 1))
                    os_ = r.sample(all_outs[2:], r.randint(6, 11) if medium else 3) + r.sample(all_outs[:2], r.randint(0, 1))
                elif j >= 1 and r.random() < 0.2:
                    # a repeated cue and/or outcome inside the event
                    if r.random() < 0.7:
                        cs = cs + [r.choice(cs)]
                    else:
                        os_ = os_ + [r.choice(os_)]
                    r.shuffle(cs)
                es.append([cs, os_])
            base = {'op': 'wh', 'flavour': flavour, 'events': es, 'eta': r.choice(whgen.ETAS),
                    'policy': r.choice(['dedup', 'keep'] if gen.has_dup(es) else ['error', 'dedup', 'keep']),
                    'n_jobs': r.choice([1, 2, 3]),
                    'per_job': r.choice([1, 2, 3, 10]), 'per_file': r.choice([2, 10000000])}
            if flavour in ('r2r', 'r2b'):
                base['cue_vectors'] = whgen.table(r, all_cues, r.choice([2, 3, 5, 9]), prefix='cd')
            if flavour in ('r2r', 'b2r'):
                base['outcome_vectors'] = whgen.table(r, all_outs, r.choice([2, 3, 4, 7]), prefix='od')
            for k in (2, 3, 4):
                if k > n:
                    continue
                sp = list(splits(n, k))
                for cut in (r.sample(sp, min(len(sp), 2 if k < 4 else 1)) if quick else sp):
                    tasks.append((dict(base, pieces=[es[a:b] for a, b in cut]), cut, medium))
    impls = pool.map([t for t, _, _ in tasks])
    models = driver.ask([whgen.model_request(t) for t, _, _ in tasks])
    cmodels = driver.ask([wh_chain_req(t) for t, _, _ in tasks])
    n_shrunk = 0
    for (t, cut, medium), impl, model, cmodel in zip(tasks, impls, models, cmodels):
        rep.case({k: v for k, v in t.items() if k != 'op'}, nontrivial=True, stream='wh_chain')
        rep.count('wh_chain:' + t['flavour'])
        rep.count('chain_len:%d' % len(cut))
        rep.count('wh_chain_len:%d' % len(cut))
        rep.count('wh_labels:%s' % ('medium' if medium else 'small'))
        rep.count('wh_policy:%s%s' % (t['policy'], '/repeats' if gen.has_dup(t['events']) else ''))
        seen = {x for c, o in t['pieces'][0] for x in c + o}
        rep.count('wh_new_labels_in_later_pieces:%s' % (
            lambda m: '0' if m == 0 else '1-4' if m <= 4 else '5-10' if m <= 10 else '11+')(
                len({x for pc in t['pieces'][1:] for c, o in pc for x in c + o} - seen)))
        if 'err' not in model:
            rep.count('wh_exact_domain' if model.get('bits', 9999) <= 49 else 'wh_tolerance_domain')
        rep.count('whChainRun_outcome:' + (cmodel.get('err') or 'Returned'))
        d = wh_problem(impl, model, cmodel)
        if d is not None and n_shrunk < 2:
            n_shrunk += 1
            small, steps = _shrink_wh(pool, driver, t)
            impl2 = pool.map([small])[0]
            model2, cmodel2 = driver.ask([whgen.model_request(small), wh_chain_req(small)])
            d2 = wh_problem(impl2, model2, cmodel2)
            if d2 is not None:
                t, impl, model, cmodel, d = dict(small, shrink_steps=steps), impl2, model2, cmodel2, d2
        if d is not None:
            rep.violation({'what': d, 'input': t, 'cut': cut, 'observed': impl.get('cells', impl.get('err')),
                           'expected': {'single_pass': model.get('cells', model.get('err')),
                                        'whChainRun': cmodel.get('cells', cmodel.get('err'))},
                           'theorem_or_stream': ('C03 wh chain %s: chain of %d calls vs whChainRun on the same pieces (driver op wh_chain)'
                                                 if d.startswith('whChainRun') else
                                                 'C03 chain_eq_single for wh.wh %s: chain of %d calls vs single pass of whModel')
                                                % (t['flavour'], len(cut))})
