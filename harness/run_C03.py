"""
C03 — continuing from earlier weights equals learning everything in one pass;
inputs are not modified.
Lean (PyndlProps/C03.lean): learn_append, chain_eq_single (any k-way split),
dict_continue, dict_chain_two, dict_from_data_array, abs_extend (new labels in
later parts, any order), input_preserved_partial.
Correspondence: chains of 2..4 real learner calls inside one process over every
split position, learners drawn per piece from {dict_ndl (dict hand-over),
dict_ndl (DataArray in / DataArray out), ndl threading, ndl openmp}, and chains
of wh.wh calls in each of its three vector flavours (stream wh_chain; model:
whModel's single pass), later pieces with and without new cues/outcomes; the final
weights are compared exactly with the Lean model's SINGLE pass over the
concatenation. Every object handed in as `weights` is snapshotted (values,
coords, attrs) before the call and compared after it and again at the end of
the chain — the only evidence for the non-mutation clause (partial: aliasing
inside numpy/xarray/deepcopy is not modelled).
"""
import itertools

import gen
import learners as L
import whgen
from common import rng

TIMEOUT = 120


def splits(n, k):
    """all ways to cut range(n) into k non-empty consecutive pieces"""
    for cuts in itertools.combinations(range(1, n), k - 1):
        b = (0,) + cuts + (n,)
        yield [(b[i], b[i + 1]) for i in range(k)]


KINDS = [
    {'learner': 'dict_ndl'},
    {'learner': 'dict_ndl', 'make_data_array': True},
    {'learner': 'ndl', 'method': 'threading'},
    {'learner': 'ndl', 'method': 'openmp'},
]


def run(rep, pool, driver, tier):
    r = rng('C03')
    quick = tier == 'quick'
    tasks, metas = [], []
    for i in range(10 if quick else 80):
        n = r.randint(3, 7)
        es = gen.file_norm(gen.events(r, n, dup=0.0, late=(i % 2 == 0)))
        p = gen.params(r)
        for k in (2, 3, 4):
            if k > n:
                continue
            sp = list(splits(n, k))
            for cut in (r.sample(sp, min(len(sp), 3)) if quick else sp):
                pieces = []
                for (a, b) in cut:
                    kind = dict(r.choice(KINDS))
                    kind.update(events=es[a:b], n_jobs=r.choice([1, 2, 3]), per_job=r.choice([1, 2, 10]),
                                per_file=r.choice([2, 10000000]))
                    # the events argument in any of its documented forms (es is file-normalised, so the
                    # in-memory forms denote the same events as the file)
                    kind['form'] = r.choice(['path', 'path', 'pathobj', 'generator'] if kind['learner'] == 'ndl'
                                            else ['path', 'path', 'list', 'generator'])
                    pieces.append(kind)
                tasks.append(dict(p, op='chain', pieces=pieces, policy='error'))
                metas.append((es, cut))
    impls = pool.map(tasks)
    models = driver.ask([dict(op='dict_ndl', events=es, alpha=t['alpha'], beta1=t['beta1'], beta2=t['beta2'],
                              **{'lambda': t['lambda']}, policy='error') for t, (es, _) in zip(tasks, metas)])
    for t, (es, cut), impl, model in zip(tasks, metas, impls, models):
        kinds = [pc['learner'] + ('+da' if pc.get('make_data_array') else '') + (':' + pc['method'] if 'method' in pc else '')
                 for pc in t['pieces']]
        for pc in t['pieces']:
            rep.count('form:%s/%s' % (pc['learner'], pc.get('form', 'path')))
        first_names = {x for c, o in es[:cut[0][1]] for x in c + o}
        later_new = any(x not in first_names for c, o in es[cut[0][1]:] for x in c + o)
        rep.case({'events': es, 'cut': cut, 'kinds': kinds}, nontrivial=True, stream='chain_k%d' % len(cut))
        rep.count('chain_len:%d' % len(cut))
        rep.count('later_piece_has_new_labels' if later_new else 'no_new_labels')
        for k in kinds:
            rep.count('piece:' + k)
        prob = L.compare(impl, model)
        if prob is None and 'err' not in impl:
            if not all(impl['inputs_unmodified']):
                prob = 'weights argument of call %d was modified by that call' % impl['inputs_unmodified'].index(False)
            elif not all(impl['inputs_unmodified_at_end']):
                prob = 'an object handed in earlier as weights was modified by a later call (aliasing)'
            elif impl['is_data_array']:
                names_o = {o for _, os_ in es for o in os_}
                names_c = {c for cs, _ in es for c in cs}
                if set(impl['outcomes']) != names_o or set(impl['cues']) != names_c:
                    prob = 'labels of the chained result %r / %r differ from the names in the events' % (
                        sorted(impl['outcomes']), sorted(impl['cues']))
            lo = impl.get('leftovers')
            if prob is None and lo and (lo['systmp'] or lo['giventmp']):
                prob = 'temporary entries left behind: %r' % lo
        if prob:
            rep.violation({'what': prob, 'input': t, 'observed': impl.get('cells', impl.get('err')),
                           'expected': model.get('cells'), 'cut': cut,
                           'theorem_or_stream': 'C03 chain_eq_single: chain %s vs single pass of the Lean model' % ' -> '.join(kinds)})
        else:
            rep.sample({'kinds': kinds, 'cut': cut, 'events': es, 'final_cells': impl['cells'][:4]})

    _wh_chains(rep, pool, driver, r, quick)


WH_CUES = ['a', 'b', 'c', 'd', 'ä', 'e', 'f', 'g', 'h']
WH_OUTS = ['x', 'y', 'z', 'ö', 'u', 'v', 'w']


def _wh_chains(rep, pool, driver, r, quick):
    """chains of wh.wh calls (weights= handed on) for the three vector flavours; the first piece uses
    few names, later pieces bring in several new cues AND outcomes at once (their hash order and their
    order of first occurrence differ); every split position"""
    tasks = []
    for i in range(6 if quick else 60):
        for flavour in ('r2r', 'b2r', 'r2b'):
            n = r.randint(3, 6)
            es = []
            for j in range(n):
                cues = WH_CUES[:2] if j == 0 else WH_CUES
                outs = WH_OUTS[:2] if j == 0 else WH_OUTS
                cs = r.sample(cues, r.randint(1, min(4, len(cues))))
                os_ = r.sample(outs, r.randint(1, min(3, len(outs))))
                if j == 1:
                    # the second event alone introduces >= 3 new names on each side, in shuffled order
                    cs = r.sample(WH_CUES[2:], r.randint(3, 5)) + r.sample(WH_CUES[:2], r.randint(0, 1))
                    os_ = r.sample(WH_OUTS[2:], 3) + r.sample(WH_OUTS[:2], r.randint(0, 1))
                es.append([cs, os_])
            base = {'op': 'wh', 'flavour': flavour, 'events': es, 'eta': r.choice(whgen.ETAS),
                    'policy': r.choice(['error', 'dedup', 'keep']), 'n_jobs': r.choice([1, 2, 3]),
                    'per_job': r.choice([1, 2, 3, 10]), 'per_file': r.choice([2, 10000000])}
            if flavour in ('r2r', 'r2b'):
                base['cue_vectors'] = whgen.table(r, WH_CUES, r.choice([2, 3, 5, 9]), prefix='cd')
            if flavour in ('r2r', 'b2r'):
                base['outcome_vectors'] = whgen.table(r, WH_OUTS, r.choice([2, 3, 4, 7]), prefix='od')
            for k in (2, 3):
                sp = list(splits(n, k))
                for cut in (r.sample(sp, min(len(sp), 2)) if quick else sp):
                    tasks.append((dict(base, pieces=[es[a:b] for a, b in cut]), cut))
    impls = pool.map([t for t, _ in tasks])
    models = driver.ask([whgen.model_request(t) for t, _ in tasks])
    for (t, cut), impl, model in zip(tasks, impls, models):
        rep.case({k: v for k, v in t.items() if k != 'op'}, nontrivial=True, stream='wh_chain')
        rep.count('wh_chain:' + t['flavour'])
        rep.count('chain_len:%d' % len(cut))
        d = whgen.compare(impl, model)
        if d is not None:
            rep.violation({'what': d, 'input': t, 'cut': cut, 'observed': impl.get('cells', impl.get('err')),
                           'expected': model.get('cells', model.get('err')),
                           'theorem_or_stream': 'C03 chain_eq_single for wh.wh %s: chain of %d calls vs single pass of whModel'
                                                % (t['flavour'], len(cut))})
