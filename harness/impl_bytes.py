"""C06 implementation ops: the binary event format writer/readers and the five compiled entry points."""
import os
import shutil
import tempfile

import numpy as np

import impl
from impl import fl, rat, POLICY
from pyndl import preprocess, ndl_parallel, ndl_openmp


def _tmpdir():
    return tempfile.mkdtemp(prefix='bytes-', dir=os.getcwd())


def op_write_events(t):
    d = _tmpdir()
    try:
        p = os.path.join(d, 'events_0_0.dat')
        evs = [(list(c), list(o)) for c, o in t['events']]
        res = {}
        try:
            n = preprocess.write_events(iter(evs), p, start=t['start'], stop=t['stop'],
                                        remove_duplicates=POLICY[t['policy']])
            res = {'kind': 'ok' if n > 0 else 'empty', 'n': n}
        except StopIteration as e:
            res = {'kind': 'stopped', 'n': e.value[1]}
        except ValueError as e:
            res = {'kind': 'dup_error', 'msg': str(e)[:80]}
        except Exception as e:  # noqa
            res = impl.err(e)
            res['kind'] = 'other_error'
        if os.path.exists(p) and res['kind'] in ('ok', 'stopped'):
            res['bytes'] = open(p, 'rb').read().hex()
            try:
                res['read_back'] = [[c, o] for c, o in preprocess.read_binary_file(p)]
            except Exception as e:  # noqa
                res['read_back'] = impl.err(e)
        else:
            res['bytes'] = None
            res['file_exists'] = os.path.exists(p)
        return res
    finally:
        shutil.rmtree(d, ignore_errors=True)


def op_read_binary(t):
    d = _tmpdir()
    try:
        p = os.path.join(d, 'x.dat')
        open(p, 'wb').write(bytes.fromhex(t['bytes']))
        try:
            got = []
            gen = preprocess.read_binary_file(p)
            for c, o in gen:
                got.append([c, o])
            return {'events': got}
        except Exception as e:  # noqa
            r = impl.err(e)
            r['yielded_before_error'] = len(got)
            return r
    finally:
        shutil.rmtree(d, ignore_errors=True)


def op_kernel(t):
    """direct call of one compiled entry point on self-written chunk files"""
    d = _tmpdir()
    try:
        files = []
        for i, hx in enumerate(t['chunks']):
            p = os.path.join(d, 'events_0_%d.dat' % i)
            open(p, 'wb').write(bytes.fromhex(hx))
            files.append(p)
        entry = t['entry']
        shape = tuple(t['shape'])
        if t.get('init') is not None:
            W = np.array([fl(v) for v in t['init']], dtype=np.float64).reshape(shape)
        else:
            W = np.zeros(shape, dtype=np.float64)
        W = np.ascontiguousarray(W)
        rows = np.array(t.get('rows', list(range(shape[0]))), dtype=np.uint32)
        chunk, n_jobs = int(t.get('chunk', 10)), int(t.get('n_jobs', 2))
        tab = lambda key: np.ascontiguousarray(np.array([[fl(v) for v in row] for row in t[key]], dtype=np.float64))  # noqa
        res = {}
        try:
            if entry == 'par_b2b':
                ndl_parallel.learn_inplace_binary_to_binary(files, fl(t['alpha']), fl(t['beta1']), fl(t['beta2']),
                                                            fl(t['lambda']), W, rows)
            elif entry == 'omp_b2b':
                ndl_openmp.learn_inplace_binary_to_binary(files, fl(t['alpha']), fl(t['beta1']), fl(t['beta2']),
                                                          fl(t['lambda']), W, rows, chunk, n_jobs)
            elif entry == 'omp_b2r':
                ndl_openmp.learn_inplace_binary_to_real(files, fl(t['eta']), tab('outcome_vectors'), W, chunk, n_jobs)
            elif entry == 'omp_r2b':
                ndl_openmp.learn_inplace_real_to_binary(files, fl(t['beta1']), fl(t['beta2']), fl(t['lambda']),
                                                        tab('cue_vectors'), W, chunk, n_jobs)
            elif entry == 'omp_r2r':
                ndl_openmp.learn_inplace_real_to_real(files, fl(t['eta']), tab('cue_vectors'), tab('outcome_vectors'),
                                                      W, chunk, n_jobs)
            else:
                raise RuntimeError('bad entry')
        except Exception as e:  # noqa
            res = impl.err(e)
        flat = W.reshape(-1)
        nz = np.nonzero(flat)[0]
        res['cells'] = [[int(k), rat(flat[k])] for k in nz.tolist()]
        return res
    finally:
        shutil.rmtree(d, ignore_errors=True)


def op_sparse_big(t):
    """a 70000 x 70000 float64 matrix on a sparse file; events touch the last rows/columns (flat index > 2^32)"""
    d = _tmpdir()
    try:
        n = int(t['n'])
        wpath = os.path.join(d, 'weights.mm')
        W = np.memmap(wpath, dtype=np.float64, mode='w+', shape=(n, n))
        files = []
        for i, hx in enumerate(t['chunks']):
            p = os.path.join(d, 'events_0_%d.dat' % i)
            open(p, 'wb').write(bytes.fromhex(hx))
            files.append(p)
        rows = np.array(t['rows'], dtype=np.uint32)
        res = {}
        try:
            if t['entry'] == 'par_b2b':
                ndl_parallel.learn_inplace_binary_to_binary(files, fl(t['alpha']), fl(t['beta1']), fl(t['beta2']),
                                                            fl(t['lambda']), W, rows)
            else:
                ndl_openmp.learn_inplace_binary_to_binary(files, fl(t['alpha']), fl(t['beta1']), fl(t['beta2']),
                                                          fl(t['lambda']), W, rows, int(t.get('chunk', 2)), int(t.get('n_jobs', 2)))
        except Exception as e:  # noqa
            res = impl.err(e)
        cells = []
        for o in t['rows']:
            for c in t['probe_cols']:
                v = float(W[o, c])
                if v != 0:
                    cells.append([o * n + c, rat(v)])
        # a wrapped index would have landed in the low part of the matrix
        low = np.asarray(W[:4, :]).any() if 0 not in t['rows'] else False
        res['cells'] = cells
        res['low_rows_touched'] = bool(low)
        del W
        return res
    finally:
        shutil.rmtree(d, ignore_errors=True)


OPS = {'write_events': op_write_events, 'read_binary': op_read_binary, 'kernel': op_kernel,
       'sparse_big': op_sparse_big}
