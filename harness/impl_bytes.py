"""C06 implementation ops: the binary event format writer/readers and the five compiled entry points."""
import os
import shutil
import tempfile

import numpy as np

import impl
from impl import fl, rat, POLICY
from pyndl import preprocess, ndl_parallel, ndl_openmp


def _tmpdir():
    return tempfile.mkdtemp(prefix='bytes-', dir=os.getcwd())


def op_write_events(t):
    d = _tmpdir()
    try:
        p = os.path.join(d, 'events_0_0.dat')
        evs = [(list(c), list(o)) for c, o in t['events']]
        res = {}
        try:
            n = preprocess.write_events(iter(evs), p, start=t['start'], stop=t['stop'],
                                        remove_duplicates=POLICY[t['policy']])
            res = {'kind': 'ok' if n > 0 else 'empty', 'n': n}
        except StopIteration as e:
            res = {'kind': 'stopped', 'n': e.value[1]}
        except ValueError as e:
            res = {'kind': 'dup_error', 'msg': str(e)[:80]}
        except Exception as e:  # noqa
            res = impl.err(e)
            res['kind'] = 'other_error'
        if os.path.exists(p) and res['kind'] in ('ok', 'stopped'):
            res['bytes'] = open(p, 'rb').read().hex()
            try:
                res['read_back'] = [[c, o] for c, o in preprocess.read_binary_file(p)]
            except Exception as e:  # noqa
                res['read_back'] = impl.err(e)
        else:
            res['bytes'] = None
            res['file_exists'] = os.path.exists(p)
        return res
    finally:
        shutil.rmtree(d, ignore_errors=True)


def op_read_binary(t):
    d = _tmpdir()
    try:
        p = os.path.join(d, 'x.dat')
        open(p, 'wb').write(bytes.fromhex(t['bytes']))
        try:
            got = []
            gen = preprocess.read_binary_file(p)
            for c, o in gen:
                got.append([c, o])
            return {'events': got}
        except Exception as e:  # noqa
            r = impl.err(e)
            r['yielded_before_error'] = len(got)
            return r
    finally:
        shutil.rmtree(d, ignore_errors=True)


def op_kernel(t):
    """direct call of one compiled entry point on self-written chunk files"""
    d = _tmpdir()
    try:
        files = []
        for i, hx in enumerate(t['chunks']):
            p = os.path.join(d, 'events_0_%d.dat' % i)
            open(p, 'wb').write(bytes.fromhex(hx))
            files.append(p)
        entry = t['entry']
        shape = tuple(t['shape'])
        if t.get('init') is not None:
            W = np.array([fl(v) for v in t['init']], dtype=np.float64).reshape(shape)
        else:
            W = np.zeros(shape, dtype=np.float64)
        W = np.ascontiguousarray(W)
        rows = np.array(t.get('rows', list(range(shape[0]))), dtype=np.uint32)
        chunk, n_jobs = int(t.get('chunk', 10)), int(t.get('n_jobs', 2))
        tab = lambda key: np.ascontiguousarray(np.array([[fl(v) for v in row] for row in t[key]], dtype=np.float64))  # noqa
        res = {}
        try:
            if entry == 'par_b2b':
                ndl_parallel.learn_inplace_binary_to_binary(files, fl(t['alpha']), fl(t['beta1']), fl(t['beta2']),
                                                            fl(t['lambda']), W, rows)
            elif entry == 'omp_b2b':
                ndl_openmp.learn_inplace_binary_to_binary(files, fl(t['alpha']), fl(t['beta1']), fl(t['beta2']),
                                                          fl(t['lambda']), W, rows, chunk, n_jobs)
            elif entry == 'omp_b2r':
                ndl_openmp.learn_inplace_binary_to_real(files, fl(t['eta']), tab('outcome_vectors'), W, chunk, n_jobs)
            elif entry == 'omp_r2b':
                ndl_openmp.learn_inplace_real_to_binary(files, fl(t['beta1']), fl(t['beta2']), fl(t['lambda']),
                                                        tab('cue_vectors'), W, chunk, n_jobs)
            elif entry == 'omp_r2r':
                ndl_openmp.learn_inplace_real_to_real(files, fl(t['eta']), tab('cue_vectors'), tab('outcome_vectors'),
                                                      W, chunk, n_jobs)
            else:
                raise RuntimeError('bad entry')
        except Exception as e:  # noqa
            res = impl.err(e)
        flat = W.reshape(-1)
        nz = np.nonzero(flat)[0]
        res['cells'] = [[int(k), rat(flat[k])] for k in nz.tolist()]
        return res
    finally:
        shutil.rmtree(d, ignore_errors=True)


def op_sparse_big(t):
    """a 70000 x 70000 float64 matrix on a sparse file; events touch the last rows/columns (flat index > 2^32)"""
    d = _tmpdir()
    try:
        n = int(t['n'])
        wpath = os.path.join(d, 'weights.mm')
        W = np.memmap(wpath, dtype=np.float64, mode='w+', shape=(n, n))
        files = []
        for i, hx in enumerate(t['chunks']):
            p = os.path.join(d, 'events_0_%d.dat' % i)
            open(p, 'wb').write(bytes.fromhex(hx))
            files.append(p)
        rows = np.array(t['rows'], dtype=np.uint32)
        res = {}
        try:
            if t['entry'] == 'par_b2b':
                ndl_parallel.learn_inplace_binary_to_binary(files, fl(t['alpha']), fl(t['beta1']), fl(t['beta2']),
                                                            fl(t['lambda']), W, rows)
            else:
                ndl_openmp.learn_inplace_binary_to_binary(files, fl(t['alpha']), fl(t['beta1']), fl(t['beta2']),
                                                          fl(t['lambda']), W, rows, int(t.get('chunk', 2)), int(t.get('n_jobs', 2)))
        except Exception as e:  # noqa
            res = impl.err(e)
        cells = []
        for o in t['rows']:
            for c in t['probe_cols']:
                v = float(W[o, c])
                if v != 0:
                    cells.append([o * n + c, rat(v)])
        # a wrapped index would have landed in the low part of the matrix
        low = np.asarray(W[:4, :]).any() if 0 not in t['rows'] else False
        res['cells'] = cells
        res['low_rows_touched'] = bool(low)
        del W
        return res
    finally:
        shutil.rmtree(d, ignore_errors=True)


def op_sparse_big_wh(t):
    """the three Widrow-Hoff entry points with a matrix of more than 2^32 cells on a sparse file.
    omp_b2r: the WEIGHT matrix (n_od x n_cols) and the outcome-vector table (n_out_rows x n_od);
    omp_r2b / omp_r2r: the cue-vector table (n_cue_rows x n_cd) (and, r2r, the outcome-vector table) -- their
    weight matrix is updated densely by every event, so it stays small.  Only the listed rows are non-zero."""
    d = _tmpdir()
    try:
        entry = t['entry']
        n_cd, n_od = int(t.get('n_cd', 0)), int(t.get('n_od', 0))
        files = []
        for i, hx in enumerate(t['chunks']):
            p = os.path.join(d, 'events_0_%d.dat' % i)
            open(p, 'wb').write(bytes.fromhex(hx))
            files.append(p)

        def big_table(name, n_rows, n_dims, rows):
            m = np.memmap(os.path.join(d, name), dtype=np.float64, mode='w+', shape=(int(n_rows), n_dims))
            for k, vals in rows:
                m[int(k), :] = [fl(v) for v in vals]
            return m
        cv = ov = None
        if entry in ('omp_r2b', 'omp_r2r'):
            cv = big_table('cue_vectors.mm', t['n_cue_rows'], n_cd, t['cue_rows'])
        if entry in ('omp_b2r', 'omp_r2r'):
            ov = big_table('outcome_vectors.mm', t['n_out_rows'], n_od, t['out_rows'])
        if entry == 'omp_b2r':
            W = np.memmap(os.path.join(d, 'weights.mm'), dtype=np.float64, mode='w+', shape=(n_od, int(t['n_cols'])))
        else:
            W = np.zeros((int(t['n_rows']), n_cd), dtype=np.float64)
        chunk, n_jobs = int(t.get('chunk', 2)), int(t.get('n_jobs', 2))
        res = {}
        try:
            if entry == 'omp_b2r':
                ndl_openmp.learn_inplace_binary_to_real(files, fl(t['eta']), ov, W, chunk, n_jobs)
            elif entry == 'omp_r2b':
                ndl_openmp.learn_inplace_real_to_binary(files, fl(t['beta1']), fl(t['beta2']), fl(t['lambda']), cv, W, chunk, n_jobs)
            elif entry == 'omp_r2r':
                ndl_openmp.learn_inplace_real_to_real(files, fl(t['eta']), cv, ov, W, chunk, n_jobs)
            else:
                raise RuntimeError('bad entry')
        except Exception as e:  # noqa
            res = impl.err(e)
        cells = []
        if entry == 'omp_b2r':
            for o in range(n_od):
                for c in t['probe_cols']:
                    v = float(W[o, c])
                    if v != 0:
                        cells.append([[o, c], rat(v)])
            res['low_touched'] = bool(np.asarray(W[0, :4096]).any()) if min(t['probe_cols']) >= 4096 else False
        else:
            for o in range(W.shape[0]):
                for c in range(W.shape[1]):
                    if W[o, c] != 0:
                        cells.append([[o, c], rat(W[o, c])])
        res['cells'] = cells
        res['table_cells'] = [int(x.shape[0]) * int(x.shape[1]) for x in (cv, ov, W) if x is not None]
        del W, cv, ov
        return res
    finally:
        shutil.rmtree(d, ignore_errors=True)


OPS = {'write_events': op_write_events, 'read_binary': op_read_binary, 'kernel': op_kernel,
       'sparse_big': op_sparse_big, 'sparse_big_wh': op_sparse_big_wh}
