"""
C01 — learned weights follow the Rescorla-Wagner rule.
Correspondence: the real learners (dict_ndl scalar / per-cue alpha, ndl
threading, ndl openmp) against the Lean models `dictNdl` and `ndlModel`
(both proved equal to the specification `rwLearn` in PyndlProps/C01.lean).
"""
import gen
import learners as L
from common import rng

LEARNERS = ['dict_ndl', 'ndl_threading', 'ndl_openmp']


def cases(tier):
    r = rng('C01')
    out = []
    n_dense = 60 if tier == 'quick' else 700
    for i in range(n_dense):
        n = r.choice([1, 1, 2, 3, 4, 5, 6, 8, 10, 14]) if i % 7 else r.randint(15, 24)
        dup = r.choice([0.0, 0.0, 0.5])
        es = gen.events(r, n, dup=dup, late=(i % 3 == 0), medium=(i % 6 == 2))
        policy = r.choice(['dedup', 'keep']) if gen.has_dup(es) and r.random() < 0.8 else \
            r.choice(['error', 'dedup', 'keep'])
        c = dict(gen.params(r, coarse=(i % 5 != 0)), events=es, policy=policy, stream='dense',
                 n_jobs=r.choice([1, 2, 3]), per_job=r.choice([1, 2, 10]), per_file=r.choice([2, 3, 10000000]))
        if i % 4 == 1:
            # the other documented input forms: generator for the parallel learners (spooled to a
            # file: the empty outcome field becomes the outcome ''), path for dict_ndl
            c['form_ndl'] = 'generator'
            c['form_dict'] = 'path'
            c['events'] = gen.file_norm(es)
            c['stream'] = 'dense_other_input_form'
        out.append((c, LEARNERS))
    # per-cue alpha (dict_ndl only)
    for i in range(15 if tier == 'quick' else 150):
        es = gen.events(r, r.randint(1, 8), dup=r.choice([0.0, 0.4]))
        amap = {c: r.choice(gen.ALPHAS) for c in gen.CUES if r.random() < 0.7}
        p = gen.params(r)
        p['alpha'] = {'default': r.choice(gen.ALPHAS), 'map': amap}
        policy = r.choice(['dedup', 'keep']) if gen.has_dup(es) else r.choice(['error', 'dedup', 'keep'])
        c = dict(p, events=es, policy=policy, stream='per_cue_alpha')
        if i % 3 == 1:
            # a plain dict naming every cue of the events instead of a defaultdict
            p['alpha'] = {'default': p['alpha']['default'], 'container': 'dict',
                          'map': {cu: amap.get(cu, p['alpha']['default']) for cs, _ in es for cu in cs}}
            c['alpha'] = p['alpha']
        if i % 3 == 2:
            c['form_dict'] = 'path'
            c['events'] = gen.file_norm(es)
        out.append((c, ['dict_ndl']))
    # single-cue probes: one event, one cue, one outcome + one absent outcome row
    for i in range(6 if tier == 'quick' else 30):
        es = [[['a'], ['x']], [['a'], ['y']]][: r.randint(1, 2)]
        out.append((dict(gen.params(r), events=es, policy='error', stream='single_cue'), LEARNERS))
    # wide events: the kernels' re-allocation path (> 1024 ids in one event)
    wides = [(gen.wide_cues, 1025), (gen.wide_outs, 1025)] if tier == 'quick' else \
        [(gen.wide_cues, 1025), (gen.wide_cues, 1500), (gen.wide_cues, 3000),
         (gen.wide_outs, 1025), (gen.wide_outs, 1100), (gen.wide_outs, 2500)]
    for f, k in wides:
        es = f(r, k, n_events=3)
        c = dict(gen.params(r), events=es, policy=r.choice(['error', 'dedup']), stream='wide', n_jobs=r.choice([2, 4]),
                 per_job=r.choice([7, 100, 1000]), per_file=r.choice([2, 10000000]), _timeout=300)
        out.append((c, LEARNERS))
    # one vocabulary for cues and outcomes (a name is both), all learners
    for i in range(8 if tier == 'quick' else 80):
        dup = r.choice([0.0, 0.0, 0.4])
        es = gen.overlap_events(r, r.randint(1, 9), dup=dup)
        policy = r.choice(['dedup', 'keep']) if gen.has_dup(es) else r.choice(['error', 'dedup', 'keep'])
        out.append((dict(gen.params(r), events=es, policy=policy, stream='overlap_vocabulary', n_jobs=r.choice([1, 2, 3]),
                         per_job=r.choice([1, 2, 10]), per_file=r.choice([2, 3, 10000000])), LEARNERS))
    # wide on both sides in one event, at any position
    # (a million cells per case: one case and the two buffer-owning learners in the quick tier)
    for k in range(1 if tier == 'quick' else 3):
        nc, no = (1400, 1100) if tier == 'quick' else (r.choice([1025, 1500]), r.choice([1025, 1100]))
        es = gen.wide_joint(r, nc, no, n_events=3, pos=r.choice([0, 1, 2]))
        out.append((dict(gen.params(r), events=es, policy=r.choice(['error', 'dedup', 'keep']), stream='wide_joint',
                         n_jobs=r.choice([2, 4]), per_job=r.choice([7, 100, 1000]), per_file=r.choice([2, 10000000]),
                         _timeout=300), LEARNERS if (tier != 'quick' and k == 0) else LEARNERS[1:]))
    # outside the property's quantifier (it starts at one event), run to keep the model honest where
    # the learners differ: an event file with ZERO events (model: ndlCall, theorems ndl_call_empty_*)
    for init in (False, True):
        c = dict(gen.params(r), events=[], policy='error', stream='zero_events', n_jobs=2, per_job=r.choice([1, 10]))
        if init:
            c['init_lw'] = {'outcomes': ['x', 'y'], 'cues': ['a'], 'vals': ['1/2', '-3/4']}
            c['init_cells'] = [['x', 'a', '1/2'], ['y', 'a', '-3/4']]
        out.append((c, LEARNERS))
    # parameters on the boundary of their range: exactly zero beta2 / beta1 / lambda / alpha (a kernel that
    # treats "nothing to unlearn" or "nothing to learn" as a shortcut; seeded change C13_e).  Own PRNG
    # stream, so the cases above stay what they were.
    rz = rng('C01-zero-parameters')
    for i in range(8 if tier == 'quick' else 80):
        es = gen.events(rz, rz.choice([3, 4, 6, 9]), dup=0.0, late=(i % 2 == 0))
        zero = ['beta2', 'beta1', 'lambda', 'alpha'][i % 4] if i % 8 < 6 else 'beta2'
        c = dict(gen.params(rz), events=es, policy='error', stream='zero_parameter:' + zero,
                 n_jobs=rz.choice([1, 2, 3]), per_job=rz.choice([1, 2, 10]), per_file=rz.choice([2, 3, 10000000]))
        c[zero] = '0'
        out.append((c, LEARNERS))
    # long sequences outside the exact domain (tolerance comparison) - thorough only
    if tier == 'thorough':
        for i in range(40):
            es = gen.events(r, r.randint(200, 1200), dup=0.0)
            c = dict(gen.params(r, coarse=False), events=es, policy='error', stream='long',
                     n_jobs=4, per_job=2, per_file=r.choice([97, 10000000]), _timeout=300)
            c['alpha'] = '1/16'
            out.append((c, LEARNERS))
    return out


def run(rep, pool, driver, tier):
    cs = cases(tier)
    tasks, reqs, index = [], [], []
    for ci, (c, ls) in enumerate(cs):
        for l in ls:
            tasks.append(L.impl_task(c, l))
            reqs.append(L.model_request(c, l))
            index.append((ci, l))
    impls = pool.map(tasks)
    models = driver.ask(reqs)
    failures = []
    for (ci, l), impl, model in zip(index, impls, models):
        c = cs[ci][0]
        es = c['events']
        rep.case({'events': es, 'p': [c['alpha'], c['beta1'], c['beta2'], c['lambda']], 'policy': c['policy'],
                  'learner': l, 'cfg': [c.get('n_jobs'), c.get('per_job'), c.get('per_file')]},
                 nontrivial=len(es) >= 2 or (len(es) == 1 and len(es[0][0]) >= 2), stream=c['stream'])
        rep.count('learner:' + l)
        rep.count('policy:' + c['policy'])
        rep.count('outcome:' + (model.get('err') or 'Returned'))
        if 'err' not in model:
            rep.count('exact_domain' if model.get('bits', 9999) <= L.EXACT_BITS else 'tolerance_domain')
        if gen.has_dup(es):
            rep.count('cases_with_duplicates')
        if any(not o for _, o in es):
            rep.count('cases_with_outcomeless_event')
        if c['lambda'] != '1':
            rep.count('lambda_ne_1')
        rep.count('events_per_case:%s' % ('1' if len(es) == 1 else '2-5' if len(es) <= 5 else '6-24' if len(es) <= 24 else '25+'))
        d = L.compare(impl, model)
        if d is None and l != 'dict_ndl':
            pass
        if d is not None:
            failures.append((c, l, d, impl, model))
        elif len(es) >= 3 and 'err' not in model:
            rep.sample({'learner': l, 'events': es[:6], 'params': [c['alpha'], c['beta1'], c['beta2'], c['lambda']],
                        'policy': c['policy'], 'model_cells': model['cells'][:6],
                        'impl_cells': impl['cells'][:6], 'bits': model.get('bits')})
    for c, l, d, impl, model in failures[:5]:
        small, steps = L.shrink(pool, driver, c, l)
        d2, impl2, model2 = L.evaluate(pool, driver, small, l)
        rep.violation({'what': d2 or d, 'learner': l, 'input': {k: v for k, v in small.items() if k != '_timeout'},
                       'observed': {k: impl2.get(k) for k in ('err', 'msg', 'cells', 'outcomes', 'cues')},
                       'expected': {k: model2.get(k) for k in ('err', 'cells', 'outcomes', 'cues', 'bits')},
                       'python': L.python_snippet(small, l),
                       'theorem_or_stream': 'correspondence learn/%s vs Lean model (C01: dictNdl_eq_spec / ndl_call_eq_spec)' % l,
                       'shrunk_from_events': len(c['events']), 'shrink_steps': steps})
    rep.extra['failures_total'] = len(failures)
