"""C12 implementation ops: pyndl.activation.activation on all three paths, and the learner/activation link"""
import os
from collections import defaultdict
from fractions import Fraction

import numpy as np
import xarray as xr

import impl
from impl import fl, rat, POLICY
from pyndl import activation, ndl


def _da(t):
    outs, cues = t['outcomes'], t['cues']
    vals = np.array([fl(v) for v in t['vals']], dtype=np.float64).reshape((len(outs), len(cues)))
    if t.get('dtype', 'float64') != 'float64':
        # the generator only draws values this dtype represents exactly
        conv = vals.astype(t['dtype'])
        assert (conv.astype(np.float64) == vals).all()
        vals = conv
    layout = t.get('layout', 'c')
    if layout == 'f':
        vals = np.asfortranarray(vals)
    elif layout == 'transposed':
        # stored cues x outcomes, handed over as the transposed view (Fortran-ordered, not contiguous in C order)
        return xr.DataArray(np.ascontiguousarray(vals.T), [('cues', cues), ('outcomes', outs)]).T
    elif layout == 'slice':
        # a selection of a larger matrix: padding rows/columns around the real cells, selected away again
        big = np.full((len(outs) + 2, len(cues) + 3), 7.25, dtype=vals.dtype)
        big[1:-1, 2:-1] = vals
        da = xr.DataArray(big, [('outcomes', ['PAD0'] + outs + ['PAD1']), ('cues', ['P0', 'P1'] + cues + ['P2'])])
        return da.isel(outcomes=slice(1, len(outs) + 1), cues=slice(2, len(cues) + 2))
    return xr.DataArray(vals, [('outcomes', outs), ('cues', cues)])


def op_activation(t):
    events = [(list(c), []) for c in t['events']]
    d = None
    if t.get('as_path'):
        # events=<path string>: the events are read with io.events_from_file inside activation(); the file is
        # written by the harness' own writer, optionally with a third (frequency) column; the outcome column
        # (ignored by activation) is filled from t['file_outcomes']
        import os
        import tempfile
        d = tempfile.mkdtemp(prefix='act-', dir=os.getcwd())
        path = os.path.join(d, 'events.tab.gz')
        outs = t.get('file_outcomes') or [[] for _ in t['events']]
        impl.write_event_file(path, [(list(c), list(o)) for c, o in zip(t['events'], outs)], freq=t.get('freq'))
        events = path
    try:
        return _activation(t, events)
    finally:
        if d is not None:
            import shutil
            shutil.rmtree(d, ignore_errors=True)


def _activation(t, events):
    try:
        if t['kind'] == 'matrix':
            w = _da(t)
            before = w.values.copy()
            a = activation.activation(iter(events) if t.get('as_generator') and not t.get('as_path') else events, w,
                                      n_jobs=int(t.get('n_jobs', 1)), remove_duplicates=POLICY[t['policy']],
                                      ignore_missing_cues=bool(t.get('ignore_missing', False)))
            outs = [str(x) for x in a.coords['outcomes'].values.tolist()]
            vals = np.asarray(a.values)
            return {'outcomes': outs, 'dims': list(a.dims), 'shape': list(vals.shape),
                    'by_event': [[rat(vals[i, e]) for i in range(vals.shape[0])] for e in range(vals.shape[1])],
                    'weights_unchanged': bool((w.values == before).all())}
        else:
            if t.get('strict'):
                w = {o: {c: fl(v) for c, v in cells} for o, cells in t['rows']}
            else:
                w = ndl.WeightDict()
                for o, cells in t['rows']:
                    w[o]  # noqa: create the row even if it has no cells
                    for c, v in cells:
                        w[o][c] = fl(v)
            a = activation.activation(events, w, remove_duplicates=POLICY[t['policy']])
            return {'by_outcome': [[o, [rat(x) for x in np.asarray(v).tolist()]] for o, v in a.items()]}
    except AssertionError as e:
        return {'err': 'Raised:Assertion', 'msg': str(e)[:100]}
    except Exception as e:  # noqa
        return impl.err(e)


def op_step_delta(t):
    """learn one further event with the real learner and relate the change to the real activation"""
    try:
        W = ndl.WeightDict()
        for o, cells in t['rows']:
            for c, v in cells:
                W[o][c] = fl(v)
        cues, outcomes = list(t['event'][0]), list(t['event'][1])
        policy = POLICY[t['policy']]
        names_c = sorted({c for _, cells in t['rows'] for c, _ in cells} | set(cues))
        names_o = sorted({o for o, _ in t['rows']} | set(outcomes))
        da = xr.DataArray(np.array([[W[o][c] for c in names_c] for o in names_o], dtype=np.float64),
                          [('outcomes', names_o), ('cues', names_c)])
        act = activation.activation([(cues, outcomes)], da, remove_duplicates=policy)
        learner = t.get('learner', 'dict_ndl')
        if learner == 'dict_ndl':
            W2 = ndl.dict_ndl([(cues, outcomes)], fl(t['alpha']), (fl(t['beta1']), fl(t['beta2'])), fl(t['lambda']),
                              weights=W, remove_duplicates=policy)
        else:
            # the parallel learner continues from the SAME labelled matrix on a one-event file (an empty
            # outcome field would be the outcome '': the generator gives this learner at least one outcome)
            import tempfile, shutil
            d = tempfile.mkdtemp(prefix='step-', dir=impl.WORK) if hasattr(impl, 'WORK') else tempfile.mkdtemp(prefix='step-')
            try:
                path = os.path.join(d, 'event.tab.gz')
                impl.write_event_file(path, [(cues, outcomes)])
                da2 = ndl.ndl(path, fl(t['alpha']), (fl(t['beta1']), fl(t['beta2'])), fl(t['lambda']),
                              method='threading' if learner == 'ndl_threading' else 'openmp', weights=da,
                              n_jobs=int(t.get('n_jobs', 2)), n_outcomes_per_job=int(t.get('per_job', 10)),
                              remove_duplicates=policy)
            finally:
                shutil.rmtree(d, ignore_errors=True)
            oo = [str(x) for x in da2.coords['outcomes'].values.tolist()]
            cc = [str(x) for x in da2.coords['cues'].values.tolist()]
            W2 = {o: {c: float(da2.values[oo.index(o), cc.index(c)]) for c in names_c} for o in names_o}
        a, b1, b2, lam = (Fraction(t[k]) for k in ('alpha', 'beta1', 'beta2', 'lambda'))
        eff = cues if t['policy'] == 'keep' else list(dict.fromkeys(cues))
        bad = []
        for i, o in enumerate(names_o):
            actv = Fraction(float(act.values[i, 0]))
            target_term = b1 * (lam - actv) if o in outcomes else b2 * (0 - actv)
            for c in names_c:
                delta = Fraction(W2[o][c]) - Fraction(W[o][c])
                want = eff.count(c) * a * target_term
                if delta != want:
                    bad.append([o, c, rat(float(delta)), '%d/%d' % (want.numerator, want.denominator)])
        return {'bad': bad, 'n_cells': len(names_o) * len(names_c)}
    except Exception as e:  # noqa
        return impl.err(e)


OPS = {'activation': op_activation, 'step_delta': op_step_delta}
