"""
C18 — parallel correlation equals Pearson correlation.
Correspondence: the real `pyndl.correlation.correlation` (public call; public call with the real
OpenMP kernel forwarded with n_jobs 1..32 / chunksize 1..50; direct kernel call) on the same logical
matrix in C, Fortran, strided-slice, negative-stride and one-unit-stride-only (row slice of a taller Fortran array, column slice of a wider C array, transposed) layouts, against the Lean model
`Pyndl.Corr.correlation` evaluated over exact rationals (PyndlProps/C18.lean proves the model's cell
equal to Pearson's r over the reals, its rejection rule equal to "some column is constant", and its
result independent of the prange schedule).  Per cell, in integer/Fraction arithmetic:
|r_impl^2 - nom^2/den^2| <= 2^-40 and sign(r_impl) = sign(nom); all configurations bit-identical;
|r_impl - _reference_correlation (scipy.stats.pearsonr)| <= 1e-9; degenerate columns (constant dyadic
and non-dyadic values, NaN, +-inf at every position, both matrices, allow_nan in {False, True}) and
mismatching first dimensions: exception class vs model; inputs unmodified.
"""
import json
from fractions import Fraction

from common import rng

TRUSTED = [
    'C18: IEEE-754 rounding of np.mean / np.std / the kernel (the value comparison carries the tolerance 2^-40 on r^2, '
    'sqrt is irrational); OpenMP runs the prange body once per iteration with private temporaries (Cython semantics); '
    'numpy strided indexing; scipy.stats.pearsonr as the reference the property names',
]
ASSUMPTIONS = [
    'n_vec_dims >= 2 for the value clauses (n = 1: every column is constant and is rejected)',
    'entries small enough that squares and products neither overflow nor underflow (|x| in 0 or [2^-20, 2^20]): '
    'a non-constant column like [1e-300, 2e-300, 3e-300] has np.std == 0.0 by underflow and is rejected - rounding, not modelled',
    'chunksize >= 1, n_jobs >= 1 (OpenMP rejects 0)',
]

WORKERS = 6
TIMEOUT = 120
TOL_R2_LOG2 = 40
TOL_REF = Fraction(1, 10 ** 9)

# ------------------------------------------------------------------ generators

CONST_VALUES = [0, 1, -3, '1/2',
                '3602879701896397/36028797018963968',       # 0.1
                '6004799503160661/18014398509481984',       # 1/3 as a double
                str(Fraction(1e-300).numerator) + '/' + str(Fraction(1e-300).denominator),
                str(int(1e300)),
                'inf', '-inf']
SPECIALS = ['nan', 'inf', '-inf']


def int_column(r, n, style):
    while True:
        if style == 'binary':
            col = [r.randint(0, 1) for _ in range(n)]
        elif style == 'spike':
            base = r.randint(-3, 3)
            col = [base] * n
            col[r.randrange(n)] = base + r.choice([-2, -1, 1, 2])
        elif style == 'small':
            col = [r.randint(0, 3) for _ in range(n)]
        elif style == 'equal_ends' and n >= 3:
            col = [r.randint(-4, 4) for _ in range(n)]
            col[-1] = col[0]
        else:
            col = [r.randint(-9, 9) for _ in range(n)]
        if len(set(col)) > 1:
            return col


def columns_to_rows(cols, n):
    return [[c[k] for c in cols] for k in range(n)]


def int_matrix(r, n, m):
    styles = ['wide', 'wide', 'binary', 'spike', 'small', 'equal_ends']
    cols = [int_column(r, n, r.choice(styles)) for _ in range(m)]
    return cols


def frac_str(f):
    f = Fraction(f)
    return '%d/%d' % (f.numerator, f.denominator)


def float_matrix(r, n, m, kind):
    cols = []
    for _ in range(m):
        while True:
            if kind == 'eighths':
                col = [Fraction(r.randint(-40, 40), 8) for _ in range(n)]
            else:
                col = [Fraction(r.gauss(0.0, 1.0)) for _ in range(n)]
            if len(set(col)) > 1:
                break
        cols.append([frac_str(v) for v in col])
    return cols


def rand_config(r):
    return {'layout': r.choice('CFSRPQT'), 'layout_act': r.choice('CFSRPQT'),
            'via': r.choice(['shim', 'shim', 'kernel']),
            'n_jobs': r.choice([1, 2, 3, 4, 7, 8, 16, 31, 32, r.randint(1, 32)]),
            'chunksize': r.choice([1, 2, 3, 10, 49, 50, r.randint(1, 50)])}


def configs(r, k):
    base = [{'layout': 'C', 'via': 'public'}, {'layout': 'F', 'via': 'public'}, {'layout': 'S', 'via': 'public'},
            {'layout': r.choice('PQT'), 'layout_act': r.choice('PQT'), 'via': 'public'}]
    return base + [rand_config(r) for _ in range(k)]


def schedule(r, c, n_ev):
    cs = next((g['chunksize'] for g in c['configs'] if 'chunksize' in g), 10)
    n_chunks = (n_ev + cs - 1) // cs
    order = list(range(n_chunks))
    r.shuffle(order)
    c['chunksize'] = cs
    c['order'] = order


def cases(tier):
    r = rng('C18')
    out = []
    quick = tier == 'quick'
    # --- regular integer matrices at the property's full shape range
    for i in range(160 if quick else 1200):
        if i % 5 == 0:
            n, no, ne = r.randint(3, 40), r.randint(1, 30), r.randint(1, 60)
        elif i % 5 == 1:
            n, no, ne = r.choice([3, 40]), r.choice([1, 30]), r.choice([1, 60])
        else:
            n, no, ne = r.randint(3, 12), r.randint(1, 6), r.randint(1, 14)
        sem_cols = int_matrix(r, n, no)
        act_cols = int_matrix(r, n, ne)
        if r.random() < 0.3 and ne >= 1:   # exact +-1 and exactly 0 correlations
            x = sem_cols[r.randrange(no)]
            a = r.choice([-2, -1, 1, 2])
            b = r.randint(-2, 2)
            act_cols[r.randrange(ne)] = [a * v + b for v in x]
        c = {'stream': 'regular', 'sem': columns_to_rows(sem_cols, n), 'act': columns_to_rows(act_cols, n),
             'allow_nan': r.random() < 0.2, 'configs': configs(r, 3 if quick else 5), 'reference': True}
        schedule(r, c, ne)
        out.append(c)
    # --- non-integer values (exact rationals on the model side)
    for i in range(30 if quick else 300):
        n, no, ne = r.randint(3, 14), r.randint(1, 4), r.randint(1, 7)
        kind = 'eighths' if i % 2 else 'gauss'
        c = {'stream': 'float_' + kind, 'sem': columns_to_rows(float_matrix(r, n, no, kind), n),
             'act': columns_to_rows(float_matrix(r, n, ne, kind), n), 'allow_nan': False,
             'configs': configs(r, 2), 'reference': True}
        schedule(r, c, ne)
        out.append(c)
    # --- small-scale / small-spread columns: non-constant columns whose entries lie very close
    #     together in absolute terms (scaled by 2^-30, 2^-40) must still be correlated, not rejected
    #     as 'constant' (seeded change C18_a: np.allclose in the constant-column test)
    for i in range(12 if quick else 120):
        n, no, ne = r.randint(3, 10), r.randint(1, 3), r.randint(1, 5)
        k = r.choice([30, 40, 45])
        sem_cols = int_matrix(r, n, no)
        act_cols = int_matrix(r, n, ne)
        which = r.choice(['sem', 'act', 'both'])
        sc = lambda cols: [['%d/%d' % (v, 2 ** k) for v in col] for col in cols]  # noqa: E731
        if which in ('sem', 'both'):
            sem_cols = sc(sem_cols)
        if which in ('act', 'both'):
            act_cols = sc(act_cols)
        c = {'stream': 'small_scale', 'sem': columns_to_rows(sem_cols, n), 'act': columns_to_rows(act_cols, n),
             'allow_nan': False, 'configs': configs(r, 2), 'reference': True}
        schedule(r, c, ne)
        out.append(c)
    # --- degenerate columns: at every column position, every row position, both matrices
    fixed = [{'stream': 'degenerate', 'sem': [['3602879701896397/36028797018963968']] * 3,     # F9's witness
              'act': [[1, 0], [0, 1], [2, 2]], 'allow_nan': False,
              'configs': configs(r, 1), 'reference': False, 'what': 'F9 full((3,1), 0.1)'}]
    out.extend(fixed)
    n_deg = 10 if quick else 60
    for i in range(n_deg):
        n, no, ne = r.randint(3, 6), r.randint(1, 4), r.randint(1, 4)
        sem_cols = int_matrix(r, n, no)
        act_cols = int_matrix(r, n, ne)
        for side in ('sem', 'act'):
            m = no if side == 'sem' else ne
            for pos in range(m):
                variants = []
                val = CONST_VALUES[(i + pos + (0 if side == 'sem' else 3)) % len(CONST_VALUES)]
                variants.append(('const', [val] * n))
                variants.append(('const', [r.choice(CONST_VALUES)] * n))
                for k in range(n):
                    base = list((sem_cols if side == 'sem' else act_cols)[pos])
                    base[k] = SPECIALS[(i + k + pos) % 3]
                    variants.append(('special@%d' % k, base))
                # a constant column with one NaN / an all-NaN column / mixed infinities
                variants.append(('const+nan', [2] * (n - 1) + ['nan']))
                variants.append(('allnan', ['nan'] * n))
                variants.append(('infmix', ['inf', '-inf'] + ['inf'] * (n - 2)))
                if quick:
                    variants = variants[:2] + r.sample(variants[2:], 3)
                for what, col in variants:
                    sc = [list(x) for x in sem_cols]
                    ac = [list(x) for x in act_cols]
                    (sc if side == 'sem' else ac)[pos] = col
                    for allow in (False, True):
                        c = {'stream': 'degenerate', 'sem': columns_to_rows(sc, n), 'act': columns_to_rows(ac, n),
                             'allow_nan': allow, 'configs': [r.choice(configs(r, 0)), rand_config(r)], 'reference': False,
                             'what': '%s %s col %d' % (side, what, pos)}
                        schedule(r, c, ne)
                        out.append(c)
    # --- n_vec_dims = 1 and 2 (n = 1: everything constant; n = 2: r = +-1)
    for n in (1, 2):
        for _ in range(3):
            no, ne = r.randint(1, 3), r.randint(1, 3)
            if n == 1:
                sem = [[r.randint(-3, 3) for _ in range(no)]]
                act = [[r.randint(-3, 3) for _ in range(ne)]]
            else:
                sem = columns_to_rows(int_matrix(r, 2, no), 2)
                act = columns_to_rows(int_matrix(r, 2, ne), 2)
            c = {'stream': 'tiny_n', 'sem': sem, 'act': act, 'allow_nan': False,
                 'configs': configs(r, 1), 'reference': n == 2}
            schedule(r, c, ne)
            out.append(c)
    # --- mismatching first dimensions
    for i in range(6 if quick else 30):
        n1 = r.randint(1, 8)
        n2 = r.choice([k for k in range(1, 10) if k != n1])
        no, ne = r.randint(1, 3), r.randint(1, 3)
        c = {'stream': 'shape_mismatch', 'sem': columns_to_rows(int_matrix(r, max(n1, 2), no), max(n1, 2))[:n1],
             'act': columns_to_rows(int_matrix(r, max(n2, 2), ne), max(n2, 2))[:n2],
             'allow_nan': r.random() < 0.5, 'configs': configs(r, 1), 'reference': False}
        schedule(r, c, ne)
        out.append(c)
    return out


# ------------------------------------------------------------------ evaluation

def impl_task(c):
    return {'op': 'corr', 'sem': c['sem'], 'act': c['act'], 'allow_nan': c['allow_nan'],
            'configs': c['configs'], 'reference': c.get('reference', False)}


def model_request(c):
    q = {'op': 'corr', 'sem': c['sem'], 'act': c['act'], 'allow_nan': c['allow_nan'],
         'chunksize': c.get('chunksize', 10)}
    if 'order' in c:
        q['order'] = c['order']
    return q


def _finite(x):
    return x == x and x not in (float('inf'), float('-inf'))


def r2_close(v, r2s):
    """|v^2 - p/q| <= 2^-40 in integer arithmetic (v a finite double, r2s = 'p/q')"""
    a, b = v.as_integer_ratio()
    p, _, q = r2s.partition('/')
    p, q = int(p), int(q or 1)
    # |a^2/b^2 - p/q| <= 2^-40  <=>  |a^2 q - p b^2| * 2^40 <= b^2 q
    return abs(a * a * q - p * b * b) << TOL_R2_LOG2 <= b * b * q


def r2_err(v, r2s):
    """|v^2 - r2| as a float for the message only (the decision is r2_close, exact)"""
    a, b = v.as_integer_ratio()
    try:
        return float(abs(Fraction(a * a, b * b) - Fraction(r2s)))
    except OverflowError:
        return float('inf')


def sign(v):
    return (v > 0) - (v < 0)


def check_cells(cells, model_cells, stats=None):
    """one returned matrix against the model's cells; None or a description"""
    for jj, mrow in enumerate(model_cells):
        for ii, mc in enumerate(mrow):
            v = float.fromhex(cells[jj][ii])
            if mc is None:
                if stats is not None:
                    stats['degenerate_cells_' + ('nonfinite' if not _finite(v) else 'finite')] = \
                        stats.get('degenerate_cells_' + ('nonfinite' if not _finite(v) else 'finite'), 0) + 1
                continue
            if not _finite(v):
                return 'cell (%d,%d) = %r, model r^2 = %s' % (jj, ii, v, mc[0])
            if not r2_close(v, mc[0]):
                return 'cell (%d,%d) = %r: r^2 differs from the model\'s %s by %.3e > 2^-40' % (
                    jj, ii, v, mc[0], r2_err(v, mc[0]))
            if mc[1] != 0 and sign(v) != mc[1]:
                return 'cell (%d,%d) = %r has the wrong sign (model sign nom = %d)' % (jj, ii, v, mc[1])
            if stats is not None:
                stats['cells'] = stats.get('cells', 0) + 1
                if mc[1] == 0:
                    stats['cells_r_eq_0'] = stats.get('cells_r_eq_0', 0) + 1
                if mc[0] == '1/1':
                    stats['cells_r2_eq_1'] = stats.get('cells_r2_eq_1', 0) + 1
    return None


def judge(c, impl, model, stats=None):
    """None if the implementation agrees with the model and the property's clauses, else a description"""
    if 'results' not in impl:
        return 'implementation side: %s %s' % (impl.get('err'), impl.get('msg', ''))
    exp_err = model.get('err')
    n_out = len(c['sem'][0]) if c['sem'] else 0
    n_ev = len(c['act'][0]) if c['act'] else 0
    base = None
    for cfg, res in zip(c['configs'], impl['results']):
        tag = json.dumps(cfg, sort_keys=True)
        if exp_err:
            if res.get('err') != exp_err:
                return 'config %s: expected %s, observed %s' % (tag, exp_err, res.get('err') or 'Returned a matrix')
            continue
        if 'err' in res:
            return 'config %s: expected a matrix, observed %s (%s)' % (tag, res['err'], res.get('msg', '')[:120])
        if res['shape'] != [n_out, n_ev]:
            return 'config %s: shape %s, expected %s' % (tag, res['shape'], [n_out, n_ev])
        if base is None:
            d = check_cells(res['cells'], model['cells'], stats)
            if d:
                return 'config %s: %s' % (tag, d)
            base = res['cells']
        elif res['cells'] != base:
            d = check_cells(res['cells'], model['cells'])
            if d:
                return 'config %s: %s' % (tag, d)
            for jj, mrow in enumerate(model['cells']):
                for ii, mc in enumerate(mrow):
                    if mc is not None and res['cells'][jj][ii] != base[jj][ii]:
                        return ('config %s: cell (%d,%d) = %s is not bit-identical to %s of config %s'
                                % (tag, jj, ii, res['cells'][jj][ii], base[jj][ii],
                                   json.dumps(c['configs'][0], sort_keys=True)))
    if not impl.get('inputs_unmodified', True):
        return 'an input matrix was modified'
    ref = impl.get('reference')
    if ref is not None and not exp_err and base is not None:
        if 'err' in ref:
            return 'reference raised %s' % ref['err']
        for jj, mrow in enumerate(model['cells']):
            for ii, mc in enumerate(mrow):
                if mc is None:
                    continue
                a = float.fromhex(base[jj][ii])
                b = float.fromhex(ref['cells'][jj][ii])
                if not _finite(b) or abs(Fraction(a) - Fraction(b)) > TOL_REF:
                    return 'cell (%d,%d) = %r differs from _reference_correlation %r by more than 1e-9' % (jj, ii, a, b)
        if stats is not None:
            stats['cases_vs_reference'] = stats.get('cases_vs_reference', 0) + 1
    return None


def evaluate(pool, driver, c):
    impl = pool.map([impl_task(c)])[0]
    model = driver.ask([model_request(c)])[0]
    return judge(c, impl, model), impl, model


# ------------------------------------------------------------------ shrinking

def _drop_col(rows, j):
    return [row[:j] + row[j + 1:] for row in rows]


def shrink(pool, driver, c, budget=160):
    """greedy: fewer configurations, fewer columns, fewer rows, simpler entries - while it still fails"""
    steps = [0]

    def fails(x):
        if steps[0] >= budget:
            return False
        steps[0] += 1
        x = dict(x)
        n_ev = len(x['act'][0]) if x['act'] else 0
        cs = x.get('chunksize', 10)
        x['order'] = list(range((n_ev + cs - 1) // cs))
        d, _, _ = evaluate(pool, driver, x)
        return d is not None

    cur = dict(c)
    # configurations: a single one, or baseline + one; then the simplest layout / thread count / chunk size
    for g in c['configs']:
        if fails(dict(cur, configs=[g])):
            cur = dict(cur, configs=[g])
            break
    else:
        for g in c['configs'][1:]:
            cand = dict(cur, configs=[c['configs'][0], g])
            if fails(cand):
                cur = cand
                break
    for idx in range(len(cur['configs'])):
        for k, v in (('layout', 'C'), ('layout_act', 'C'), ('n_jobs', 1), ('chunksize', 1)):
            g = cur['configs'][idx]
            if k in g and g[k] != v:
                gs = list(cur['configs'])
                gs[idx] = dict(g, **{k: v})
                cand = dict(cur, configs=gs)
                if fails(cand):
                    cur = cand
    changed = True
    while changed and steps[0] < budget:
        changed = False
        for key in ('act', 'sem'):
            j = len(cur[key][0]) - 1 if cur[key] else -1
            while j >= 0 and len(cur[key][0]) > 1:
                cand = dict(cur, **{key: _drop_col(cur[key], j)})
                if fails(cand):
                    cur, changed = cand, True
                j -= 1
        k = len(cur['sem']) - 1
        while k >= 0 and len(cur["sem"]) > min(3, len(c["sem"])) and len(cur['sem']) == len(cur['act']):
            cand = dict(cur, sem=cur['sem'][:k] + cur['sem'][k + 1:], act=cur['act'][:k] + cur['act'][k + 1:])
            if fails(cand):
                cur, changed = cand, True
            k -= 1
    for key in ('sem', 'act'):
        for k in range(len(cur[key])):
            for j in range(len(cur[key][k])):
                for v in (0, 1):
                    if cur[key][k][j] not in (0, 1) or (v == 0 and cur[key][k][j] == 1):
                        rows = [list(row) for row in cur[key]]
                        rows[k][j] = v
                        cand = dict(cur, **{key: rows})
                        if fails(cand):
                            cur = cand
                            break
    n_ev = len(cur['act'][0]) if cur['act'] else 0
    cs = cur.get('chunksize', 10)
    cur['order'] = list(range((n_ev + cs - 1) // cs))
    return cur, steps[0]


def python_snippet(c):
    cfg = next((g for g in c['configs'] if g.get('via', 'public') != 'public'), c['configs'][0])
    lines = [
        'import numpy as np',
        'from fractions import Fraction',
        'from pyndl import correlation, correlation_openmp',
        "E = lambda v: float(v) if not isinstance(v, str) or v in ('nan', 'inf', '-inf') else float(Fraction(v))",
        'sem = np.array([[E(v) for v in row] for row in %r], dtype=np.float64)' % (c['sem'],),
        'act = np.array([[E(v) for v in row] for row in %r], dtype=np.float64)' % (c['act'],),
    ]
    lay = {'C': 'np.ascontiguousarray(%s)', 'F': 'np.asfortranarray(%s)',
           'S': 'np.repeat(np.repeat(%s, 2, axis=0), 3, axis=1)[::2, ::3]',
           'R': 'np.ascontiguousarray(%s[::-1, ::-1])[::-1, ::-1]',
           'P': 'np.asfortranarray(np.vstack([%s, np.full((5, 1), 7.25) * np.ones((1, %s.shape[1]))]))[:-5]',
           'Q': 'np.ascontiguousarray(np.hstack([%s, np.full((%s.shape[0], 3), 7.25)]))[:, :-3]',
           'T': 'np.repeat(np.ascontiguousarray(%s.T), 2, axis=0)[::2].T'}
    def expr(kind, name):
        t = lay[kind]
        return t % ((name,) * t.count('%s'))
    lines.append('sem = ' + expr(cfg.get('layout', 'C'), 'sem'))
    lines.append('act = ' + expr(cfg.get('layout_act', cfg.get('layout', 'C')), 'act'))
    lines.append('print(correlation.correlation(sem, act, allow_nan=%r%s))' % (bool(c['allow_nan']), ', verbose=True' if cfg.get('verbose') else ''))
    lines.append('print(correlation._reference_correlation(sem, act))')
    if cfg.get('via', 'public') != 'public':
        lines += [
            'sm = np.array([np.mean(sem[:, j]) for j in range(sem.shape[1])]); '
            'ss = np.array([np.std(sem[:, j], ddof=1) for j in range(sem.shape[1])])',
            'am = np.array([np.mean(act[:, j]) for j in range(act.shape[1])]); '
            'sa = np.array([np.std(act[:, j], ddof=1) for j in range(act.shape[1])])',
            'print(correlation_openmp.correlation(sem, act, sm, ss, am, sa, n_jobs=%d, chunksize=%d))'
            % (cfg['n_jobs'], cfg['chunksize']),
        ]
    return '\n'.join(lines)


def canonical(c):
    return {'sem': c['sem'], 'act': c['act'], 'allow_nan': c['allow_nan'], 'configs': c['configs']}


def report_failure(rep, pool, driver, c, d):
    small, steps = shrink(pool, driver, c)
    d2, impl2, model2 = evaluate(pool, driver, small)
    if d2 is None:          # should not happen: the shrinker only accepts failing candidates
        small, d2 = c, d
        _, impl2, model2 = evaluate(pool, driver, c)
    rep.violation({'what': d2, 'input': {k: small[k] for k in ('sem', 'act', 'allow_nan', 'configs', 'chunksize', 'order')
                                         if k in small},
                   'stream': c['stream'],
                   'observed': impl2.get('results', impl2), 'reference': impl2.get('reference'),
                   'expected': model2, 'python': python_snippet(small),
                   'theorem_or_stream': 'correspondence corr vs Lean model Pyndl.Corr.correlation '
                                        '(C18: corr_eq_pearson, reject_iff_const, cells_independent)',
                   'shrunk_from': {'n_vec_dims': len(c['sem']), 'n_outcomes': len(c['sem'][0]) if c['sem'] else 0,
                                   'n_events': len(c['act'][0]) if c['act'] else 0, 'configs': len(c['configs'])},
                   'shrink_steps': steps})


def run(rep, pool, driver, tier):
    cs = cases(tier)
    # X1: `verbose=True` for about a quarter of the calls of the public function (own random stream: the
    # cases stay the same); the model knows no verbose flag, so the result must be the one of verbose=False
    rv = rng('C18/verbose')
    for c in cs:
        c['configs'] = [dict(g, verbose=True) if rv.random() < 0.25 else g for g in c['configs']]
    impls = pool.map([impl_task(c) for c in cs])
    models = driver.ask([model_request(c) for c in cs])
    failures = []
    stats = {}
    for c, impl, model in zip(cs, impls, models):
        n = len(c['sem'])
        n_out = len(c['sem'][0]) if c['sem'] else 0
        n_ev = len(c['act'][0]) if c['act'] else 0
        rep.case(canonical(c), nontrivial=True, stream=c['stream'])
        rep.count('outcome:' + (model.get('err') or 'Returned'))
        rep.count('allow_nan:%s' % c['allow_nan'])
        rep.count('n_vec_dims:%s' % ('1-2' if n <= 2 else '3-8' if n <= 8 else '9-24' if n <= 24 else '25-40'))
        rep.count('n_outcomes:%s' % ('1' if n_out == 1 else '2-6' if n_out <= 6 else '7-30'))
        rep.count('n_events:%s' % ('1' if n_ev == 1 else '2-14' if n_ev <= 14 else '15-60'))
        for g in c['configs']:
            rep.count('config_via:' + g.get('via', 'public'))
            rep.count('config_verbose:%s' % bool(g.get('verbose')))
            rep.count('config_layout:' + g.get('layout', 'C') + g.get('layout_act', g.get('layout', 'C')))
            if 'n_jobs' in g:
                rep.count('n_jobs:%s' % ('1' if g['n_jobs'] == 1 else '2-8' if g['n_jobs'] <= 8 else '9-32'))
                rep.count('chunksize:%s' % ('1' if g['chunksize'] == 1 else '2-10' if g['chunksize'] <= 10 else '11-50'))
                if g['chunksize'] < n_ev:
                    rep.count('configs_with_several_chunks')
        d = judge(c, impl, model, stats)
        if d is not None:
            failures.append((c, d))
        elif c['stream'] == 'regular' and n_out * n_ev >= 2 and n_out * n_ev <= 12:
            rep.sample({'sem': c['sem'], 'act': c['act'], 'configs': c['configs'][:4],
                        'model_cells(r^2, sign)': model.get('cells'),
                        'impl_cells': [[float.fromhex(v) for v in row] for row in impl['results'][0]['cells']],
                        'reference': [[float.fromhex(v) for v in row] for row in impl['reference']['cells']]}, limit=2)
        elif c['stream'] == 'degenerate':
            rep.sample({'what': c.get('what'), 'sem': c['sem'], 'act': c['act'], 'allow_nan': c['allow_nan'],
                        'model': model, 'impl': [r.get('err') or r.get('cells') for r in impl['results']][:1]}, limit=4)
    for k, v in stats.items():
        rep.count(k, v)
    seen = set()
    for c, d in failures:
        key = (c['stream'], d.split(':')[0][:40] if c['stream'] != 'regular' else 'regular')
        if key in seen or len(seen) >= 4:
            continue
        seen.add(key)
        report_failure(rep, pool, driver, c, d)
    extreme_range(rep, pool)
    rep.extra['failures_total'] = len(failures)
    rep.extra['first_failures'] = [d for _, d in failures[:5]]


def extreme_range(rep, pool):
    """
    Known finding F12: columns whose squared entries overflow or underflow float64.
    The property quantifies over all float64 matrices; the kernel's formula
    (sum x*y - n*mean*mean over (n-1)*std*std) breaks there while the reference
    (scipy.stats.pearsonr) does not. The stream runs exactly that input class and
    reports KNOWN-FINDING when the implementation disagrees with the property's own
    reference in the recorded way; anything else in this stream is a violation.
    """
    from common import known_findings
    f12 = [f for f in known_findings('C18') if f['id'] == 'F12']
    act = [[1, 0], [0, 1], [2, 2]]
    tasks = []
    for scale in ('1/' + '1' + '0' * 170, '1/' + '1' + '0' * 300, '1' + '0' * 200, '1' + '0' * 160):
        num, _, den = scale.partition('/')
        col = [[ '%d/%s' % (k * int(num), den or '1')] for k in (1, 2, -1 if not den else 3)]
        tasks.append({'op': 'corr', 'sem': col, 'act': act, 'allow_nan': False, 'configs': [{'layout': 'C', 'via': 'public'}],
                      'reference': True, '_scale': scale})
    for t, res in zip(tasks, pool.map(tasks)):
        rep.case({'extreme': t['_scale']}, nontrivial=True, stream='extreme_range')
        ref = res.get('reference')
        r0 = res['results'][0] if res.get('results') else {'err': res.get('err')}
        ok = False
        if isinstance(ref, dict) and 'cells' in ref and 'cells' in r0:
            a = [[float.fromhex(v) for v in row] for row in r0['cells']]
            b = [[float.fromhex(v) for v in row] for row in ref['cells']]
            ok = all(abs(x - y) <= 1e-9 for ra, rb in zip(a, b) for x, y in zip(ra, rb))
        if ok:
            rep.count('extreme_range_agrees_with_reference')
            continue
        what = 'column scaled by %s: correlation() gives %s, the reference %s' % (
            t['_scale'][:12] + ('…' if len(t['_scale']) > 12 else ''), r0.get('err') or r0.get('cells'),
            ref.get('cells') if isinstance(ref, dict) else ref)
        if f12:
            rep.known(f12[0], what[:200])
        else:
            rep.violation({'what': what, 'input': {k: v for k, v in t.items() if k != '_scale'},
                           'theorem_or_stream': 'C18 extreme_range: correlation() vs its reference'})


def replay(rep, pool, driver, rp):
    c = dict(rp['input'])
    c.setdefault('stream', rp.get('stream', 'replay'))
    c['reference'] = rp.get('reference') is not None
    d, impl, model = evaluate(pool, driver, c)
    rep.case(canonical(c), stream='replay')
    if d is not None:
        rep.violation({'what': d, 'input': rp['input'], 'observed': impl.get('results', impl), 'expected': model,
                       'python': python_snippet(c), 'theorem_or_stream': rp.get('theorem_or_stream')})
