"""
Implementation-side op for C16 (run metadata): one task = one *chain* of real
learner calls, the weights object (xarray.DataArray or WeightDict) being handed
from call to call inside the task, with `save_load` steps
(`DataArray.to_netcdf(path)` then `xr.open_dataarray(path).load()`, file
closed) in between.  Nothing here computes an expected attribute: the op only
reports what the real code stored and what the real netCDF round trip did.
"""
import ast
import os
import socket
import getpass

import numpy as np
import xarray as xr

import impl
from impl import CallDir, err, fl
from pyndl import ndl, wh

EXACT_KEYS = ('event_path', 'number_events', 'alpha', 'betas', 'lambda', 'function', 'method')


def lit(s):
    """'0.1' -> 0.1, '1' -> 1, '1e-05' -> 1e-05: the Python number the call gets"""
    v = ast.literal_eval(s)
    if not isinstance(v, (int, float)) or isinstance(v, bool):
        raise RuntimeError('bad numeric literal %r' % (s,))
    return v


def vectors(spec, rowdim, coldim):
    if spec is None:
        return None
    vals = np.array([[fl(v) for v in row] for row in spec['vals']], dtype=np.float64)
    vals = np.ascontiguousarray(vals.reshape((len(spec['labels']), len(spec['dims']))))
    return xr.DataArray(vals, dims=(rowdim, coldim),
                        coords={rowdim: list(spec['labels']), coldim: list(spec['dims'])})


def cells(w):
    """{(row, col): float.hex} — bit-exact, independent of label order"""
    if isinstance(w, xr.DataArray):
        d0, d1 = w.dims
        rows = [str(x) for x in w.coords[d0].values.tolist()]
        cols = [str(x) for x in w.coords[d1].values.tolist()]
        vals = np.asarray(w.values, dtype=np.float64)
        return {(r, c): float(vals[i, j]).hex() for i, r in enumerate(rows) for j, c in enumerate(cols)}
    return {(o, c): float(v).hex() for o, row in w.items() for c, v in row.items()}


def attrs_of(w):
    return {str(k): v for k, v in w.attrs.items()}


def entries_view(attrs, spool=False):
    """for comparing two branches: exact keys as they are, the others by entry
    count; `spool`: the last call was ndl.ndl on a generator, whose event_path
    is the (random) name of its temporary spool file"""
    out = {}
    for k, v in attrs.items():
        if not isinstance(v, str):
            out[k] = ['<non-str %s>' % type(v).__name__]
        elif k in EXACT_KEYS:
            out[k] = v.split(' | ')
            if spool and k == 'event_path':
                out[k][-1] = '<spool path>'
        else:
            out[k] = len(v.split(' | '))
    return out


def one_call(step, weights, files, cv, ov):
    """a single real learner call; returns (result weights, path string passed or None)"""
    learner = step['learner']
    f = files[step['file']]
    form = step.get('form', 'path')
    # in-memory forms carry what the file means: a line with frequency k (third column) is k events
    meant = [(list(c), list(o)) for k, (c, o) in enumerate(f['events'])
             for _ in range(1 if f.get('freq') is None else int(f['freq'][k]))]
    if form == 'path':
        arg = f['path']
    elif form == 'pathobj':
        import pathlib
        arg = pathlib.Path(f['path'])       # accepted by ndl.ndl only; the meta data must hold str(path)
    elif form == 'list':
        arg = meant
    elif form == 'generator':
        arg = (e for e in meant)
    else:
        raise RuntimeError('bad form')
    passed = arg if isinstance(arg, str) else (str(arg) if form == 'pathobj' else None)
    n_jobs = int(step.get('n_jobs', 2))
    chunk = {}
    if step.get('per_file') is not None:
        chunk['events_per_temporary_file'] = int(step['per_file'])
    if learner == 'ndl':
        w = ndl.ndl(arg, lit(step['alpha']), (lit(step['beta1']), lit(step['beta2'])), lit(step['lambda']),
                    method=step['method'], weights=weights, n_jobs=n_jobs,
                    n_outcomes_per_job=int(step.get('per_job', 10)), remove_duplicates=None, **chunk)
    elif learner == 'dict_ndl':
        w = ndl.dict_ndl(arg, lit(step['alpha']), (lit(step['beta1']), lit(step['beta2'])), lit(step['lambda']),
                         weights=weights, remove_duplicates=None,
                         make_data_array=bool(step.get('make_data_array', True)))
    elif learner == 'wh_r2r':
        w = wh.wh(arg, lit(step['eta']), cue_vectors=cv, outcome_vectors=ov, method=step['method'],
                  weights=weights, n_jobs=n_jobs, remove_duplicates=None, **chunk)
    elif learner == 'wh_b2r':
        w = wh.wh(arg, lit(step['eta']), outcome_vectors=ov, method=step['method'],
                  weights=weights, n_jobs=n_jobs, remove_duplicates=None, **chunk)
    elif learner == 'wh_r2b':
        w = wh.wh(arg, lit(step['eta']), cue_vectors=cv, method=step['method'],
                  weights=weights, n_jobs=n_jobs, remove_duplicates=None, **chunk)
    elif learner == 'dict_wh':
        w = wh.dict_wh(arg, lit(step['eta']), cv, ov, weights=weights, remove_duplicates=None,
                       make_data_array=bool(step.get('make_data_array', False)))
    else:
        raise RuntimeError('bad learner')
    return w, passed


def save_load(w, path):
    """to_netcdf + open_dataarray().load(), file closed; returns (loaded, report)"""
    w.to_netcdf(path)
    with xr.open_dataarray(path) as fh:
        w2 = fh.load()
    rep = {}
    a, b = np.asarray(w.values), np.asarray(w2.values)
    rep['values_bit_identical'] = bool(a.shape == b.shape and a.dtype == b.dtype and
                                       a.tobytes() == b.tobytes())
    rep['dims_equal'] = tuple(w.dims) == tuple(w2.dims)
    co = {}
    for d in w.dims:
        la = w.coords[d].values.tolist()
        lb = w2.coords[d].values.tolist() if d in w2.coords else None
        co[d] = (la == lb) and all(type(x) is type(y) for x, y in zip(la, lb or []))
    rep['coords_equal'] = all(co.values()) and set(map(str, w.coords)) == set(map(str, w2.coords))
    a1, a2 = dict(w.attrs), dict(w2.attrs)
    rep['attrs_equal'] = (a1 == a2 and all(type(a1[k]) is type(a2.get(k)) for k in a1))
    rep['name_equal'] = (w.name == w2.name)
    if not all(rep.values()):
        rep['detail'] = {
            'dims': [list(map(str, w.dims)), list(map(str, w2.dims))],
            'coords': {str(d): [list(map(repr, w.coords[d].values.tolist()))[:8],
                                list(map(repr, w2.coords[d].values.tolist()))[:8] if d in w2.coords else None]
                       for d in w.dims},
            'attr_diff': sorted(k for k in set(a1) | set(a2) if a1.get(k) != a2.get(k))[:6],
            'names': [repr(w.name), repr(w2.name)],
        }
    return w2, rep


def op_attrs_chain(t):
    cd = CallDir()
    old_cwd = os.getcwd()
    try:
        files = []
        for i, f in enumerate(t['files']):
            name = f['name']
            if t.get('relative_paths'):
                path = name
                full = os.path.join(cd.inp, name)
            else:
                path = full = os.path.join(cd.inp, name)
            impl.write_event_file(full, [(list(c), list(o)) for c, o in f['events']], freq=f.get('freq'))
            files.append({'path': path, 'events': f['events'], 'freq': f.get('freq')})
        if t.get('relative_paths'):
            os.chdir(cd.inp)
        cv = vectors(t.get('cue_vectors'), 'cues', 'cue_vector_dimensions')
        ov = vectors(t.get('outcome_vectors'), 'outcomes', 'outcome_vector_dimensions')
        res = {'steps': [], 'hostname': socket.gethostname(), 'username': getpass.getuser()}
        w = None          # the weights handed on (after a save_load: the LOADED object)
        twin = None       # after a save_load: the unsaved object, for one more call
        for si, step in enumerate(t['steps']):
            try:
                if step['kind'] == 'save_load':
                    if not isinstance(w, xr.DataArray):
                        res['steps'].append({'skipped': 'no DataArray to save'})
                        continue
                    w2, rep = save_load(w, os.path.join(cd.root, 'w%d.nc' % si))
                    res['steps'].append({'save_load': rep})
                    twin, w = w, w2
                    continue
                wn, passed = one_call(step, w, files, cv, ov)
                out = {'attrs': attrs_of(wn), 'passed_path': passed,
                       'type': 'da' if isinstance(wn, xr.DataArray) else 'dict',
                       'labels': sorted({k[0] for k in cells(wn)} | {k[1] for k in cells(wn)})[:40]}
                if twin is not None:
                    # the same call continued from the object that was never saved
                    wt, _ = one_call(step, twin, files, cv, ov)
                    c1, c2 = cells(wn), cells(wt)
                    diff = sorted(k for k in set(c1) | set(c2) if c1.get(k) != c2.get(k))
                    spool = step['learner'] == 'ndl' and step.get('form') == 'generator'
                    v1, v2 = entries_view(attrs_of(wn), spool), entries_view(attrs_of(wt), spool)
                    out['continued'] = {
                        'values_bit_identical': not diff,
                        'entries_identical': v1 == v2,
                    }
                    if diff:
                        out['continued']['first_diff'] = [list(diff[0]), c1.get(diff[0]), c2.get(diff[0])]
                    if v1 != v2:
                        out['continued']['entry_diff'] = {k: [v1.get(k), v2.get(k)]
                                                          for k in set(v1) | set(v2) if v1.get(k) != v2.get(k)}
                    twin = None
                w = wn
                res['steps'].append(out)
            except Exception as e:  # noqa
                r = err(e)
                r['at_step'] = si
                res['steps'].append(r)
                break
        return res
    finally:
        os.chdir(old_cwd)
        cd.close()


OPS = {'attrs_chain': op_attrs_chain}
