"""
C06 — binary event chunks round-trip and are read identically by every reader.
Lean (PyndlProps/C06.lean): magic_agree, version_agree (constants regenerated
from preprocess.py and ndl_parallel.pyx on every run), decode_encode,
kernel_decode_encode, kernel_decode_eq_py, kernel_buffer_never_overrun,
encoded_size, flatIndex_exact, bad_header_rejected(_py), good_chunks_consumed.
Correspondence: (i) write_events on small event lists x start/stop windows x
duplicate policy -> bytes compared byte-for-byte with the model's encodeChunk,
read_binary_file compared with decodeChunkPy (bounded-exhaustive in the
thorough tier); (ii) random events with 0..3000 ids per side, ids up to
2^32-1; (iii) compiled entry points on chunk files written by the MODEL
compared exactly with the model kernel on the decoded events; (iv) a bad-header
chunk (wrong magic, wrong version, legacy version 215) at every position of
lists of 1..4 chunks for all five entry points: exception class and weights =
learning the prefix only; (v) thorough: 70000 x 70000 sparse memmap, flat
index > 2^32; (vi) the Widrow-Hoff entry points (own copies of the buffer growth
and of the index arithmetic): events with 1025..1200 outcome ids, alone and
behind an event with 1250..1400 cue ids in the same chunk; one matrix with more
than 2^32 cells per entry point (b2r: weights and outcome table, r2b: cue
table, r2r: both tables; sparse backing files).
"""
import itertools

import gen
from common import rng, frac, Fraction

TIMEOUT = 300


def _sides(ids, maxlen):
    out = [[]]
    for k in range(1, maxlen + 1):
        out += [list(p) for p in itertools.product(ids, repeat=k)]
    return out


def canon_events(evs, policy):
    if policy == 'dedup':
        return [[sorted(c), sorted(o)] for c, o in evs]
    return [[list(c), list(o)] for c, o in evs]


def run(rep, pool, driver, tier):
    r = rng('C06')
    quick = tier == 'quick'
    _write_read(rep, pool, driver, r, quick)
    _kernels(rep, pool, driver, r, quick)
    _kernels_wh(rep, pool, driver, r, quick)
    _empty_file_list(rep, pool, driver)
    _kernels_wh_wide(rep, pool, driver, quick)
    _bad_header(rep, pool, driver, r, quick)
    # > 2^32 cells (sparse backing file): cheap, because the kernels only touch the requested rows;
    # also in the quick tier (seeded change C06_b: 32-bit multiply in the flat index)
    _sparse(rep, pool, driver, r)
    _sparse_wh(rep, pool, driver)


def _write_read(rep, pool, driver, r, quick):
    cases = []
    sides = _sides([0, 1], 2)
    events = [[c, o] for c in sides for o in sides]
    lists = [[]] + [[e] for e in events] + [[e, f] for e in events for f in events]
    windows = [(s, t) for s in range(0, 3) for t in range(s + 1, 4)]
    combos = [(l, w, p) for l in lists for w in windows for p in ('error', 'dedup', 'keep')]
    if quick:
        combos = r.sample(combos, 500)
    else:
        rep.extra['exhaustive_stream'] = 'small_exhaustive: all lists of <= 2 events over ids {0,1}, <= 2 ids per side, 6 windows, 3 policies'
    for l, (s, t), p in combos:
        cases.append(({'events': l, 'start': s, 'stop': t, 'policy': p}, 'small_exhaustive'))
    for i in range(25 if quick else 300):
        n = r.randint(1, 4)
        es = []
        for _ in range(n):
            kc = r.choice([0, 1, 3, 1024, 1025, r.randint(0, 3000)])
            ko = r.choice([0, 1, 2, 1024, 1025, r.randint(0, 3000)])
            hi = r.choice([5, 70000, 2 ** 32 - 1])
            es.append([[r.randint(0, hi) for _ in range(kc)], [r.randint(0, hi) for _ in range(ko)]])
        s = r.randint(0, n - 1)
        cases.append(({'events': es, 'start': s, 'stop': r.randint(s + 1, n + 1), 'policy': r.choice(['dedup', 'keep'])},
                      'random_wide'))
    # windows at and beyond the limits of the 4-byte count field: stop < start and stop - start >= 2^32 raise
    # OverflowError (to_bytes), 2^32 - 1 is the default (model: write_window_overflow / write_read_window)
    rw = rng('C06/window_limits')
    for es in ([], [[[0], [1]]], [[[0, 1], [1]], [[2], []], [[1], [0]]]):
        for s, t in ((3, 1), (1, 0), (0, 2 ** 32), (0, 2 ** 32 - 1), (1, 2 ** 32 + 1), (2, 2 ** 32 + 1), (0, 2 ** 40)):
            cases.append(({'events': es, 'start': s, 'stop': t, 'policy': rw.choice(['error', 'dedup', 'keep'])}, 'window_limits'))
    impls = pool.map([dict(c, op='write_events') for c, _ in cases])
    models = driver.ask([dict(c, op='encode') for c, _ in cases])
    dec_reqs, dec_idx = [], []
    for i, ((c, st), impl, model) in enumerate(zip(cases, impls, models)):
        if model['bytes'] is not None:
            dec_reqs.append({'op': 'decode', 'bytes': model['bytes']})
            dec_idx.append(i)
    decs = dict(zip(dec_idx, driver.ask(dec_reqs)))
    for i, ((c, st), impl, model) in enumerate(zip(cases, impls, models)):
        rep.case(c if st == 'small_exhaustive' else {'n': [len(e[0]) for e in c['events']], 'w': [c['start'], c['stop']]},
                 nontrivial=len(c['events']) >= 1, stream=st)
        rep.count('write_kind:' + model['kind'])
        prob = None
        if impl.get('kind') != model['kind']:
            prob = 'write_events result kind %r, model %r' % (impl.get('kind'), model['kind'])
        elif model['kind'] in ('ok', 'stopped'):
            if impl.get('n') != model['n']:
                prob = 'write_events reported %r events, model %r' % (impl.get('n'), model['n'])
            elif c['policy'] != 'dedup' and impl['bytes'] != model['bytes']:
                k = next((j for j in range(0, min(len(impl['bytes']), len(model['bytes'])), 2)
                          if impl['bytes'][j:j + 2] != model['bytes'][j:j + 2]), None)
                prob = 'bytes differ from encodeChunk at offset %r (lengths %d, %d)' % (
                    None if k is None else k // 2, len(impl['bytes']) // 2, len(model['bytes']) // 2)
            else:
                d = decs[i]
                want = canon_events(d['py']['events'], c['policy'])
                got = impl['read_back']
                if isinstance(got, dict):
                    prob = 'read_binary_file raised %s on a freshly written chunk' % got.get('err')
                elif canon_events(got, c['policy']) != want:
                    prob = 'read_binary_file returned %r, model decodeChunkPy %r' % (got[:3], want[:3])
                elif d['kernel'].get('events') != d['py']['events'] or not d['kernel'].get('cap_ok'):
                    prob = 'model: kernel reader and python reader disagree'
                elif len(impl['bytes']) != len(model['bytes']):
                    prob = 'file length differs'
                if d['kernel'].get('max_block', 0) > 1024:
                    rep.count('chunks_with_block_gt_1024')
        elif impl.get('file_exists'):
            if model['kind'] == 'empty':
                prob = 'empty window left a file behind'
        if prob:
            rep.violation({'what': prob, 'input': c if st == 'small_exhaustive' else {'start': c['start'], 'stop': c['stop'], 'policy': c['policy'], 'sizes': [[len(e[0]), len(e[1])] for e in c['events']]},
                           'observed': {k: (v if k != 'bytes' else (v or '')[:120]) for k, v in impl.items() if k != 'read_back'},
                           'expected': {'kind': model['kind'], 'n': model['n'], 'bytes': (model['bytes'] or '')[:120]},
                           'python': 'from pyndl import preprocess\nprint(preprocess.write_events(iter(%r), "x.dat", start=%d, stop=%d, remove_duplicates=%r))'
                                     % (c['events'] if st == 'small_exhaustive' else '...', c['start'], c['stop'], {'error': None, 'dedup': True, 'keep': False}[c['policy']]),
                           'theorem_or_stream': 'C06 decode_encode / writeEvents correspondence (%s)' % st})
        elif st == 'small_exhaustive' and len(c['events']) == 2 and model['kind'] == 'ok':
            rep.sample({'events': c['events'], 'window': [c['start'], c['stop']], 'policy': c['policy'], 'bytes': model['bytes']})


def _chunks_for(driver, chunk_events):
    reps = driver.ask([{'op': 'encode', 'events': es, 'start': 0, 'stop': len(es), 'policy': 'keep'} for es in chunk_events])
    return [x['bytes'] for x in reps]


def _kernels(rep, pool, driver, r, quick):
    tasks, reqs = [], []
    for i in range(30 if quick else 400):
        n_cues, n_out = r.randint(1, 6), r.randint(1, 6)
        wide = (i % 10 == 0)
        if wide:
            n_cues, n_out = r.choice([1100, 2000]), r.choice([3, 1100])
        chunk_events = []
        for _ in range(r.randint(1, 3)):
            es = []
            for _ in range(r.randint(1, 4)):
                kc = r.randint(1025, n_cues) if wide and n_cues > 1025 and r.random() < 0.7 else r.randint(0, min(n_cues, 4))
                ko = r.randint(1025, n_out) if wide and n_out > 1025 and r.random() < 0.5 else r.randint(0, min(n_out, 3))
                cs = r.sample(range(n_cues), kc) if wide else [r.randrange(n_cues) for _ in range(kc)]
                os_ = r.sample(range(n_out), ko)
                es.append([cs, os_])
            chunk_events.append(es)
        chunks = _chunks_for(driver, chunk_events)
        p = gen.params(r)
        rows = r.sample(range(n_out), r.randint(1, n_out))
        init = None if wide or r.random() < 0.5 else ['%d/%d' % (r.randint(-4, 4), r.choice([1, 2, 4])) for _ in range(n_cues * n_out)]
        for entry in ('par_b2b', 'omp_b2b'):
            ch, nj = r.randint(1, len(rows) + 1), r.choice([1, 2, 5])
            t = dict(p, op='kernel', entry=entry, chunks=chunks, shape=[n_out, n_cues], rows=rows, chunk=ch, n_jobs=nj, init=init)
            q = dict(p, op='kernel_b2b', entry='openmp' if entry == 'omp_b2b' else 'threading', chunks=chunks,
                     n_cues=n_cues, n_out=n_out, rows=rows, chunk=ch)
            if init is not None:
                q['init'] = init
            tasks.append(t)
            reqs.append(q)
    impls = pool.map(tasks)
    models = driver.ask(reqs)
    for t, impl, model in zip(tasks, impls, models):
        rep.case({'entry': t['entry'], 'shape': t['shape'], 'rows': t['rows'], 'chunks': [c[:64] for c in t['chunks']]},
                 nontrivial=True, stream='kernel_entry_points')
        rep.count('entry:' + t['entry'])
        exact = model['bits'] <= 53
        prob = None
        if 'err' in impl:
            prob = 'entry point raised %s: %s' % (impl['err'], impl.get('msg'))
        else:
            mc = {k: frac(v) for k, v in model['cells']}
            ic = {k: frac(v) for k, v in impl['cells']}
            for k in set(mc) | set(ic):
                a, b = ic.get(k, Fraction(0)), mc.get(k, Fraction(0))
                ok = (a == b) if exact else abs(a - b) <= Fraction(1, 2 ** 30) * max(1, abs(b))
                if not ok:
                    prob = 'flat cell %d (row %d, cue %d): kernel %s, model %s' % (k, k // t['shape'][1], k % t['shape'][1], float(a), float(b))
                    break
        if prob:
            rep.violation({'what': prob, 'input': {k: v for k, v in t.items() if k != 'init'}, 'observed': impl.get('cells', impl)[:8] if 'cells' in impl else impl,
                           'expected': model['cells'][:8], 'theorem_or_stream': 'C06 kernel_decode_encode + C01 kernelRowEvent_spec: %s on model-written chunks' % t['entry']})
        elif len(t['chunks']) > 1:
            rep.sample({'entry': t['entry'], 'shape': t['shape'], 'rows': t['rows'], 'n_chunks': len(t['chunks']), 'cells': impl['cells'][:4]})


def _empty_file_list(rep, pool, driver):
    """an EMPTY list of chunk files: the two binary->binary entry points report their initial error code
    (IOError — the reason ndl.ndl raises on a zero-event file, C06.empty_file_list_raises); the three
    Widrow-Hoff entry points return normally and leave the weights as they are"""
    p = {'alpha': '1/2', 'beta1': '1/4', 'beta2': '1/8', 'lambda': '1', 'eta': '1/4'}
    init = ['1/2', '-3/4', '0/1', '5/4']
    tasks, reqs = [], []
    for entry in ('par_b2b', 'omp_b2b'):
        tasks.append(dict(p, op='kernel', entry=entry, chunks=[], shape=[2, 2], rows=[0, 1], chunk=1, n_jobs=2, init=init))
        reqs.append(dict(p, op='kernel_b2b', entry='openmp' if entry == 'omp_b2b' else 'threading', chunks=[], n_cues=2, n_out=2,
                         rows=[0, 1], chunk=1, init=init))
    cv = [['1/1', '0/1'], ['1/2', '1/1']]
    ov = [['1/1', '-1/1'], ['0/1', '1/2']]
    for entry in ('omp_b2r', 'omp_r2b', 'omp_r2r'):
        tasks.append(dict(p, op='kernel', entry=entry, chunks=[], shape=[2, 2], chunk=1, n_jobs=2, cue_vectors=cv, outcome_vectors=ov))
        reqs.append(dict(p, op='kernel_wh', entry=entry, chunks=[], n_rows=2, n_cols=2, chunk=1, n_out_dims=2, cue_vectors=cv,
                         outcome_vectors=ov))
    impls = pool.map(tasks)
    models = driver.ask(reqs)
    for t, impl, model in zip(tasks, impls, models):
        rep.case({'entry': t['entry'], 'chunks': []}, nontrivial=True, stream='empty_file_list')
        want = model.get('err')
        got = impl.get('err')
        rep.count('empty_file_list:%s -> %s' % (t['entry'], want or 'returns'))
        prob = None
        if want != got:
            prob = 'empty file list: entry point %s %s, model %s' % (t['entry'], got or 'returns', want or 'returns')
        elif not want and any(frac(v) != 0 for _, v in impl.get('cells', [])) != any(frac(v) != 0 for _, v in model.get('cells', [])):
            prob = 'empty file list: weights changed'
        if prob:
            rep.violation({'what': prob, 'input': {k: v for k, v in t.items()}, 'observed': impl, 'expected': model,
                           'theorem_or_stream': 'C06 empty_file_list_raises / learnChunks [] (%s)' % t['entry']})


def _kernels_wh(rep, pool, driver, r, quick):
    """the three Widrow-Hoff entry points on model-written chunks vs the Lean kernel models"""
    tasks, reqs = [], []
    for i in range(24 if quick else 300):
        n_cues, n_outs = r.randint(1, 5), r.randint(1, 4)
        n_cd, n_od = r.randint(1, 4), r.randint(1, 4)
        wide = (i % 12 == 0)
        if wide:
            n_cues = 1100
        chunk_events = []
        for _ in range(r.randint(1, 3)):
            es = []
            for _ in range(r.randint(1, 3)):
                kc = r.randint(1025, n_cues) if wide and r.random() < 0.6 else r.randint(0, min(n_cues, 4))
                cs = r.sample(range(n_cues), kc) if wide else [r.randrange(n_cues) for _ in range(kc)]
                es.append([cs, [r.randrange(n_outs) for _ in range(r.randint(0, 3))]])
            chunk_events.append(es)
        chunks = _chunks_for(driver, chunk_events)
        p = dict(gen.params(r), eta=r.choice(['1/2', '1/4', '1/8']))
        cv = [['%d/%d' % (r.randint(-2, 2), r.choice([1, 2])) for _ in range(n_cd)] for _ in range(n_cues)]
        ov = [['%d/%d' % (r.randint(-2, 2), r.choice([1, 2])) for _ in range(n_od)] for _ in range(n_outs)]
        for entry in ('omp_b2r', 'omp_r2b', 'omp_r2r'):
            if wide and entry != 'omp_b2r':
                cvx = [row[:1] for row in cv]
            else:
                cvx = cv
            shape = {'omp_b2r': [n_od, n_cues], 'omp_r2b': [n_outs, len(cvx[0])], 'omp_r2r': [n_od, len(cvx[0])]}[entry]
            ch, nj = r.randint(1, shape[0] + 1), r.choice([1, 2, 5])
            t = dict(p, op='kernel', entry=entry, chunks=chunks, shape=shape, chunk=ch, n_jobs=nj,
                     cue_vectors=cvx, outcome_vectors=ov)
            q = dict(p, op='kernel_wh', entry=entry, chunks=chunks, n_rows=shape[0], n_cols=shape[1], chunk=ch,
                     n_out_dims=n_od, cue_vectors=cvx, outcome_vectors=ov)
            tasks.append(t)
            reqs.append(q)
    impls = pool.map(tasks)
    models = driver.ask(reqs)
    _judge_wh(rep, tasks, impls, models, 'kernel_entry_points_wh')


def _judge_wh(rep, tasks, impls, models, stream, side=None, pool=None, driver=None):
    for n, (t, impl, model) in enumerate(zip(tasks, impls, models)):
        rep.case({'entry': t['entry'], 'shape': t['shape'], 'chunks': [c[:64] for c in t['chunks']], 'cv': t['cue_vectors'][:3]},
                 nontrivial=True, stream=stream)
        rep.count('entry:' + t['entry'])
        prob = _diff_wh(impl, model)
        if prob and side is not None:
            # shrink on the event lists the chunks were encoded from
            q, ce = side[n]

            def fails(ce2):
                ch2 = _chunks_for(driver, ce2)
                return _diff_wh(pool.map([dict(t, chunks=ch2)])[0], driver.ask([dict(q, chunks=ch2)])[0]) is not None
            small, steps = _shrink_chunk_events(ce, fails)
            ch2 = _chunks_for(driver, small)
            impl2, model2 = pool.map([dict(t, chunks=ch2)])[0], driver.ask([dict(q, chunks=ch2)])[0]
            prob2 = _diff_wh(impl2, model2)
            if prob2 is None:
                small, prob2, impl2, model2 = ce, prob, impl, model
            rep.violation({'what': prob2, 'input': dict({k: v for k, v in t.items() if k not in ('cue_vectors', 'outcome_vectors', 'chunks')},
                                                        ids_per_event=[[[len(c), len(o)] for c, o in es] for es in small],
                                                        chunks=[c if len(c) <= 400 else c[:400] + '...' for c in ch2]),
                           'observed': impl2.get('cells', impl2)[:8] if 'cells' in impl2 else impl2, 'expected': model2['cells'][:8],
                           'shrink_steps': steps, 'shrunk_from_ids_per_event': [[[len(c), len(o)] for c, o in es] for es in ce],
                           'theorem_or_stream': 'C06 kernel_decode_encode + kernel_buffer_never_overrun + C08 wh*_eq_spec: %s on model-written chunks (%s)' % (t['entry'], stream)})
        elif prob:
            rep.violation({'what': prob, 'input': {k: v for k, v in t.items() if k not in ('cue_vectors', 'outcome_vectors')},
                           'observed': impl.get('cells', impl)[:8] if 'cells' in impl else impl, 'expected': model['cells'][:8],
                           'theorem_or_stream': 'C06 kernel_decode_encode + C08 wh*_eq_spec: %s on model-written chunks (%s)' % (t['entry'], stream)})


def _diff_wh(impl, model):
    exact = model['bits'] <= 53
    if 'err' in impl:
        return 'entry point raised %s: %s' % (impl['err'], impl.get('msg'))
    mc = {k: frac(v) for k, v in model['cells']}
    ic = {k: frac(v) for k, v in impl['cells']}
    for k in set(mc) | set(ic):
        a, b = ic.get(k, Fraction(0)), mc.get(k, Fraction(0))
        ok = (a == b) if exact else abs(a - b) <= Fraction(1, 2 ** 30) * max(1, abs(b))
        if not ok:
            return 'flat cell %d: kernel %s, model %s' % (k, float(a), float(b))
    return None


def _shrink_chunk_events(ce, fails, budget=24):
    """greedy: drop whole chunks, drop events, cut wide id lists down to 1025 / 1 ids"""
    cur, steps = [list(es) for es in ce], 0
    for i in reversed(range(len(cur))):
        if len(cur) > 1 and steps < budget:
            c = cur[:i] + cur[i + 1:]
            steps += 1
            if fails(c):
                cur = c
    for i in range(len(cur)):
        for j in reversed(range(len(cur[i]))):
            if len(cur[i]) > 1 and steps < budget:
                c = cur[:i] + [cur[i][:j] + cur[i][j + 1:]] + cur[i + 1:]
                steps += 1
                if fails(c):
                    cur = c
    for i in range(len(cur)):
        for j in range(len(cur[i])):
            for side in (0, 1):
                for keep in (1, 1025):
                    if len(cur[i][j][side]) > keep and steps < budget:
                        e = [list(cur[i][j][0]), list(cur[i][j][1])]
                        e[side] = e[side][:keep]
                        c = cur[:i] + [cur[i][:j] + [e] + cur[i][j + 1:]] + cur[i + 1:]
                        steps += 1
                        if fails(c):
                            cur = c
                            break
    return cur, steps


def _kernels_wh_wide(rep, pool, driver, quick):
    """the Widrow-Hoff entry points have their OWN copies of the buffer-growth code (ndl_parallel.pyx
    learn_inplace_{binary_to_real,real_to_real,real_to_binary}_ptr): events with more than 1024 OUTCOME ids
    (repeated ids from range(n_outs): every kernel takes any number of outcomes per event), alone and in the
    same chunk behind an event with even more cue ids (a growth test that looks at the wrong buffer size)."""
    r = rng('C06/wh_wide')
    tasks, reqs, side = [], [], []
    for i in range(4 if quick else 40):
        mode = 'outcomes' if i % 2 == 0 else 'both'
        n_outs = r.randint(1, 4)
        n_cd, n_od = r.randint(1, 3), r.randint(1, 4)
        n_cues = r.randint(1, 5) if mode == 'outcomes' else 1400
        small_c = lambda: [r.randrange(n_cues) for _ in range(r.randint(0, min(n_cues, 4)))]   # noqa
        small_o = lambda: [r.randrange(n_outs) for _ in range(r.randint(0, 3))]                # noqa
        wide_o = lambda: [r.randrange(n_outs) for _ in range(r.randint(1025, 1200))]           # noqa
        chunk_events = []
        for k in range(r.randint(1, 3)):
            es = []
            if mode == 'both' and k == 0:
                # more cue ids than the next event has outcome ids, both above the initial capacity 1024
                es.append([r.sample(range(n_cues), r.randint(1250, n_cues)), small_o()])
                es.append([small_c() if r.random() < 0.5 else r.sample(range(n_cues), r.randint(1025, 1100)), wide_o()])
            for _ in range(r.randint(1, 2)):
                es.append([small_c(), wide_o() if r.random() < 0.6 else small_o()])
            if mode == 'outcomes' and k == 0 and not any(len(e[1]) > 1024 for e in es):
                es.append([small_c(), wide_o()])
            r.shuffle(es) if mode == 'outcomes' else None
            chunk_events.append(es)
        chunks = _chunks_for(driver, chunk_events)
        p = dict(gen.params(r), eta=r.choice(['1/2', '1/4', '1/8']))
        cv = [['%d/%d' % (r.randint(-2, 2), r.choice([1, 2])) for _ in range(n_cd)] for _ in range(n_cues)]
        ov = [['%d/%d' % (r.randint(-2, 2), r.choice([1, 2])) for _ in range(n_od)] for _ in range(n_outs)]
        rep.count('wh_wide_mode:' + mode)
        rep.count('wh_wide_events_gt_1024_outcomes', sum(1 for es in chunk_events for e in es if len(e[1]) > 1024))
        rep.count('wh_wide_events_gt_1024_cues', sum(1 for es in chunk_events for e in es if len(e[0]) > 1024))
        for entry in ('omp_b2r', 'omp_r2b', 'omp_r2r'):
            cvx = [row[:1] for row in cv] if mode == 'both' and entry != 'omp_b2r' else cv
            shape = {'omp_b2r': [n_od, n_cues], 'omp_r2b': [n_outs, len(cvx[0])], 'omp_r2r': [n_od, len(cvx[0])]}[entry]
            ch, nj = r.randint(1, shape[0] + 1), r.choice([1, 2, 5])
            tasks.append(dict(p, op='kernel', entry=entry, chunks=chunks, shape=shape, chunk=ch, n_jobs=nj,
                              cue_vectors=cvx, outcome_vectors=ov))
            reqs.append(dict(p, op='kernel_wh', entry=entry, chunks=chunks, n_rows=shape[0], n_cols=shape[1], chunk=ch,
                             n_out_dims=n_od, cue_vectors=cvx, outcome_vectors=ov))
            rep.count('wh_wide_entry:%s:%s' % (entry, mode))
            side.append((reqs[-1], chunk_events))
    impls = pool.map(tasks)
    models = driver.ask(reqs)
    _judge_wh(rep, tasks, impls, models, 'kernel_entry_points_wh_wide_outcomes', side=side, pool=pool, driver=driver)


def _corrupt(hexs, kind):
    b = bytearray(bytes.fromhex(hexs))
    if kind == 'magic':
        b[0] ^= 0x01
    elif kind == 'magic_hi':
        b[3] ^= 0x80
    elif kind == 'version':
        b[4] ^= 0x01
    elif kind == 'legacy215':
        b[4:8] = (215).to_bytes(4, 'little')
    return bytes(b).hex()


def _bad_header(rep, pool, driver, r, quick):
    n_cues = n_out = 3
    tabs = {'cue_vectors': [['1', '0', '1/2'], ['0', '1', '0'], ['1/2', '1/2', '1']],
            'outcome_vectors': [['1', '0', '0'], ['0', '1', '1/2'], ['1/4', '0', '1']]}
    tasks, meta = [], []
    kinds = ['magic', 'version', 'legacy215', 'magic_hi']
    for n_chunks in (1, 2, 3, 4):
        for pos in range(n_chunks):
            for kind in (kinds if not quick else [kinds[(n_chunks + pos) % 4], kinds[(n_chunks + pos + 1) % 4]]):
                chunk_events = [[[[r.randrange(n_cues) for _ in range(r.randint(1, 3))], r.sample(range(n_out), r.randint(0, 2))]
                                 for _ in range(r.randint(1, 3))] for _ in range(n_chunks)]
                good = _chunks_for(driver, chunk_events)
                bad = list(good)
                bad[pos] = _corrupt(good[pos], kind)
                p = dict(gen.params(r), eta='1/4')
                for entry in ('par_b2b', 'omp_b2b', 'omp_b2r', 'omp_r2b', 'omp_r2r'):
                    base = dict(p, op='kernel', entry=entry, shape=[n_out, n_cues], rows=list(range(n_out)),
                                chunk=r.randint(1, 3), n_jobs=r.choice([1, 2, 4]), **tabs)
                    tasks.append(dict(base, chunks=bad))
                    tasks.append(dict(base, chunks=good[:pos]))
                    meta.append((entry, kind, pos, n_chunks))
                tasks.append({'op': 'read_binary', 'bytes': bad[pos]})
                tasks.append({'op': 'read_binary', 'bytes': good[pos]})
                meta.append(('py_reader', kind, pos, n_chunks))
    res = pool.map(tasks)
    for k, (entry, kind, pos, n_chunks) in enumerate(meta):
        a, b = res[2 * k], res[2 * k + 1]
        rep.case({'entry': entry, 'kind': kind, 'pos': pos, 'n': n_chunks, 'chunks': tasks[2 * k].get('chunks', tasks[2 * k].get('bytes'))},
                 nontrivial=n_chunks > 1, stream='bad_header')
        rep.count('bad_header:%s' % kind)
        rep.count('bad_header_entry:%s' % entry)
        prob = None
        if entry == 'py_reader':
            if a.get('err') not in ('Raised:Value', 'Raised:IO') or a.get('yielded_before_error', 1) != 0:
                prob = 'read_binary_file on a %s-corrupted header: %r (must raise before yielding any event)' % (kind, a)
            elif 'err' in b:
                prob = 'read_binary_file rejected a good chunk: %r' % b
        else:
            if a.get('err') != 'Raised:IO':
                prob = '%s with a %s-corrupted chunk at position %d of %d: %s (expected OSError)' % (
                    entry, kind, pos, n_chunks, a.get('err', 'no exception') + ' ' + a.get('cls', ''))
            elif 'err' in b and pos > 0:
                prob = '%s rejected the good prefix: %r' % (entry, b)
            elif 'cells' not in a or 'cells' not in b:
                prob = '%s: %r / prefix run %r' % (entry, {k: a.get(k) for k in ('err', 'msg')}, {k: b.get(k) for k in ('err', 'msg')})
            elif a['cells'] != b['cells']:
                prob = '%s learned from chunks at or behind the rejected one: weights %r, prefix-only %r' % (entry, a['cells'][:4], b['cells'][:4])
        if prob:
            rep.violation({'what': prob, 'input': tasks[2 * k], 'observed': a, 'expected': 'Raised:IO and weights of the prefix only',
                           'theorem_or_stream': 'C06 bad_header_rejected (%s)' % entry})
        elif n_chunks >= 3 and pos == 1:
            rep.sample({'entry': entry, 'kind': kind, 'pos': pos, 'n_chunks': n_chunks, 'outcome': a.get('err'), 'cells_equal_prefix': True})


def _sparse(rep, pool, driver, r):
    n = 70000
    for entry in ('par_b2b', 'omp_b2b'):
        rows = [n - 1, n - 2, 61357]
        cols = [n - 1, n - 3, 65536, 4097]
        es = [[[cols[0], cols[1]], [rows[0]]], [[cols[2], cols[0]], [rows[2], rows[1]]], [[cols[3]], []]]
        chunks = _chunks_for(driver, [es[:2], es[2:]])
        p = gen.params(r)
        t = dict(p, op='sparse_big', n=n, entry=entry, chunks=chunks, rows=rows, probe_cols=cols, chunk=2, n_jobs=2, _timeout=600)
        impl = pool.map([t], timeout=600)[0]
        # the model works on the compacted matrix (rows x probe columns): renaming equivariance (C13)
        cmap = {c: i for i, c in enumerate(cols)}
        rmap = {o: i for i, o in enumerate(rows)}
        es2 = [[[cmap[c] for c in cs], [rmap[o] for o in os_]] for cs, os_ in es]
        chunks2 = _chunks_for(driver, [es2[:2], es2[2:]])
        model = driver.ask([dict(p, op='kernel_b2b', entry='openmp' if entry == 'omp_b2b' else 'threading', chunks=chunks2,
                                 n_cues=len(cols), n_out=len(rows), rows=list(range(len(rows))), chunk=2)])[0]
        rep.case({'sparse': entry}, nontrivial=True, stream='sparse_70000')
        want = {}
        for k, v in model['cells']:
            o, c = rows[k // len(cols)], cols[k % len(cols)]
            want[o * n + c] = frac(v)
        got = {k: frac(v) for k, v in impl.get('cells', [])}
        if 'err' in impl or got != want or impl.get('low_rows_touched'):
            rep.violation({'what': '70000x70000 matrix: kernel cells %r, model %r, low rows touched: %r' % (
                sorted(got.items())[:4], sorted(want.items())[:4], impl.get('low_rows_touched')),
                'input': {k: v for k, v in t.items()}, 'theorem_or_stream': 'C06 flatIndex_exact (flat index > 2^32)'})
        else:
            rep.sample({'sparse_entry': entry, 'max_flat_index': max(want), 'cells': len(want)})
            rep.count('sparse_cells_checked', len(want))


def _sparse_wh(rep, pool, driver):
    """one matrix with more than 2^32 cells per Widrow-Hoff entry point (each kernel has its own copy of the 64-bit
    index arithmetic).  omp_b2r: the weight matrix 3 x (2^31+11) and the outcome-vector table (2^31+7) x 3;
    omp_r2b: the cue-vector table (2^31+11) x 3; omp_r2r: both tables.  The weight matrices of r2b / r2r are
    updated densely by every event (all n_cue_vector_dimensions columns of all rows), so a weight matrix with
    more than 2^32 cells is out of reach for them; their flat indices beyond 2^32 are those into the tables."""
    r = rng('C06/sparse_wh')
    n_c, n_o = 2 ** 31 + 11, 2 ** 31 + 7
    cues = [n_c - 1, n_c - 3, 2 ** 31, 1431655766, 65537, 4097]       # 3 * 1431655766 = 2^32 + 2
    outs_big = [n_o - 1, n_o - 2, 1431655766, 5]
    for entry in ('omp_b2r', 'omp_r2b', 'omp_r2r'):
        binary_out = entry == 'omp_r2b'
        outs = [0, 1, 2] if binary_out else outs_big
        es = []
        for _ in range(5):
            es.append([r.sample(cues, r.randint(1, 3)), r.sample(outs, r.randint(0, 2))])
        es[0] = [[cues[0], cues[1]], [outs[0]]]
        es[1] = [[cues[2], cues[3]], [outs[2], outs[1]]]
        p = dict(gen.params(r), eta=r.choice(['1/2', '1/4']))
        cv = [[r.choice(['-1', '-1/2', '1/2', '1', '3/2']) for _ in range(3)] for _ in cues]
        ov = [[r.choice(['-1', '-1/2', '1/2', '1', '3/2']) for _ in range(3)] for _ in outs_big]
        chunks = _chunks_for(driver, [es[:2], es[2:]])
        t = dict(p, op='sparse_big_wh', entry=entry, chunks=chunks, chunk=2, n_jobs=2, n_cd=3, n_od=3, n_rows=3,
                 n_cols=n_c, n_cue_rows=n_c, n_out_rows=n_o, probe_cols=cues,
                 cue_rows=[[c, row] for c, row in zip(cues, cv)], out_rows=[[o, row] for o, row in zip(outs_big, ov)], _timeout=600)
        impl = pool.map([t], timeout=600)[0]
        # the model works on the compacted tables (renaming equivariance, C13)
        cmap = {c: i for i, c in enumerate(cues)}
        omap = {o: i for i, o in enumerate(outs)}
        es2 = [[[cmap[c] for c in cs], [omap[o] for o in os_]] for cs, os_ in es]
        chunks2 = _chunks_for(driver, [es2[:2], es2[2:]])
        n_cols = len(cues) if entry == 'omp_b2r' else 3
        model = driver.ask([dict(p, op='kernel_wh', entry=entry, chunks=chunks2, n_rows=3, n_cols=n_cols, chunk=2, n_out_dims=3,
                                 cue_vectors=cv, outcome_vectors=ov)])[0]
        rep.case({'sparse_wh': entry, 'events': es}, nontrivial=True, stream='sparse_wh_gt_2^32_cells')
        want = {}
        for k, v in model['cells']:
            row, col = k // n_cols, k % n_cols
            want[(row, cues[col] if entry == 'omp_b2r' else col)] = frac(v)
        got = {(o, c): frac(v) for (o, c), v in impl.get('cells', [])}
        exact = model['bits'] <= 53
        bad = [k for k in set(want) | set(got)
               if not ((got.get(k, Fraction(0)) == want.get(k, Fraction(0))) if exact else
                       abs(got.get(k, Fraction(0)) - want.get(k, Fraction(0))) <= Fraction(1, 2 ** 30) * max(1, abs(want.get(k, Fraction(0)))))]
        if 'err' in impl or bad or impl.get('low_touched'):
            rep.violation({'what': '%s with a matrix of more than 2^32 cells (%r cells): %s' % (
                entry, impl.get('table_cells'), impl.get('err') or ('low cells touched' if not bad else 'weight[%r] kernel %s, model %s' % (
                    list(bad[0]), float(got.get(bad[0], 0)), float(want.get(bad[0], 0))))),
                'input': {k: v for k, v in t.items() if k != 'chunks'}, 'events': es,
                'observed': sorted([list(k), float(v)] for k, v in got.items())[:8], 'expected': sorted([list(k), float(v)] for k, v in want.items())[:8],
                'theorem_or_stream': 'C06 flatIndex_exact (flat index > 2^32) for %s' % entry})
        else:
            rep.sample({'sparse_wh_entry': entry, 'table_cells': impl.get('table_cells'), 'cells': len(want)})
            rep.count('sparse_wh_entry:' + entry)
            rep.count('sparse_wh_cells_checked', len(want))
            rep.count('sparse_wh_domain:' + ('exact' if exact else 'tolerance'))
