"""
C06 — binary event chunks round-trip and are read identically by every reader.
Lean (PyndlProps/C06.lean): magic_agree, version_agree (constants regenerated
from preprocess.py and ndl_parallel.pyx on every run), decode_encode,
kernel_decode_encode, kernel_decode_eq_py, kernel_buffer_never_overrun,
encoded_size, flatIndex_exact, bad_header_rejected(_py), good_chunks_consumed.
Correspondence: (i) write_events on small event lists x start/stop windows x
duplicate policy -> bytes compared byte-for-byte with the model's encodeChunk,
read_binary_file compared with decodeChunkPy (bounded-exhaustive in the
thorough tier); (ii) random events with 0..3000 ids per side, ids up to
2^32-1; (iii) compiled entry points on chunk files written by the MODEL
compared exactly with the model kernel on the decoded events; (iv) a bad-header
chunk (wrong magic, wrong version, legacy version 215) at every position of
lists of 1..4 chunks for all five entry points: exception class and weights =
learning the prefix only; (v) thorough: 70000 x 70000 sparse memmap, flat
index > 2^32.
"""
import itertools

import gen
from common import rng, frac, Fraction

TIMEOUT = 300


def _sides(ids, maxlen):
    out = [[]]
    for k in range(1, maxlen + 1):
        out += [list(p) for p in itertools.product(ids, repeat=k)]
    return out


def canon_events(evs, policy):
    if policy == 'dedup':
        return [[sorted(c), sorted(o)] for c, o in evs]
    return [[list(c), list(o)] for c, o in evs]


def run(rep, pool, driver, tier):
    r = rng('C06')
    quick = tier == 'quick'
    _write_read(rep, pool, driver, r, quick)
    _kernels(rep, pool, driver, r, quick)
    _kernels_wh(rep, pool, driver, r, quick)
    _bad_header(rep, pool, driver, r, quick)
    # > 2^32 cells (sparse backing file): cheap, because the kernels only touch the requested rows;
    # also in the quick tier (seeded change C06_b: 32-bit multiply in the flat index)
    _sparse(rep, pool, driver, r)


def _write_read(rep, pool, driver, r, quick):
    cases = []
    sides = _sides([0, 1], 2)
    events = [[c, o] for c in sides for o in sides]
    lists = [[]] + [[e] for e in events] + [[e, f] for e in events for f in events]
    windows = [(s, t) for s in range(0, 3) for t in range(s + 1, 4)]
    combos = [(l, w, p) for l in lists for w in windows for p in ('error', 'dedup', 'keep')]
    if quick:
        combos = r.sample(combos, 500)
    else:
        rep.extra['exhaustive_stream'] = 'small_exhaustive: all lists of <= 2 events over ids {0,1}, <= 2 ids per side, 6 windows, 3 policies'
    for l, (s, t), p in combos:
        cases.append(({'events': l, 'start': s, 'stop': t, 'policy': p}, 'small_exhaustive'))
    for i in range(25 if quick else 300):
        n = r.randint(1, 4)
        es = []
        for _ in range(n):
            kc = r.choice([0, 1, 3, 1024, 1025, r.randint(0, 3000)])
            ko = r.choice([0, 1, 2, 1024, 1025, r.randint(0, 3000)])
            hi = r.choice([5, 70000, 2 ** 32 - 1])
            es.append([[r.randint(0, hi) for _ in range(kc)], [r.randint(0, hi) for _ in range(ko)]])
        s = r.randint(0, n - 1)
        cases.append(({'events': es, 'start': s, 'stop': r.randint(s + 1, n + 1), 'policy': r.choice(['dedup', 'keep'])},
                      'random_wide'))
    impls = pool.map([dict(c, op='write_events') for c, _ in cases])
    models = driver.ask([dict(c, op='encode') for c, _ in cases])
    dec_reqs, dec_idx = [], []
    for i, ((c, st), impl, model) in enumerate(zip(cases, impls, models)):
        if model['bytes'] is not None:
            dec_reqs.append({'op': 'decode', 'bytes': model['bytes']})
            dec_idx.append(i)
    decs = dict(zip(dec_idx, driver.ask(dec_reqs)))
    for i, ((c, st), impl, model) in enumerate(zip(cases, impls, models)):
        rep.case(c if st == 'small_exhaustive' else {'n': [len(e[0]) for e in c['events']], 'w': [c['start'], c['stop']]},
                 nontrivial=len(c['events']) >= 1, stream=st)
        rep.count('write_kind:' + model['kind'])
        prob = None
        if impl.get('kind') != model['kind']:
            prob = 'write_events result kind %r, model %r' % (impl.get('kind'), model['kind'])
        elif model['kind'] in ('ok', 'stopped'):
            if impl.get('n') != model['n']:
                prob = 'write_events reported %r events, model %r' % (impl.get('n'), model['n'])
            elif c['policy'] != 'dedup' and impl['bytes'] != model['bytes']:
                k = next((j for j in range(0, min(len(impl['bytes']), len(model['bytes'])), 2)
                          if impl['bytes'][j:j + 2] != model['bytes'][j:j + 2]), None)
                prob = 'bytes differ from encodeChunk at offset %r (lengths %d, %d)' % (
                    None if k is None else k // 2, len(impl['bytes']) // 2, len(model['bytes']) // 2)
            else:
                d = decs[i]
                want = canon_events(d['py']['events'], c['policy'])
                got = impl['read_back']
                if isinstance(got, dict):
                    prob = 'read_binary_file raised %s on a freshly written chunk' % got.get('err')
                elif canon_events(got, c['policy']) != want:
                    prob = 'read_binary_file returned %r, model decodeChunkPy %r' % (got[:3], want[:3])
                elif d['kernel'].get('events') != d['py']['events'] or not d['kernel'].get('cap_ok'):
                    prob = 'model: kernel reader and python reader disagree'
                elif len(impl['bytes']) != len(model['bytes']):
                    prob = 'file length differs'
                if d['kernel'].get('max_block', 0) > 1024:
                    rep.count('chunks_with_block_gt_1024')
        elif impl.get('file_exists'):
            if model['kind'] == 'empty':
                prob = 'empty window left a file behind'
        if prob:
            rep.violation({'what': prob, 'input': c if st == 'small_exhaustive' else {'start': c['start'], 'stop': c['stop'], 'policy': c['policy'], 'sizes': [[len(e[0]), len(e[1])] for e in c['events']]},
                           'observed': {k: (v if k != 'bytes' else (v or '')[:120]) for k, v in impl.items() if k != 'read_back'},
                           'expected': {'kind': model['kind'], 'n': model['n'], 'bytes': (model['bytes'] or '')[:120]},
                           'python': 'from pyndl import preprocess\nprint(preprocess.write_events(iter(%r), "x.dat", start=%d, stop=%d, remove_duplicates=%r))'
                                     % (c['events'] if st == 'small_exhaustive' else '...', c['start'], c['stop'], {'error': None, 'dedup': True, 'keep': False}[c['policy']]),
                           'theorem_or_stream': 'C06 decode_encode / writeEvents correspondence (%s)' % st})
        elif st == 'small_exhaustive' and len(c['events']) == 2 and model['kind'] == 'ok':
            rep.sample({'events': c['events'], 'window': [c['start'], c['stop']], 'policy': c['policy'], 'bytes': model['bytes']})


def _chunks_for(driver, chunk_events):
    reps = driver.ask([{'op': 'encode', 'events': es, 'start': 0, 'stop': len(es), 'policy': 'keep'} for es in chunk_events])
    return [x['bytes'] for x in reps]


def _kernels(rep, pool, driver, r, quick):
    tasks, reqs = [], []
    for i in range(30 if quick else 400):
        n_cues, n_out = r.randint(1, 6), r.randint(1, 6)
        wide = (i % 10 == 0)
        if wide:
            n_cues, n_out = r.choice([1100, 2000]), r.choice([3, 1100])
        chunk_events = []
        for _ in range(r.randint(1, 3)):
            es = []
            for _ in range(r.randint(1, 4)):
                kc = r.randint(1025, n_cues) if wide and n_cues > 1025 and r.random() < 0.7 else r.randint(0, min(n_cues, 4))
                ko = r.randint(1025, n_out) if wide and n_out > 1025 and r.random() < 0.5 else r.randint(0, min(n_out, 3))
                cs = r.sample(range(n_cues), kc) if wide else [r.randrange(n_cues) for _ in range(kc)]
                os_ = r.sample(range(n_out), ko)
                es.append([cs, os_])
            chunk_events.append(es)
        chunks = _chunks_for(driver, chunk_events)
        p = gen.params(r)
        rows = r.sample(range(n_out), r.randint(1, n_out))
        init = None if wide or r.random() < 0.5 else ['%d/%d' % (r.randint(-4, 4), r.choice([1, 2, 4])) for _ in range(n_cues * n_out)]
        for entry in ('par_b2b', 'omp_b2b'):
            ch, nj = r.randint(1, len(rows) + 1), r.choice([1, 2, 5])
            t = dict(p, op='kernel', entry=entry, chunks=chunks, shape=[n_out, n_cues], rows=rows, chunk=ch, n_jobs=nj, init=init)
            q = dict(p, op='kernel_b2b', entry='openmp' if entry == 'omp_b2b' else 'threading', chunks=chunks,
                     n_cues=n_cues, n_out=n_out, rows=rows, chunk=ch)
            if init is not None:
                q['init'] = init
            tasks.append(t)
            reqs.append(q)
    impls = pool.map(tasks)
    models = driver.ask(reqs)
    for t, impl, model in zip(tasks, impls, models):
        rep.case({'entry': t['entry'], 'shape': t['shape'], 'rows': t['rows'], 'chunks': [c[:64] for c in t['chunks']]},
                 nontrivial=True, stream='kernel_entry_points')
        rep.count('entry:' + t['entry'])
        exact = model['bits'] <= 53
        prob = None
        if 'err' in impl:
            prob = 'entry point raised %s: %s' % (impl['err'], impl.get('msg'))
        else:
            mc = {k: frac(v) for k, v in model['cells']}
            ic = {k: frac(v) for k, v in impl['cells']}
            for k in set(mc) | set(ic):
                a, b = ic.get(k, Fraction(0)), mc.get(k, Fraction(0))
                ok = (a == b) if exact else abs(a - b) <= Fraction(1, 2 ** 30) * max(1, abs(b))
                if not ok:
                    prob = 'flat cell %d (row %d, cue %d): kernel %s, model %s' % (k, k // t['shape'][1], k % t['shape'][1], float(a), float(b))
                    break
        if prob:
            rep.violation({'what': prob, 'input': {k: v for k, v in t.items() if k != 'init'}, 'observed': impl.get('cells', impl)[:8] if 'cells' in impl else impl,
                           'expected': model['cells'][:8], 'theorem_or_stream': 'C06 kernel_decode_encode + C01 kernelRowEvent_spec: %s on model-written chunks' % t['entry']})
        elif len(t['chunks']) > 1:
            rep.sample({'entry': t['entry'], 'shape': t['shape'], 'rows': t['rows'], 'n_chunks': len(t['chunks']), 'cells': impl['cells'][:4]})


def _kernels_wh(rep, pool, driver, r, quick):
    """the three Widrow-Hoff entry points on model-written chunks vs the Lean kernel models"""
    tasks, reqs = [], []
    for i in range(24 if quick else 300):
        n_cues, n_outs = r.randint(1, 5), r.randint(1, 4)
        n_cd, n_od = r.randint(1, 4), r.randint(1, 4)
        wide = (i % 12 == 0)
        if wide:
            n_cues = 1100
        chunk_events = []
        for _ in range(r.randint(1, 3)):
            es = []
            for _ in range(r.randint(1, 3)):
                kc = r.randint(1025, n_cues) if wide and r.random() < 0.6 else r.randint(0, min(n_cues, 4))
                cs = r.sample(range(n_cues), kc) if wide else [r.randrange(n_cues) for _ in range(kc)]
                es.append([cs, [r.randrange(n_outs) for _ in range(r.randint(0, 3))]])
            chunk_events.append(es)
        chunks = _chunks_for(driver, chunk_events)
        p = dict(gen.params(r), eta=r.choice(['1/2', '1/4', '1/8']))
        cv = [['%d/%d' % (r.randint(-2, 2), r.choice([1, 2])) for _ in range(n_cd)] for _ in range(n_cues)]
        ov = [['%d/%d' % (r.randint(-2, 2), r.choice([1, 2])) for _ in range(n_od)] for _ in range(n_outs)]
        for entry in ('omp_b2r', 'omp_r2b', 'omp_r2r'):
            if wide and entry != 'omp_b2r':
                cvx = [row[:1] for row in cv]
            else:
                cvx = cv
            shape = {'omp_b2r': [n_od, n_cues], 'omp_r2b': [n_outs, len(cvx[0])], 'omp_r2r': [n_od, len(cvx[0])]}[entry]
            ch, nj = r.randint(1, shape[0] + 1), r.choice([1, 2, 5])
            t = dict(p, op='kernel', entry=entry, chunks=chunks, shape=shape, chunk=ch, n_jobs=nj,
                     cue_vectors=cvx, outcome_vectors=ov)
            q = dict(p, op='kernel_wh', entry=entry, chunks=chunks, n_rows=shape[0], n_cols=shape[1], chunk=ch,
                     n_out_dims=n_od, cue_vectors=cvx, outcome_vectors=ov)
            tasks.append(t)
            reqs.append(q)
    impls = pool.map(tasks)
    models = driver.ask(reqs)
    for t, impl, model in zip(tasks, impls, models):
        rep.case({'entry': t['entry'], 'shape': t['shape'], 'chunks': [c[:64] for c in t['chunks']], 'cv': t['cue_vectors'][:3]},
                 nontrivial=True, stream='kernel_entry_points_wh')
        rep.count('entry:' + t['entry'])
        exact = model['bits'] <= 53
        prob = None
        if 'err' in impl:
            prob = 'entry point raised %s: %s' % (impl['err'], impl.get('msg'))
        else:
            mc = {k: frac(v) for k, v in model['cells']}
            ic = {k: frac(v) for k, v in impl['cells']}
            for k in set(mc) | set(ic):
                a, b = ic.get(k, Fraction(0)), mc.get(k, Fraction(0))
                ok = (a == b) if exact else abs(a - b) <= Fraction(1, 2 ** 30) * max(1, abs(b))
                if not ok:
                    prob = 'flat cell %d: kernel %s, model %s' % (k, float(a), float(b))
                    break
        if prob:
            rep.violation({'what': prob, 'input': {k: v for k, v in t.items() if k not in ('cue_vectors', 'outcome_vectors')},
                           'observed': impl.get('cells', impl)[:8] if 'cells' in impl else impl, 'expected': model['cells'][:8],
                           'theorem_or_stream': 'C06 kernel_decode_encode + C08 wh*_eq_spec: %s on model-written chunks' % t['entry']})


def _corrupt(hexs, kind):
    b = bytearray(bytes.fromhex(hexs))
    if kind == 'magic':
        b[0] ^= 0x01
    elif kind == 'magic_hi':
        b[3] ^= 0x80
    elif kind == 'version':
        b[4] ^= 0x01
    elif kind == 'legacy215':
        b[4:8] = (215).to_bytes(4, 'little')
    return bytes(b).hex()


def _bad_header(rep, pool, driver, r, quick):
    n_cues = n_out = 3
    tabs = {'cue_vectors': [['1', '0', '1/2'], ['0', '1', '0'], ['1/2', '1/2', '1']],
            'outcome_vectors': [['1', '0', '0'], ['0', '1', '1/2'], ['1/4', '0', '1']]}
    tasks, meta = [], []
    kinds = ['magic', 'version', 'legacy215', 'magic_hi']
    for n_chunks in (1, 2, 3, 4):
        for pos in range(n_chunks):
            for kind in (kinds if not quick else [kinds[(n_chunks + pos) % 4], kinds[(n_chunks + pos + 1) % 4]]):
                chunk_events = [[[[r.randrange(n_cues) for _ in range(r.randint(1, 3))], r.sample(range(n_out), r.randint(0, 2))]
                                 for _ in range(r.randint(1, 3))] for _ in range(n_chunks)]
                good = _chunks_for(driver, chunk_events)
                bad = list(good)
                bad[pos] = _corrupt(good[pos], kind)
                p = dict(gen.params(r), eta='1/4')
                for entry in ('par_b2b', 'omp_b2b', 'omp_b2r', 'omp_r2b', 'omp_r2r'):
                    base = dict(p, op='kernel', entry=entry, shape=[n_out, n_cues], rows=list(range(n_out)),
                                chunk=r.randint(1, 3), n_jobs=r.choice([1, 2, 4]), **tabs)
                    tasks.append(dict(base, chunks=bad))
                    tasks.append(dict(base, chunks=good[:pos]))
                    meta.append((entry, kind, pos, n_chunks))
                tasks.append({'op': 'read_binary', 'bytes': bad[pos]})
                tasks.append({'op': 'read_binary', 'bytes': good[pos]})
                meta.append(('py_reader', kind, pos, n_chunks))
    res = pool.map(tasks)
    for k, (entry, kind, pos, n_chunks) in enumerate(meta):
        a, b = res[2 * k], res[2 * k + 1]
        rep.case({'entry': entry, 'kind': kind, 'pos': pos, 'n': n_chunks, 'chunks': tasks[2 * k].get('chunks', tasks[2 * k].get('bytes'))},
                 nontrivial=n_chunks > 1, stream='bad_header')
        rep.count('bad_header:%s' % kind)
        rep.count('bad_header_entry:%s' % entry)
        prob = None
        if entry == 'py_reader':
            if a.get('err') not in ('Raised:Value', 'Raised:IO') or a.get('yielded_before_error', 1) != 0:
                prob = 'read_binary_file on a %s-corrupted header: %r (must raise before yielding any event)' % (kind, a)
            elif 'err' in b:
                prob = 'read_binary_file rejected a good chunk: %r' % b
        else:
            if a.get('err') != 'Raised:IO':
                prob = '%s with a %s-corrupted chunk at position %d of %d: %s (expected OSError)' % (
                    entry, kind, pos, n_chunks, a.get('err', 'no exception') + ' ' + a.get('cls', ''))
            elif 'err' in b and pos > 0:
                prob = '%s rejected the good prefix: %r' % (entry, b)
            elif a['cells'] != b['cells']:
                prob = '%s learned from chunks at or behind the rejected one: weights %r, prefix-only %r' % (entry, a['cells'][:4], b['cells'][:4])
        if prob:
            rep.violation({'what': prob, 'input': tasks[2 * k], 'observed': a, 'expected': 'Raised:IO and weights of the prefix only',
                           'theorem_or_stream': 'C06 bad_header_rejected (%s)' % entry})
        elif n_chunks >= 3 and pos == 1:
            rep.sample({'entry': entry, 'kind': kind, 'pos': pos, 'n_chunks': n_chunks, 'outcome': a.get('err'), 'cells_equal_prefix': True})


def _sparse(rep, pool, driver, r):
    n = 70000
    for entry in ('par_b2b', 'omp_b2b'):
        rows = [n - 1, n - 2, 61357]
        cols = [n - 1, n - 3, 65536, 4097]
        es = [[[cols[0], cols[1]], [rows[0]]], [[cols[2], cols[0]], [rows[2], rows[1]]], [[cols[3]], []]]
        chunks = _chunks_for(driver, [es[:2], es[2:]])
        p = gen.params(r)
        t = dict(p, op='sparse_big', n=n, entry=entry, chunks=chunks, rows=rows, probe_cols=cols, chunk=2, n_jobs=2, _timeout=600)
        impl = pool.map([t], timeout=600)[0]
        # the model works on the compacted matrix (rows x probe columns): renaming equivariance (C13)
        cmap = {c: i for i, c in enumerate(cols)}
        rmap = {o: i for i, o in enumerate(rows)}
        es2 = [[[cmap[c] for c in cs], [rmap[o] for o in os_]] for cs, os_ in es]
        chunks2 = _chunks_for(driver, [es2[:2], es2[2:]])
        model = driver.ask([dict(p, op='kernel_b2b', entry='openmp' if entry == 'omp_b2b' else 'threading', chunks=chunks2,
                                 n_cues=len(cols), n_out=len(rows), rows=list(range(len(rows))), chunk=2)])[0]
        rep.case({'sparse': entry}, nontrivial=True, stream='sparse_70000')
        want = {}
        for k, v in model['cells']:
            o, c = rows[k // len(cols)], cols[k % len(cols)]
            want[o * n + c] = frac(v)
        got = {k: frac(v) for k, v in impl.get('cells', [])}
        if 'err' in impl or got != want or impl.get('low_rows_touched'):
            rep.violation({'what': '70000x70000 matrix: kernel cells %r, model %r, low rows touched: %r' % (
                sorted(got.items())[:4], sorted(want.items())[:4], impl.get('low_rows_touched')),
                'input': {k: v for k, v in t.items()}, 'theorem_or_stream': 'C06 flatIndex_exact (flat index > 2^32)'})
        else:
            rep.sample({'sparse_entry': entry, 'max_flat_index': max(want), 'cells': len(want)})
            rep.count('sparse_cells_checked', len(want))
