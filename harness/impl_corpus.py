"""
Implementation-side ops for C19 (pyndl.corpus).  The harness — not the model —
turns the JSON description of a subtitle tree into real gzip XML files,
symlinks and directories below the worker's cwd; the ops then call the real
`pyndl.corpus` functions and read the files they wrote back as UTF-8 text.
"""
import contextlib
import gzip
import io
import os
import shutil
import tempfile
from fractions import Fraction
from xml.sax.saxutils import escape, quoteattr

WORK = os.getcwd()


def classify(exc):
    if isinstance(exc, KeyError):
        return 'Raised:Key'
    if isinstance(exc, ValueError):
        return 'Raised:Value'
    if isinstance(exc, OSError):
        return 'Raised:IO'
    if isinstance(exc, TypeError):
        return 'Raised:Type'
    return 'Raised:Other'


def document_xml(doc):
    """the documented OpenSubtitles layout: <document><s><time/><w>..</w>..</s></document>"""
    out = ['<?xml version="1.0" encoding="utf-8"?>\n<document id="1">\n']
    for si, s in enumerate(doc):
        out.append('  <s id="%d">\n' % (si + 1))
        ws, ts = list(s['w']), list(s['t'])
        layout = list(s.get('layout') or (['t'] * len(ts) + ['w'] * len(ws)))
        wi = ti = 0
        for kind in layout + ['t'] * len(ts) + ['w'] * len(ws):
            if kind == 't' and ti < len(ts):
                out.append('    <time id=%s value=%s />\n' % (quoteattr(ts[ti][0]), quoteattr(ts[ti][1])))
                ti += 1
            elif kind == 'w' and wi < len(ws):
                w = ws[wi]
                wi += 1
                if w is None:
                    out.append('    <w id="%d.%d"></w>\n' % (si + 1, wi) if wi % 2 else '    <w id="%d.%d" />\n' % (si + 1, wi))
                else:
                    out.append('    <w id="%d.%d">%s</w>\n' % (si + 1, wi, escape(w)))
        out.append('  </s>\n')
    out.append('</document>\n')
    return ''.join(out)


def write_gz(path, doc, bom=False):
    with gzip.open(path, 'wt', encoding='utf-8-sig' if bom else 'utf-8', newline='\n') as f:
        f.write(document_xml(doc))


def build_tree(root, directory, tree, links=(), bom=False):
    """
    Create `tree` (list of [relative path, entry]) below root/directory.
    Every path in `links` (a file or a directory prefix) becomes a symlink to a
    location outside the walked directory that holds the real content.
    """
    base = os.path.normpath(os.path.join(root, directory))
    os.makedirs(base, exist_ok=True)
    outside = os.path.join(root, '__outside__')
    links = list(links)

    def physical(rel):
        for k, l in enumerate(links):
            if rel == l or rel.startswith(l + '/'):
                return os.path.join(outside, 'L%d' % k) + rel[len(l):]
        return os.path.join(base, rel)

    used = set()
    for rel, entry in tree:
        p = physical(rel)
        for k, l in enumerate(links):
            if rel == l or rel.startswith(l + '/'):
                used.add(k)
        if entry == 'dir':
            os.makedirs(p, exist_ok=True)
            continue
        os.makedirs(os.path.dirname(p), exist_ok=True)
        if entry == 'dangling':
            os.symlink(os.path.join(outside, 'does-not-exist', os.path.basename(rel)), p)
        elif entry == 'notgzip':
            with open(p, 'w', encoding='utf-8') as f:
                f.write('this is not gzip data\n')
        else:
            write_gz(p, entry['doc'], bom=bom)
    for k, l in enumerate(links):
        if k in used:
            lp = os.path.join(base, l)
            os.makedirs(os.path.dirname(lp), exist_ok=True)
            os.symlink(os.path.abspath(os.path.join(outside, 'L%d' % k)), lp)


def read_text(path):
    with open(path, 'rb') as f:
        return f.read().decode('utf-8')


def snapshot(root, skip):
    """{relative path: content} of every regular file below root outside the skipped top-level names"""
    out = {}
    for r, dirs, files in os.walk(root):
        if r == root:
            dirs[:] = [d for d in dirs if d not in skip]
        for n in files:
            p = os.path.join(r, n)
            out[os.path.relpath(p, root)] = read_text(p)
    return out


def op_corpus_create(t):
    """one call of pyndl.corpus.create_corpus_from_gz in a private directory (cwd = that directory)"""
    from pyndl import corpus
    root = tempfile.mkdtemp(prefix='corpus-', dir=WORK)
    old = os.getcwd()
    try:
        os.chdir(root)
        directory, outfile = t['directory'], t['outfile']
        top = os.path.normpath(directory).split('/')[0]
        if t.get('dir_exists', True):
            build_tree(root, directory, t['tree'], t.get('links', ()), bom=bool(t.get('bom')))
        if os.path.dirname(outfile):
            os.makedirs(os.path.dirname(outfile), exist_ok=True)
        for name in t.get('existing', []):
            with open(name, 'w', encoding='utf-8') as f:
                f.write('PRE-EXISTING ' + name + '\n')
        skip = {top, '__outside__'}
        before = snapshot(root, skip)
        res = {'raised': None}
        # X1: with t['verbose'] the `if verbose:` blocks run as well (start_time / duration, progress every
        # 1000 files); what they print is captured in memory
        vkw = {'verbose': True} if t.get('verbose') else {}
        try:
            with contextlib.redirect_stdout(io.StringIO()):
                ret = corpus.create_corpus_from_gz(directory, outfile, n_threads=int(t['n_threads']), **vkw)
            if ret is not None:
                res['returned'] = repr(ret)[:100]
        except Exception as e:  # noqa
            res = {'raised': classify(e), 'cls': type(e).__name__, 'msg': str(e)[:300]}
        after = snapshot(root, skip)
        res['existing_unchanged'] = all(after.get(k) == v for k, v in before.items())
        res['new_files'] = {k: v for k, v in after.items() if k not in before}
        return res
    finally:
        os.chdir(old)
        shutil.rmtree(root, ignore_errors=True)


def op_corpus_read_clean(t):
    """list(pyndl.corpus.read_clean_gzfile(file, break_duration=…)) on one written file"""
    from pyndl import corpus
    root = tempfile.mkdtemp(prefix='corpus-', dir=WORK)
    try:
        p = os.path.join(root, 'doc.xml.gz')
        write_gz(p, t['doc'], bom=bool(t.get('bom')))
        try:
            kw = {}
            if t.get('break') is not None:
                kw['break_duration'] = float(Fraction(t['break']))
            else:
                kw['break_duration'] = 5.0
            return {'lines': list(corpus.read_clean_gzfile(p, **kw))}
        except Exception as e:  # noqa
            return {'err': classify(e), 'cls': type(e).__name__, 'msg': str(e)[:300]}
    finally:
        shutil.rmtree(root, ignore_errors=True)


def op_corpus_parse_time(t):
    from pyndl import corpus
    try:
        x = corpus._parse_time_string(t['value'])
        f = Fraction(x)
        return {'time': '%d/%d' % (f.numerator, f.denominator)}
    except Exception as e:  # noqa
        return {'err': classify(e), 'cls': type(e).__name__, 'msg': str(e)[:300]}


OPS = {'corpus_create': op_corpus_create, 'corpus_read_clean': op_corpus_read_clean,
       'corpus_parse_time': op_corpus_parse_time}
