"""
Implementation ops for C09: call the real `pyndl.preprocess.create_event_file`
on a corpus written to a private directory and read the produced gzip back.
Nothing of the windowing is re-implemented here: the file is only split at
`\\n`, `\\t` and `_`.
"""
import contextlib
import gzip
import io
import os
import shutil
import tempfile

from pyndl import preprocess

WORK = os.getcwd()


def _classify(exc):
    if isinstance(exc, KeyError):
        return 'Raised:Key'
    if isinstance(exc, ValueError):
        return 'Raised:Value'
    if isinstance(exc, OSError):
        return 'Raised:IO'
    if isinstance(exc, TypeError):
        return 'Raised:Type'
    return 'Raised:Other'


def allowed_arg(a):
    if a['kind'] == 'all':
        return 'all'
    if a['kind'] == 'expr':
        return a['expr']
    ranges = [(lo, hi) for lo, hi in a['ranges']]
    return lambda ch: any(lo <= ch <= hi for lo, hi in ranges)


def parse_event_file(path):
    """[(cues, outcomes)] of the data lines; '' is the empty list (tokens are never empty)"""
    with gzip.open(path, 'rt', encoding='utf-8', newline='\n') as f:
        text = f.read()
    lines = text.split('\n')
    res = {'header': lines[0], 'ends_with_newline': lines[-1] == ''}
    body = lines[1:-1] if lines[-1] == '' else lines[1:]
    events = []
    malformed = []
    for l in body:
        fields = l.split('\t')
        if len(fields) != 2:
            malformed.append(l)
            continue
        cues = fields[0].split('_') if fields[0] else []
        outs = fields[1].split('_') if fields[1] else []
        events.append([cues, outs])
    res['events'] = events
    res['malformed'] = malformed
    return res


def op_create_event_file(t):
    d = tempfile.mkdtemp(prefix='c09-', dir=WORK)
    try:
        corpus = os.path.join(d, 'corpus.txt')
        event = os.path.join(d, 'events.tab.gz')
        with open(corpus, 'w', encoding='utf-8', newline='\n') as f:
            f.write('\n'.join(t['lines']) + ('\n' if t.get('trailing_newline', True) else ''))
        before = None
        if t.get('exists'):
            with open(event, 'wb') as f:
                f.write(b'previous content \x00\x01 of the event file\n')
            before = open(event, 'rb').read()
        kw = dict(allowed_symbols=allowed_arg(t['allowed']),
                  context_structure=t['context'],
                  event_structure=t['event'],
                  cue_structure=t['cue'],
                  lower_case=bool(t['lower_case']),
                  remove_duplicates=bool(t['remove_duplicates']))
        if t.get('options') is not None:
            kw['event_options'] = tuple(t['options'])
        if t.get('verbose'):
            # X1: the `if verbose:` block (progress dot + flush of the half-written gzip stream) runs for
            # the first corpus line; the printed text is captured in memory
            kw['verbose'] = True
        try:
            with contextlib.redirect_stdout(io.StringIO()):
                preprocess.create_event_file(corpus, event, **kw)
        except Exception as e:  # noqa
            res = {'err': _classify(e), 'cls': type(e).__name__, 'msg': str(e)[:200]}
            if before is not None:
                res['file_unchanged'] = os.path.isfile(event) and open(event, 'rb').read() == before
            res['listing'] = sorted(os.listdir(d))
            return res
        if before is not None:
            return {'returned': True, 'file_unchanged': open(event, 'rb').read() == before,
                    'listing': sorted(os.listdir(d))}
        res = parse_event_file(event)
        res['listing'] = sorted(os.listdir(d))
        return res
    finally:
        shutil.rmtree(d, ignore_errors=True)


OPS = {'create_event_file': op_create_event_file}
