"""
Implementation ops for C09: call the real `pyndl.preprocess.create_event_file`
on a corpus written to a private directory and read the produced gzip back.
Nothing of the windowing is re-implemented here: the file is only split at
`\\n`, `\\t` and `_`.
"""
import contextlib
import gzip
import io
import os
import shutil
import tempfile

from pyndl import preprocess

WORK = os.getcwd()


def _classify(exc):
    if isinstance(exc, CallableRaised):
        return 'Raised:Callable'
    if isinstance(exc, KeyError):
        return 'Raised:Key'
    if isinstance(exc, ValueError):
        return 'Raised:Value'
    if isinstance(exc, OSError):
        return 'Raised:IO'
    if isinstance(exc, TypeError):
        return 'Raised:Type'
    return 'Raised:Other'


class CallableRaised(Exception):
    """what the harness' allowed_symbols callable raises on the characters it is told to reject loudly"""


def allowed_arg(a, raises=None):
    if a['kind'] == 'all':
        return 'all'
    if a['kind'] == 'expr':
        return a['expr']
    ranges = [(lo, hi) for lo, hi in a['ranges']]
    if raises:
        bad = [(lo, hi) for lo, hi in raises]

        def allowed(ch):
            if any(lo <= ch <= hi for lo, hi in bad):
                raise CallableRaised(ch)
            return any(lo <= ch <= hi for lo, hi in ranges)
        return allowed
    return lambda ch: any(lo <= ch <= hi for lo, hi in ranges)


def parse_event_file(path):
    """[(cues, outcomes)] of the data lines; '' is the empty list (tokens are never empty)"""
    with gzip.open(path, 'rt', encoding='utf-8', newline='\n') as f:
        text = f.read()
    lines = text.split('\n')
    res = {'header': lines[0], 'ends_with_newline': lines[-1] == ''}
    body = lines[1:-1] if lines[-1] == '' else lines[1:]
    events = []
    malformed = []
    for l in body:
        fields = l.split('\t')
        if len(fields) != 2:
            malformed.append(l)
            continue
        cues = fields[0].split('_') if fields[0] else []
        outs = fields[1].split('_') if fields[1] else []
        events.append([cues, outs])
    res['events'] = events
    res['malformed'] = malformed
    return res


def op_create_event_file(t):
    d = tempfile.mkdtemp(prefix='c09-', dir=WORK)
    try:
        corpus = os.path.join(d, 'corpus.txt')
        event = os.path.join(d, 'events.tab.gz')
        with open(corpus, 'w', encoding='utf-8', newline='\n') as f:
            f.write('\n'.join(t['lines']) + ('\n' if t.get('trailing_newline', True) else ''))
        readable = None
        if t.get('bad_byte_after') is not None:
            # the corpus is not valid UTF-8 from some byte on: `bad_byte_after` complete lines, then 0xFF
            text = '\n'.join(t['lines']) + ('\n' if t.get('trailing_newline', True) else '')
            k = t['bad_byte_after']
            head = '\n'.join(t['lines'][:k]) + ('\n' if k else '')
            with open(corpus, 'wb') as f:
                f.write(head.encode('utf-8') + b'\xff' + text[len(head):].encode('utf-8'))
            # Python-supplied: the lines the text layer yields before it raises (depends on its 8 KiB chunks)
            readable = []
            try:
                with open(corpus, 'rt', encoding='utf-8') as f:
                    for line in f:
                        readable.append(line)
            except UnicodeDecodeError:
                pass
        before = None
        if t.get('exists'):
            with open(event, 'wb') as f:
                f.write(b'previous content \x00\x01 of the event file\n')
            before = open(event, 'rb').read()
        kw = dict(allowed_symbols=allowed_arg(t['allowed'], t.get('raises')),
                  context_structure=t['context'],
                  event_structure=t['event'],
                  cue_structure=t['cue'],
                  lower_case=bool(t['lower_case']),
                  remove_duplicates=bool(t['remove_duplicates']))
        if t.get('options') is not None:
            kw['event_options'] = tuple(t['options'])
        if t.get('verbose'):
            # X1: the `if verbose:` block (progress dot + flush of the half-written gzip stream) runs for
            # the first corpus line; the printed text is captured in memory
            kw['verbose'] = True
        try:
            with contextlib.redirect_stdout(io.StringIO()):
                preprocess.create_event_file(corpus, event, **kw)
        except Exception as e:  # noqa
            res = {'err': _classify(e), 'cls': type(e).__name__, 'msg': str(e)[:200]}
            if before is not None:
                res['file_unchanged'] = os.path.isfile(event) and open(event, 'rb').read() == before
            elif os.path.isfile(event):
                # a failure after the event file was opened: what is left behind
                try:
                    res['left'] = parse_event_file(event)
                except Exception as e2:  # noqa
                    res['left'] = {'unreadable': '%s: %s' % (type(e2).__name__, e2)}
            else:
                res['left'] = None
            if readable is not None:
                res['readable'] = [x.rstrip('\n') for x in readable]
            res['listing'] = sorted(os.listdir(d))
            return res
        if before is not None:
            return {'returned': True, 'file_unchanged': open(event, 'rb').read() == before,
                    'listing': sorted(os.listdir(d))}
        res = parse_event_file(event)
        res['listing'] = sorted(os.listdir(d))
        return res
    finally:
        shutil.rmtree(d, ignore_errors=True)


OPS = {'create_event_file': op_create_event_file}
