"""C04 implementation op: create_binary_event_files with per-job completion delays"""
import os
import shutil
import tempfile
import time

import impl
from impl import POLICY
from pyndl import preprocess


_DELAYS = []
_PER = 1
_REAL_JOB = preprocess._job_binary_event_file


def _slow_job(**kw):
    """module-level (picklable by reference); its globals are inherited by the forked pool workers"""
    j = kw['start'] // _PER
    if j < len(_DELAYS) and _DELAYS[j]:
        time.sleep(_DELAYS[j] / 1000.0)
    return _REAL_JOB(**kw)


def op_create_chunks(t):
    global _DELAYS, _PER
    d = tempfile.mkdtemp(prefix='chunk-', dir=os.getcwd())
    real_job = preprocess._job_binary_event_file
    try:
        names_c = ['c%d' % i for i in range(t['n_cues'])]
        names_o = ['o%d' % i for i in range(t['n_outs'])]
        # the lines of the event file: `file_events` (+ a third column `freq`) when the task has a frequency
        # column (then t['events'] is what the file MEANS: every line repeated freq times), else t['events']
        events = [([names_c[c] for c in cs], [names_o[o] for o in os_]) for cs, os_ in t.get('file_events', t['events'])]
        path = os.path.join(d, 'events.tab.gz')
        impl.write_event_file(path, events, freq=t.get('freq'))
        cue_map = {n: i for i, n in enumerate(names_c)}
        out_map = {n: i for i, n in enumerate(names_o)}
        bdir = os.path.join(d, 'bin')
        if t.get('stale_n'):
            # an earlier, longer run of the real function into the same directory (no delays): its chunk
            # files with the higher numbers are stale when the directory is used again with overwrite=True
            spath = os.path.join(d, 'earlier.tab.gz')
            impl.write_event_file(spath, [([names_c[i % len(names_c)]], [names_o[i % len(names_o)]])
                                          for i in range(int(t['stale_n']))])
            try:
                preprocess.create_binary_event_files(spath, bdir, cue_map, out_map, n_jobs=2,
                                                     events_per_file=t['per'], overwrite=True)
            except Exception as e:  # noqa
                r = impl.err(e)
                r['stage'] = 'earlier run (stale files)'
                return r
        _DELAYS = t.get('delays') or []
        _PER = per = t['per']
        # module attribute patch: inherited by the pool workers through fork
        preprocess._job_binary_event_file = _slow_job
        res = {}
        stale_before = sorted(os.listdir(bdir), key=lambda f: int(f[9:-4])) if os.path.isdir(bdir) else None
        t0 = time.time()
        try:
            n = preprocess.create_binary_event_files(path, bdir, cue_map, out_map, n_jobs=t['n_jobs'],
                                                     events_per_file=per, overwrite=True,
                                                     remove_duplicates=POLICY[t['policy']])
            res['total'] = n
        except Exception as e:  # noqa
            res = impl.err(e)
        res['seconds'] = round(time.time() - t0, 2)
        if stale_before is not None:
            res['stale_before'] = stale_before
        files = []
        if os.path.isdir(bdir):
            names = [f for f in os.listdir(bdir) if os.path.isfile(os.path.join(bdir, f))]
            res['listdir_order'] = list(names)
            try:
                names.sort(key=lambda filename: int(os.path.basename(filename)[9:-4]))
                for f in names:
                    try:
                        evs = [[c, o] for c, o in preprocess.read_binary_file(os.path.join(bdir, f))]
                    except Exception as e:  # noqa
                        evs = impl.err(e)
                    files.append({'name': f, 'key': int(f[9:-4]), 'events': evs})
            except Exception as e:  # noqa
                res['sort_error'] = str(e)
        res['files'] = files
        return res
    finally:
        preprocess._job_binary_event_file = real_job
        shutil.rmtree(d, ignore_errors=True)


OPS = {'create_chunks': op_create_chunks}
