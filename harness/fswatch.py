"""
File-system observation for C17: a recursive listing with content hashes, and an
inotify watcher (ctypes, no external module) that records which entries are
created / removed below a directory WHILE a call runs — also by the call's
worker processes (inotify watches inodes, not processes).

The record is a LOWER bound (a file created and removed inside a directory
before its watch is installed is missed: a new directory is listed once right
after its watch is added, so only entries that lived for less than that window
escape).  What the harness derives from it never becomes an alarm because of a
missed event: the model is fed the observed creations and must remove them all.
"""
import ctypes
import ctypes.util
import hashlib
import os
import select
import struct
import threading

IN_MOVED_FROM, IN_MOVED_TO, IN_CREATE, IN_DELETE = 0x40, 0x80, 0x100, 0x200
IN_ISDIR = 0x40000000
IN_NONBLOCK = 0x800
_MASK = IN_CREATE | IN_DELETE | IN_MOVED_FROM | IN_MOVED_TO
_EVENT = struct.Struct('iIII')


def listing(root):
    """[[relative path components, sha256 | None for a directory], …] of everything below root, sorted"""
    out = []
    for d, dirs, files in os.walk(root):
        rel = os.path.relpath(d, root)
        comps = [] if rel == '.' else rel.split(os.sep)
        for n in dirs:
            out.append([comps + [n], None])
        for n in files:
            p = os.path.join(d, n)
            try:
                h = hashlib.sha256(open(p, 'rb').read()).hexdigest()
            except OSError:
                h = 'unreadable'
            out.append([comps + [n], h])
    return sorted(out, key=lambda x: x[0])


class Watcher(threading.Thread):
    """records ('create' | 'remove', [path components relative to root], is_dir) in the order seen"""

    def __init__(self, root):
        super().__init__(daemon=True)
        self.root = root
        self.events = []
        self._seen = set()
        self._stop_flag = threading.Event()
        self._libc = ctypes.CDLL(ctypes.util.find_library('c') or 'libc.so.6', use_errno=True)
        self._fd = self._libc.inotify_init1(IN_NONBLOCK)
        if self._fd < 0:
            raise OSError(ctypes.get_errno(), 'inotify_init1')
        self._wd = {}
        for d, _dirs, _files in os.walk(root):
            self._add(d)

    def _add(self, path):
        wd = self._libc.inotify_add_watch(self._fd, os.fsencode(path), _MASK)
        if wd >= 0:
            self._wd[wd] = path

    def _rel(self, path):
        return os.path.relpath(path, self.root).split(os.sep)

    def _record(self, kind, path, is_dir):
        key = (kind, path)
        if kind == 'create' and key in self._seen:
            return
        self._seen.add(key)
        self.events.append([kind, self._rel(path), bool(is_dir)])

    def _drain(self):
        while True:
            try:
                buf = os.read(self._fd, 65536)
            except (BlockingIOError, InterruptedError):
                return
            if not buf:
                return
            off = 0
            while off + _EVENT.size <= len(buf):
                wd, mask, _cookie, ln = _EVENT.unpack_from(buf, off)
                name = buf[off + _EVENT.size: off + _EVENT.size + ln].split(b'\0', 1)[0]
                off += _EVENT.size + ln
                base = self._wd.get(wd)
                if base is None or not name:
                    continue
                path = os.path.join(base, os.fsdecode(name))
                is_dir = bool(mask & IN_ISDIR)
                if mask & (IN_CREATE | IN_MOVED_TO):
                    self._record('create', path, is_dir)
                    if is_dir:
                        self._add(path)
                        try:
                            # what was put there before the watch existed
                            for d, dirs, files in os.walk(path):
                                for n in dirs:
                                    self._add(os.path.join(d, n))
                                    self._record('create', os.path.join(d, n), True)
                                for n in files:
                                    self._record('create', os.path.join(d, n), False)
                        except OSError:
                            pass
                if mask & (IN_DELETE | IN_MOVED_FROM):
                    self._record('remove', path, is_dir)

    def run(self):
        p = select.poll()
        p.register(self._fd, select.POLLIN)
        while not self._stop_flag.is_set():
            if p.poll(20):
                self._drain()
        self._drain()

    def stop(self):
        self._stop_flag.set()
        self.join(5)
        try:
            os.close(self._fd)
        except OSError:
            pass
        return self.events
