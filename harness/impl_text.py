"""
Implementation-side ops of the text properties (C07, C11): the REAL
pyndl.io.events_to_file / events_from_file and pyndl.count.cues_outcomes /
words_symbols on files in the task's private directory.  The only things done
here besides calling pyndl: building the requested input container, writing a
given character content byte for byte, and tabulating Python's own
str.split()/str.strip()/str.lower() for the model (trusted-base tables).
"""
import gzip
import os
import shutil
import tempfile

from pyndl import io, count

WORK = os.getcwd()
PUNCT = '!?,.:;/"\'()^@*~'   # the harness' own copy of the documented strip set


def _classify(exc):
    if isinstance(exc, KeyError):
        return 'Raised:Key'
    if isinstance(exc, ValueError):
        return 'Raised:Value'
    if isinstance(exc, OSError):
        return 'Raised:IO'
    if isinstance(exc, TypeError):
        return 'Raised:Type'
    return 'Raised:Other'


def _err(exc):
    return {'err': _classify(exc), 'cls': type(exc).__name__, 'msg': str(exc)[:200]}


def _items(counter):
    return sorted([k, int(v)] for k, v in counter.items())


def _read(path, compression, start, step):
    try:
        evs = list(io.events_from_file(path, compression=compression, start=start, step=step))
        return {'events': [[list(c), list(o)] for c, o in evs]}
    except Exception as e:  # noqa
        return _err(e)


def _count(path, n_jobs):
    try:
        n, cues, outs = count.cues_outcomes(path, n_jobs=n_jobs)
        return {'n_events': int(n), 'cues': _items(cues), 'outcomes': _items(outs)}
    except Exception as e:  # noqa
        return _err(e)


def _write_raw(path, content, compression):
    """the harness' own writer: the given characters, UTF-8, no newline translation"""
    data = content.encode('utf-8')
    if compression == 'gzip':
        with gzip.open(path, 'wb') as f:
            f.write(data)
    else:
        with open(path, 'wb') as f:
            f.write(data)


def op_text_roundtrip(t):
    """events_to_file(container) -> list(events_from_file) [+ cues_outcomes for gzip files]"""
    d = tempfile.mkdtemp(prefix='text-', dir=WORK)
    try:
        events = t['events']
        container = t['container']
        compression = t.get('compression')
        path = os.path.join(d, 'events.tab' + ('.gz' if compression == 'gzip' else ''))
        if container == 'lists':
            arg = [[list(c), list(o)] for c, o in events]
        elif container == 'strings':
            arg = [['_'.join(c), '_'.join(o)] for c, o in events]
        elif container == 'generator':
            arg = ((list(c), list(o)) for c, o in events)
        elif container == 'dataframe':
            import pandas as pd
            arg = pd.DataFrame({'cues': ['_'.join(c) for c, _ in events],
                                'outcomes': ['_'.join(o) for _, o in events]},
                               columns=['cues', 'outcomes'], dtype=object)
        else:
            raise RuntimeError('bad container')
        try:
            io.events_to_file(arg, path, compression=compression, compatible=bool(t.get('compatible')))
        except Exception as e:  # noqa
            r = _err(e)
            r['stage'] = 'write'
            return r
        res = _read(path, compression, int(t.get('start', 0)), int(t.get('step', 1)))
        if t.get('count_jobs') and compression == 'gzip':
            res['count'] = _count(path, int(t['count_jobs']))
        return res
    finally:
        shutil.rmtree(d, ignore_errors=True)


def op_text_file(t):
    """a file with exactly the given character content -> reader and/or counter"""
    d = tempfile.mkdtemp(prefix='text-', dir=WORK)
    try:
        compression = t.get('compression', 'gzip')
        path = os.path.join(d, 'events.tab' + ('.gz' if compression == 'gzip' else ''))
        _write_raw(path, t['content'], compression)
        res = {}
        if t.get('read', True):
            res = _read(path, compression, int(t.get('start', 0)), int(t.get('step', 1)))
        if t.get('count_jobs') and compression == 'gzip':
            res['count'] = _count(path, int(t['count_jobs']))
        return res
    finally:
        shutil.rmtree(d, ignore_errors=True)


def op_text_words(t):
    """words_symbols on a corpus file + Python's own split/strip/lower tables"""
    d = tempfile.mkdtemp(prefix='text-', dir=WORK)
    try:
        path = os.path.join(d, 'corpus.txt')
        _write_raw(path, t['content'], None)
        lower_case = bool(t.get('lower_case'))
        try:
            words, symbols = count.words_symbols(path, n_jobs=int(t['n_jobs']), lower_case=lower_case)
            res = {'words': _items(words), 'symbols': _items(symbols)}
        except Exception as e:  # noqa
            res = _err(e)
        with open(path, 'rt', encoding='utf-8') as f:
            lines = list(f)
        table = [[w.strip() for w in line.split()] for line in lines]
        res['lines'] = table
        res['n_lines'] = len(lines)
        if lower_case:
            keys = sorted({w.strip(PUNCT) for l in table for w in l})
            res['lower'] = [[k, k.lower()] for k in keys]
        else:
            res['lower'] = None
        return res
    finally:
        shutil.rmtree(d, ignore_errors=True)


OPS = {'text_roundtrip': op_text_roundtrip, 'text_file': op_text_file, 'text_words': op_text_words}
