"""
Implementation-side ops of the text properties (C07, C11): the REAL
pyndl.io.events_to_file / events_from_file and pyndl.count.cues_outcomes /
words_symbols on files in the task's private directory.  The only things done
here besides calling pyndl: building the requested input container, writing a
given character content byte for byte, and tabulating Python's own
str.split()/str.strip()/str.lower() for the model (trusted-base tables).
"""
import gzip
import os
import shutil
import tempfile

from pyndl import io, count

WORK = os.getcwd()
PUNCT = '!?,.:;/"\'()^@*~'   # the harness' own copy of the documented strip set


def _classify(exc):
    if isinstance(exc, KeyError):
        return 'Raised:Key'
    if isinstance(exc, ValueError):
        return 'Raised:Value'
    if isinstance(exc, OSError):
        return 'Raised:IO'
    if isinstance(exc, TypeError):
        return 'Raised:Type'
    return 'Raised:Other'


def _err(exc):
    return {'err': _classify(exc), 'cls': type(exc).__name__, 'msg': str(exc)[:200]}


def _items(counter):
    return sorted([k, int(v)] for k, v in counter.items())


def _read(path, compression, start, step):
    try:
        evs = list(io.events_from_file(path, compression=compression, start=start, step=step))
        return {'events': [[list(c), list(o)] for c, o in evs]}
    except Exception as e:  # noqa
        return _err(e)


def _count(path, n_jobs):
    try:
        n, cues, outs = count.cues_outcomes(path, n_jobs=n_jobs)
        return {'n_events': int(n), 'cues': _items(cues), 'outcomes': _items(outs)}
    except Exception as e:  # noqa
        return _err(e)


def _write_raw(path, content, compression):
    """the harness' own writer: the given characters, UTF-8, no newline translation"""
    data = content.encode('utf-8')
    if compression == 'gzip':
        with gzip.open(path, 'wb') as f:
            f.write(data)
    else:
        with open(path, 'wb') as f:
            f.write(data)


def op_text_roundtrip(t):
    """events_to_file(container) -> list(events_from_file) [+ cues_outcomes for gzip files]"""
    d = tempfile.mkdtemp(prefix='text-', dir=WORK)
    try:
        events = t['events']
        container = t['container']
        compression = t.get('compression')
        path = os.path.join(d, 'events.tab' + ('.gz' if compression == 'gzip' else ''))
        if container == 'lists':
            arg = [[list(c), list(o)] for c, o in events]
        elif container == 'strings':
            arg = [['_'.join(c), '_'.join(o)] for c, o in events]
        elif container == 'generator':
            arg = ((list(c), list(o)) for c, o in events)
        elif container == 'tuple':              # a tuple of events (Iterable, not a list)
            arg = tuple([list(c), list(o)] for c, o in events)
        elif container == 'tuples':             # a list whose events are (cues, outcomes) tuples
            arg = [(list(c), list(o)) for c, o in events]
        elif container == 'iterator':           # a plain list iterator
            arg = iter([[list(c), list(o)] for c, o in events])
        elif container == 'map':                # a lazily computed Iterator that is no generator
            arg = map(lambda e: (list(e[0]), list(e[1])), list(events))
        elif container == 'mixed':              # one side a joined string, the other a list, changing per event
            arg = []
            for k, (c, o) in enumerate(events):
                arg.append([('_'.join(c) if k % 3 != 1 else list(c)), ('_'.join(o) if k % 3 != 0 else list(o))])
        elif container in ('dataframe', 'from_dataframe'):
            del _DF_FALLBACK[:]
            arg = _dataframe(events, t.get('df') or {})
            if container == 'from_dataframe':
                # io.events_from_dataframe(df, columns=(cue column, outcome column)) as the event source
                names = (t.get('df') or {}).get('names') or ['cues', 'outcomes']
                arg = io.events_from_dataframe(arg, columns=tuple(names))
        else:
            raise RuntimeError('bad container')
        kw = {}
        if t.get('columns') is not None:
            kw['columns'] = tuple(t['columns'])
        if t.get('delimiter') is not None:
            kw['delimiter'] = t['delimiter']
        import warnings
        try:
            with warnings.catch_warnings(record=True) as caught:
                warnings.simplefilter('always')
                io.events_to_file(arg, path, compression=compression, compatible=bool(t.get('compatible')), **kw)
        except Exception as e:  # noqa
            r = _err(e)
            r['stage'] = 'write'
            return r
        res = _read(path, compression, int(t.get('start', 0)), int(t.get('step', 1)))
        if t.get('count_jobs') is not None and compression == 'gzip':
            res['count'] = _count(path, int(t['count_jobs']))
        # the characters of the written file, no newline translation (code points: they may be line separators)
        try:
            with (gzip.open(path, 'rb') if compression == 'gzip' else open(path, 'rb')) as f:
                res['raw'] = [ord(ch) for ch in f.read().decode('utf-8')]
        except Exception as e:  # noqa
            res['raw'] = _err(e)
        # did the writer issue its 'sets the columns to the legacy names' warning (io.py:106-108)?
        res['legacy_warning'] = any('legacy names' in str(w.message) for w in caught)
        if container in ('dataframe', 'from_dataframe') and _DF_FALLBACK:
            res['df_dtype_fallback'] = list(_DF_FALLBACK)
        return res
    finally:
        shutil.rmtree(d, ignore_errors=True)


_DF_FALLBACK = []


def _dataframe(events, spec):
    """
    the DataFrame of a case.  spec: names [cue column, outcome column] (default cues/outcomes), order 'co'|'oc'
    (which of the two comes first), extra None|'first'|'middle'|'last' (an unused column, named `frequency`, of
    ints), index 'default'|'str'|'reversed'|'dup'|'multi', dtype 'object'|'string'|'category'
    """
    import pandas as pd
    cn, on = spec.get('names') or ['cues', 'outcomes']
    cols = [(cn, ['_'.join(c) for c, _ in events]), (on, ['_'.join(o) for _, o in events])]
    if spec.get('order', 'co') == 'oc':
        cols.reverse()
    extra = spec.get('extra')
    if extra:
        cols.insert({'first': 0, 'middle': 1, 'last': 2}[extra], ('frequency', [3 + k for k in range(len(events))]))
    dtype = spec.get('dtype', 'object')
    data = {}
    for name, vals in cols:
        data[name] = pd.Series(vals, dtype=('int64' if name == 'frequency' else object))
    df = pd.DataFrame(data, columns=[name for name, _ in cols])
    if dtype != 'object':
        for name in (cn, on):
            conv = df[name].astype(dtype)
            # pandas' category factorisation compares strings up to the first NUL ('\x00' and '' fall into one
            # category): a conversion that does not hold the intended cells is not used (the column stays object)
            if [str(x) for x in conv.tolist()] == [str(x) for x in df[name].tolist()]:
                df[name] = conv
            else:
                _DF_FALLBACK.append(name)
    n = len(events)
    index = spec.get('index', 'default')
    if index == 'str':
        df.index = ['row%d' % k for k in range(n)]
    elif index == 'reversed':
        df.index = list(range(n - 1, -1, -1))
    elif index == 'dup':
        df.index = [7] * n
    elif index == 'multi':
        df.index = pd.MultiIndex.from_arrays([[k // 2 for k in range(n)], [k % 2 for k in range(n)]])
    return df


def op_text_file(t):
    """a file with exactly the given character content -> reader and/or counter"""
    d = tempfile.mkdtemp(prefix='text-', dir=WORK)
    try:
        compression = t.get('compression', 'gzip')
        path = os.path.join(d, 'events.tab' + ('.gz' if compression == 'gzip' else ''))
        _write_raw(path, t['content'], compression)
        res = {}
        if t.get('read', True):
            res = _read(path, compression, int(t.get('start', 0)), int(t.get('step', 1)))
        if t.get('count_jobs') is not None and compression == 'gzip':
            res['count'] = _count(path, int(t['count_jobs']))
        return res
    finally:
        shutil.rmtree(d, ignore_errors=True)


def op_text_words(t):
    """words_symbols on a corpus file + Python's own split/strip/lower tables"""
    d = tempfile.mkdtemp(prefix='text-', dir=WORK)
    try:
        path = os.path.join(d, 'corpus.txt')
        _write_raw(path, t['content'], None)
        lower_case = bool(t.get('lower_case'))
        try:
            words, symbols = count.words_symbols(path, n_jobs=int(t['n_jobs']), lower_case=lower_case)
            res = {'words': _items(words), 'symbols': _items(symbols)}
        except Exception as e:  # noqa
            res = _err(e)
        with open(path, 'rt', encoding='utf-8') as f:
            lines = list(f)
        table = [[w.strip() for w in line.split()] for line in lines]
        res['lines'] = table
        res['n_lines'] = len(lines)
        if lower_case:
            keys = sorted({w.strip(PUNCT) for l in table for w in l})
            res['lower'] = [[k, k.lower()] for k in keys]
        else:
            res['lower'] = None
        return res
    finally:
        shutil.rmtree(d, ignore_errors=True)


OPS = {'text_roundtrip': op_text_roundtrip, 'text_file': op_text_file, 'text_words': op_text_words}
