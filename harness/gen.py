"""
Generators shared by the learner campaigns. Every random choice comes from the
`random.Random` handed in (derived from VERIF_SEED).
"""
from fractions import Fraction

CUES = ['a', 'b', 'c', 'd', 'e', 'f', 'ä', '雪']
OUTS = ['x', 'y', 'z', 'w', 'ö']

ALPHAS = ['1/2', '1/4', '1/8', '3/8', '1/16']
BETAS = ['1/2', '1/4', '1/8', '3/4', '1/16', '3/16']
LAMBDAS = ['1', '1/2', '3/2', '2', '3/4', '5/4']

# a medium-sized vocabulary: more than 8 distinct ids per file, so that id order, id width and
# Python set/dict iteration order over ids stop coinciding with first-occurrence order
CUES_M = CUES + ['c%d' % i for i in range(12)]
OUTS_M = OUTS + ['o%d' % i for i in range(14)]


def params(r, coarse=True):
    a = r.choice(ALPHAS[:3] if coarse else ALPHAS)
    b1 = r.choice(BETAS[:4] if coarse else BETAS)
    b2 = r.choice([b for b in (BETAS[:4] if coarse else BETAS) if b != b1])
    lam = r.choice(LAMBDAS if r.random() < 0.8 else ['1'])
    return {'alpha': a, 'beta1': b1, 'beta2': b2, 'lambda': lam}


def event(r, cues=CUES, outs=OUTS, max_cues=5, max_outs=3, dup=0.0, empty_out=0.15):
    k = r.randint(1, max_cues)
    cs = [r.choice(cues) for _ in range(k)] if r.random() < dup else r.sample(cues, min(k, len(cues)))
    if r.random() < empty_out:
        os_ = []
    else:
        m = r.randint(1, max_outs)
        os_ = [r.choice(outs) for _ in range(m)] if r.random() < dup else r.sample(outs, min(m, len(outs)))
    return [cs, os_]


def events(r, n, dup=0.0, late=False, medium=False, **kw):
    """n events; with `late`, half of the names only appear in the second half; with `medium`,
    names come from CUES_M/OUTS_M and the first event names many of them"""
    if medium:
        first = [r.sample(CUES_M, r.randint(6, 14)), r.sample(OUTS_M, r.randint(9, 16))]
        return [first] + [event(r, CUES_M, OUTS_M, max_cues=8, max_outs=7, dup=dup, **kw) for _ in range(n - 1)]
    if late and n >= 2:
        h = n // 2
        c1, c2 = CUES[:4], CUES
        o1, o2 = OUTS[:2], OUTS
        return ([event(r, c1, o1, dup=dup, **kw) for _ in range(h)] +
                [event(r, c2, o2, dup=dup, **kw) for _ in range(n - h)])
    return [event(r, dup=dup, **kw) for _ in range(n)]


def has_dup(es):
    return any(len(set(c)) != len(c) or len(set(o)) != len(o) for c, o in es)


def file_norm(es):
    """what the text event format does to an event: an empty outcome field is
    read back as the outcome named by the empty string (C07)"""
    return [[list(c), list(o) if o else ['']] for c, o in es]


def freqs(r, k, fmax=3):
    """a frequency column (third column of an event file) for k lines: 0..fmax, zeros included, never all zero"""
    f = [r.randint(0, fmax) for _ in range(k)]
    if k and not any(f):
        f[r.randrange(k)] = r.randint(1, fmax)
    return f


def freqs_total(r, n, fmax=3):
    """a frequency column whose entries sum to n >= 1 (the file then MEANS n events); zeros occur at the
    start, in the middle and (sometimes) as the last line"""
    f = []
    while sum(f) < n:
        f.append(min(r.randint(0, fmax), n - sum(f)))
    if r.random() < 0.3:
        f.append(0)
    return f


def expand(es, freq):
    """what a file with the lines `es` and the frequency column `freq` means: line k repeated freq[k] times"""
    if freq is None:
        return [[list(c), list(o)] for c, o in es]
    return [[list(c), list(o)] for (c, o), k in zip(es, freq) for _ in range(int(k))]


def wide_cues(r, n_cues, n_events=2):
    names = ['c%d' % i for i in range(n_cues)]
    es = [[list(names), ['x', 'y']]]
    for _ in range(n_events - 1):
        es.append([r.sample(names, r.randint(1, min(40, n_cues))), [r.choice(['x', 'y', 'z'])]])
    return es


def wide_outs(r, n_outs, n_events=2):
    names = ['o%d' % i for i in range(n_outs)]
    es = [[['a', 'b'], list(names)]]
    for _ in range(n_events - 1):
        es.append([r.sample(['a', 'b', 'c'], r.randint(1, 3)), r.sample(names, r.randint(0, 5))])
    return es


def cells_dict(cells):
    d = {}
    for o, c, v in cells:
        n, _, den = v.partition('/')
        f = Fraction(int(n), int(den or 1))
        if f != 0:
            d[(o, c)] = f
    return d


def overlap_events(r, n, dup=0.0):
    """events over ONE vocabulary: the same names occur as cues and as outcomes (also within one event)"""
    names = ['a', 'b', 'c', 'x', 'y', 'ä', 'n1', 'n2', 'n3', 'n4']
    return [event(r, names, names, max_cues=4, max_outs=3, dup=dup) for _ in range(n)]


def wide_joint(r, n_cues, n_outs, n_events=3, pos=0):
    """one event that is wide on BOTH sides (> 1024 cue ids and > 1024 outcome ids) at position `pos`,
    the others narrow; a second, still wider cue list later when there is room"""
    cn = ['c%d' % i for i in range(n_cues + 40)]
    on = ['o%d' % i for i in range(n_outs + 40)]
    es = [[r.sample(cn[:30], r.randint(1, 5)), r.sample(on[:30], r.randint(0, 4))] for _ in range(n_events)]
    es[pos] = [cn[:n_cues], on[:n_outs]]
    if pos + 1 < n_events and r.random() < 0.5:
        es[pos + 1] = [cn, r.sample(on, 3)]
    return es
