"""
C13 — algebraic laws of the Rescorla-Wagner map.
Lean: row_depends_only, rename_equivariant, cue_perm, affine, linear_part,
lambda_homogeneous, beta2_zero, alpha_zero about `rwLearn` (PyndlProps/C13.lean),
transported to the implementation models by C01's theorems.
Correspondence: every law is run as a relation between two or three runs of the
REAL learners (dict_ndl, ndl threading, ndl openmp) on metamorphic pairs drawn
from one PRNG; values compared as exact rationals inside the exact-dyadic
domain (2^-30 relative outside); the base run of every pair is also compared
with the Lean model driver.
Events contain repeated cues/outcomes (dup in {0, 0.4}); with repeats the laws
are run under the policies keep and dedup (each law is a theorem about rwLearn
on the policy-processed events and every transformation used commutes with the
processing: renamings are injective, removal and permutation act on all
occurrences); under `error` the model predicts ValueError and the law relates
nothing.  cue_shuffle permutes the cues AND the outcomes of every event
(theorems event_perm / events_perm).  affine and alpha_zero also hand dict_ndl
its initial weights as a DataArray (all four memory layouts).
"""
from fractions import Fraction

import gen
import learners as L
from common import rng, close

LEARNERS = ['dict_ndl', 'ndl_threading', 'ndl_openmp']
LAWS = ['drop_other_outcome', 'rename', 'cue_shuffle', 'affine', 'lambda_scale', 'beta2_zero', 'alpha_zero']


def with_init(case, learner, cells, da=False):
    """attach initial weights given as {(o,c): 'n/d'} in the form the learner takes; `da`: dict_ndl gets
    them as a DataArray (the full outcomes x cues rectangle, zeros included) instead of a WeightDict"""
    c = dict(case)
    if not cells:
        return c
    if learner == 'dict_ndl' and not da:
        c['init_cells'] = [[o, cu, v] for (o, cu), v in sorted(cells.items())]
    else:
        outs = sorted({o for o, _ in cells})
        cues = sorted({cu for _, cu in cells})
        c['init_lw'] = {'outcomes': outs, 'cues': cues,
                        'vals': [cells.get((o, cu), '0/1') for o in outs for cu in cues],
                        # memory layout of the DataArray handed in (derived from the content, so it replays)
                        'layout': ['c', 'f', 'transposed', 'slice'][sum(len(v) for v in cells.values()) % 4]}
        if learner == 'dict_ndl':
            c['init_form_dict'] = 'da'
            c['init_cells'] = [[o, cu, cells.get((o, cu), '0/1')] for o in outs for cu in cues]
    return c


def rand_init(r, scale=1, medium=False):
    cells = {}
    for o in r.sample(gen.OUTS_M if medium else gen.OUTS, r.randint(1, 3)):
        for cu in r.sample(gen.CUES_M if medium else gen.CUES, r.randint(1, 4)):
            cells[(o, cu)] = '%d/%d' % (r.randint(-8, 8) * scale, r.choice([1, 2, 4, 8]))
    return cells


def build(r, law, learner):
    """returns (list of cases, relation name, extra)"""
    n = r.randint(2, 7)
    medium = r.random() < 0.3
    es = gen.events(r, n, dup=r.choice([0.0, 0.4]), medium=medium)
    if learner != 'dict_ndl':
        es = gen.file_norm(es)
    # every law is a theorem about rwLearn on the policy-processed events, and each transformation below
    # commutes with both processings (keep: identity; dedup: the renamings used are injective), so with
    # repeats inside an event the laws are run under 'keep' and 'dedup'; under 'error' the model predicts
    # ValueError for a run with repeats (kept rare: the law then relates nothing, the error class is compared).
    # Without repeats all three policies denote the same learner.
    if gen.has_dup(es):
        policy = r.choice(['dedup', 'keep']) if r.random() < 0.9 else 'error'
    else:
        policy = r.choice(['error', 'dedup', 'keep'])
    base = dict(gen.params(r), events=es, policy=policy, n_jobs=r.choice([1, 2, 3]),
                per_job=r.choice([1, 2, 10]), per_file=r.choice([2, 3, 10000000]))
    init_da = learner == 'dict_ndl' and r.random() < 0.5     # dict_ndl handed a DataArray (affine, alpha_zero)
    if law == 'drop_other_outcome':
        victims = sorted({o for _, os_ in es for o in os_})
        if len(victims) < 2:
            return None
        removable = [v for v in victims if all(set(os_) != {v} for _, os_ in es) and v != '']
        mode = r.choice(['remove', 'rename']) if removable else 'rename'
        if mode == 'remove':
            v = r.choice(removable)
            es2 = [[c, [o for o in os_ if o != v]] for c, os_ in es]
        else:
            v = r.choice(victims)
            es2 = [[c, ['RENAMED' if o == v else o for o in os_]] for c, os_ in es]
        return [base, dict(base, events=es2)], law, {'victim': v, 'mode': mode}
    if law == 'rename':
        cues = sorted({c for cs, _ in es for c in cs})
        outs = sorted({o for _, os_ in es for o in os_})
        f = {c: 'C%d' % i for i, c in enumerate(r.sample(cues, len(cues)))}
        g = {o: 'O%d' % i for i, o in enumerate(r.sample(outs, len(outs)))}
        es2 = [[[f[c] for c in cs], [g[o] for o in os_]] for cs, os_ in es]
        return [base, dict(base, events=es2)], law, {'f': f, 'g': g}
    if law == 'cue_shuffle':
        # cues AND outcomes permuted inside every event (theorem event_perm; with repeats: as multisets)
        es2 = [[r.sample(cs, len(cs)), r.sample(os_, len(os_))] for cs, os_ in es]
        return [base, dict(base, events=es2)], law, {'outcomes_permuted': any(a[1] != b[1] for a, b in zip(es, es2)),
                                                     'cues_permuted': any(a[0] != b[0] for a, b in zip(es, es2))}
    if law == 'affine':
        W, V = rand_init(r, medium=medium), rand_init(r, medium=medium)
        keys = set(W) | set(V)
        S = {}
        for k in keys:
            s = Fraction(W.get(k, '0/1')) + Fraction(V.get(k, '0/1'))
            S[k] = '%d/%d' % (s.numerator, s.denominator)
        z = {k: '0/1' for k in keys}
        Wf = {**z, **W}
        Vf = {**z, **V}
        return ([with_init(base, learner, S, init_da), with_init(base, learner, Wf, init_da),
                 with_init(dict(base, **{'lambda': '0'}), learner, Vf, init_da)], law, {})
    if law == 'lambda_scale':
        k = r.choice(['2', '1/2', '3', '-1'])
        lam2 = Fraction(base['lambda']) * Fraction(k)
        return [base, dict(base, **{'lambda': '%d/%d' % (lam2.numerator, lam2.denominator)})], law, {'k': k}
    if law == 'beta2_zero':
        b = dict(base, beta2='0')
        outs = sorted({o for _, os_ in es for o in os_})
        if not outs:
            return None
        extra = [r.sample(gen.CUES, r.randint(1, 3)), [r.choice(gen.OUTS + ['Q'])]]
        return [b, dict(b, events=es + [extra])], law, {'extra': extra}
    if law == 'alpha_zero':
        W = rand_init(r, medium=medium)
        return [with_init(dict(base, alpha='0'), learner, W, init_da)], law, {'W': W}
    return None


def check(law, extra, cells, exact):
    """cells: list of {(o,c): Fraction} per run; returns None or a description"""
    def eq(a, b):
        return close(a, b, exact)

    def get(d, k):
        return d.get(k, Fraction(0))
    if law == 'drop_other_outcome':
        a, b = cells
        for (o, c) in set(a) | set(b):
            if o in (extra['victim'], 'RENAMED'):
                continue
            if not eq(get(a, (o, c)), get(b, (o, c))):
                return 'row %r changed at cue %r when outcome %r was %sd: %s vs %s' % (
                    o, c, extra['victim'], extra['mode'], float(get(a, (o, c))), float(get(b, (o, c))))
        return None
    if law == 'rename':
        a, b = cells
        f, g = extra['f'], extra['g']
        ren = {(g[o], f[c]): v for (o, c), v in a.items()}
        for k in set(ren) | set(b):
            if not eq(get(ren, k), get(b, k)):
                return 'renamed run differs at %r: %s vs %s' % (k, float(get(ren, k)), float(get(b, k)))
        return None
    if law == 'cue_shuffle':
        a, b = cells
        for k in set(a) | set(b):
            if not eq(get(a, k), get(b, k)):
                return 'order of cues/outcomes inside the events changed weight %r: %s vs %s' % (k, float(get(a, k)), float(get(b, k)))
        return None
    if law == 'affine':
        s, w, v = cells
        for k in set(s) | set(w) | set(v):
            if not eq(get(s, k), get(w, k) + get(v, k)):
                return 'affine law fails at %r: L(W+V)=%s, L(W)+L0(V)=%s' % (
                    k, float(get(s, k)), float(get(w, k) + get(v, k)))
        return None
    if law == 'lambda_scale':
        a, b = cells
        k_ = Fraction(extra['k'])
        for k in set(a) | set(b):
            if not eq(get(b, k), k_ * get(a, k)):
                return 'lambda proportionality fails at %r: %s vs %s*%s' % (k, float(get(b, k)), extra['k'], float(get(a, k)))
        return None
    if law == 'beta2_zero':
        a, b = cells
        present = set(extra['extra'][1])
        for (o, c) in set(a) | set(b):
            if o in present:
                continue
            if not eq(get(a, (o, c)), get(b, (o, c))):
                return 'beta2=0 but row %r (absent from the extra event) changed at %r' % (o, c)
        return None
    if law == 'alpha_zero':
        (a,) = cells
        W = {k: Fraction(v) for k, v in extra['W'].items() if Fraction(v) != 0}
        for k in set(a) | set(W):
            if not eq(get(a, k), get(W, k)):
                return 'alpha=0 but weight %r changed: %s -> %s' % (k, float(get(W, k)), float(get(a, k)))
        return None
    return 'unknown law'


def run(rep, pool, driver, tier):
    r = rng('C13')
    n = 40 if tier == 'quick' else 500
    groups = []
    for i in range(n):
        for learner in LEARNERS:
            for law in r.sample(LAWS, 3 if tier == 'quick' else 5):
                b = build(r, law, learner)
                if b is not None:
                    groups.append((law, learner, b))
    tasks, reqs, idx = [], [], []
    for gi, (law, learner, (cases, _, extra)) in enumerate(groups):
        for ci, c in enumerate(cases):
            tasks.append(L.impl_task(c, learner))
            reqs.append(L.model_request(c, learner))
            idx.append((gi, ci))
    impls = pool.map(tasks)
    models = driver.ask(reqs)
    per_group = {}
    n_shrunk = 0
    for (gi, ci), impl, model in zip(idx, impls, models):
        per_group.setdefault(gi, []).append((impl, model))
    for gi, (law, learner, (cases, _, extra)) in enumerate(groups):
        runs = per_group[gi]
        rep.case({'law': law, 'learner': learner, 'cases': cases}, nontrivial=True, stream=law)
        rep.count('law:' + law)
        rep.count('learner:' + learner)
        dup = gen.has_dup(cases[0]['events'])
        rep.count('events_with_repeats:%s' % ('yes' if dup else 'no'))
        rep.count('policy:%s%s' % (cases[0]['policy'], '/repeats' if dup else ''))
        if dup:
            rep.count('law_on_repeats:%s/%s' % (law, cases[0]['policy']))
            rep.count('learner_on_repeats:%s/%s' % (learner, cases[0]['policy']))
        if law == 'cue_shuffle':
            rep.count('cue_shuffle:outcomes_permuted=%s,cues_permuted=%s' % (extra['outcomes_permuted'], extra['cues_permuted']))
        if law in ('affine', 'alpha_zero'):
            rep.count('init_form:%s/%s/%s' % (law, learner, 'da' if cases[0].get('init_form_dict') == 'da' or learner != 'dict_ndl'
                                               else 'dict'))
            if cases[0].get('init_form_dict') == 'da':
                rep.count('dict_ndl_da_layout:' + cases[0]['init_lw']['layout'])
        problems = []
        shrunk_run = None
        for (impl, model), c in zip(runs, cases):
            d = L.compare(impl, model)
            if d is not None:
                problems.append('run vs Lean model: ' + d)
                if shrunk_run is None and n_shrunk < 3:
                    # one run alone already disagrees with the model: shrink that run (events, tokens, configuration)
                    n_shrunk += 1
                    small, steps = L.shrink(pool, driver, c, learner, budget=30)
                    d2, impl2, _ = L.evaluate(pool, driver, small, learner)
                    if d2 is not None:
                        shrunk_run = {'what': d2, 'run': small, 'observed': impl2.get('cells', impl2.get('err')),
                                      'python': L.python_snippet(small, learner), 'shrink_steps': steps}
        if not problems and all('err' not in impl for impl, _ in runs):
            exact = all(m.get('bits', 9999) <= L.EXACT_BITS for _, m in runs)
            rep.count('exact_domain' if exact else 'tolerance_domain')
            d = check(law, extra, [gen.cells_dict(impl['cells']) for impl, _ in runs], exact)
            if d is not None:
                problems.append('law %s: %s' % (law, d))
        elif not problems and all(impl.get('err') == model.get('err') for impl, model in runs if 'err' in impl):
            # every run that raised was predicted to raise that class by the model (repeats under the
            # 'error' policy): there are no weights for the law to relate
            rep.count('law_not_applicable:predicted_%s' % sorted({m['err'] for _, m in runs if 'err' in m})[0])
        elif not problems:
            problems.append('a run raised: %r' % [impl.get('err') for impl, _ in runs])
        law_relation = None
        if problems and all('err' not in impl and 'err' not in m for impl, m in runs):
            # a run already disagrees with the model; also say whether the law, as a relation between the
            # real runs alone (no oracle), fails on this group
            law_relation = check(law, extra, [gen.cells_dict(impl['cells']) for impl, _ in runs],
                                 all(m.get('bits', 9999) <= L.EXACT_BITS for _, m in runs)) or 'holds'
            rep.count('law_relation_on_failing_group:%s/%s' % (law, 'holds' if law_relation == 'holds' else 'fails'))
        if problems:
            rep.violation({'what': problems[0], 'law': law, 'learner': learner, 'shrunk_single_run': shrunk_run,
                           'law_relation_between_the_runs': law_relation,
                           'input': {'runs': [{k: v for k, v in c.items()} for c in cases],
                                     # (the initial weights W of alpha_zero are keyed by (outcome, cue): not a JSON key)
                                     'extra': {k: ([[o, cu, x] for (o, cu), x in sorted(v.items())] if k == 'W' else v)
                                               for k, v in extra.items()}},
                           'observed': [impl.get('cells', impl.get('err')) for impl, _ in runs],
                           'expected': 'relation of PyndlProps/C13.lean theorem for this law',
                           'python': '\n# ---- next run ----\n'.join(L.python_snippet(c, learner) for c in cases),
                           'theorem_or_stream': 'C13.%s on real %s runs' % (law, learner)})
        elif 'err' not in runs[0][0]:
            rep.sample({'law': law, 'learner': learner, 'events': cases[0]['events'][:4], 'policy': cases[0]['policy'],
                        'cells_run0': runs[0][0]['cells'][:4]})
