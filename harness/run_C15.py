"""
C15 — every stage's output is valid input for the next stage.
Lean (PyndlProps/C15.lean): conventions_agree (separators/header literals of
writer, reader, filter and creator regenerated from the source),
create_tokens_wf, filter_preserves_tokens, writer_reader_learner, writer_count,
learner_activation_consistent — the interfaces between the stage models of C09,
C10, C07/C11, C01 and C12.
Correspondence: end-to-end pipelines through the public API only, on random
Unicode corpora (the C09 grammar) x creation options x filter rules x learner
configurations: corpus -> create_event_file -> filter_event_file ->
cues_outcomes -> ndl.ndl / dict_ndl -> activation. Stage k of the model is fed
the implementation's artefact of stage k-1 and compared with the
implementation's artefact of stage k (so every hand-over is checked on real
files); in addition the model-only chain from the corpus to the weights and
activations is compared with the implementation's final results.
Second head (the statement's "... or the event writer"): generated events
(tokens inside the format: non-empty, no TAB/LF/CR/underscore, otherwise
arbitrary Unicode incl. Unicode white space; at least one cue and one outcome
per event) x container {list of lists, tuple, list of joined strings,
generator, DataFrame} x compression {gzip, None} x compatible {False, True}
-> io.events_to_file -> io.events_from_file -> cues_outcomes -> ndl.ndl /
dict_ndl -> activation. The written characters are compared with the model's
`renderFile`, the events read back with the events written and with the
model's `parseFile`, counts with the model's strided count, weights with the
learner model, activations with the returned weights. A plain file is consumed
through the reader's generator (counter and learners document gzip files), a
compatible=True file is never routed through filter_event_file (the filter is
not a consumer of writer files in the statement and rejects a third column).
"""
import gen
import learners as L
import run_C09
import textgen as T
from common import rng, frac, close, Fraction

TIMEOUT = 120


def cps(s):
    return [ord(ch) for ch in s]


def sum_is_exact(terms):
    k = 0
    for t in terms:
        d = t.denominator
        if d & (d - 1):
            return False
        k = max(k, d.bit_length() - 1)
    return sum(abs(t.numerator) * ((1 << k) // t.denominator) for t in terms) < (1 << 53)


def act_close(got, want, terms, exact):
    """exact when every partial sum is a double; otherwise numpy's rounding error is bounded by the magnitude of
    the TERMS (a few huge weights that nearly cancel), not of the result: 2^-30 * max(1, sum |terms|)"""
    if exact:
        return got == want
    from common import TOL
    return abs(got - want) <= TOL * max(1, sum(abs(t) for t in terms))


def parse_lines(lines):
    """the documented text format: header, then cues TAB outcomes, tokens joined by '_'"""
    evs = []
    for l in lines[1:]:
        c, o = l.split('\t')
        evs.append([c.split('_'), o.split('_')])
    return evs


def canon_line(l):
    c, _, o = l.partition('\t')
    return '_'.join(sorted(c.split('_'))) + '\t' + '_'.join(sorted(o.split('_')))


def rules(r, tokens_c, tokens_o):
    def side(tokens):
        k = r.choice(['all', 'keep', 'remove', 'map'])
        ts = sorted(tokens)
        if k == 'all' or not ts:
            return None
        pick = r.sample(ts, r.randint(0, len(ts)))
        if k == 'keep':
            return {'keep': pick}
        if k == 'remove':
            return {'remove': pick}
        return {'map': [[t, r.choice(['M1', 'M2', t, ''])] for t in pick]}
    return {'cues': side(tokens_c), 'outcomes': side(tokens_o), 'n_jobs': r.choice([1, 2, 3]),
            'chunksize': r.choice([1, 2, 7, 100000])}


# --------------------------------------------------------------------------
# second head: the event writer as producer
# --------------------------------------------------------------------------

W_CONTAINERS = ['lists', 'tuples', 'strings', 'generator', 'dataframe']


def gen_writer_case(r, i):
    alphabet = T.FULL if i % 3 else T.TAME
    n = r.choice([1, 2, 3, 4, 6, 9, 12])
    evs = T.events(r, n, alphabet, max_cues=4, max_outs=3, empty_out=0.0)
    if i % 4 == 0:
        # a token that ends (or consists) of white space other than the line break, in the last field of a line
        k = r.randrange(len(evs))
        evs[k][1][-1] = r.choice(['', 'x', 'ä']) + r.choice(T.SPACES + [' ', ' ', '  '])
    # NOT generated here: a token that ENDS in U+0000.  numpy's fixed-width str arrays drop trailing NULs, so
    # the labels of every returned DataArray lose them ('b\x00' and 'b' become one label, activation raises
    # KeyError) - reported to the lead as a finding of this head; NUL inside a token is generated.
    evs = [[[t.rstrip('\x00') + 'N' if t.endswith('\x00') else t for t in side] for side in ev] for ev in evs]
    p = gen.params(r)
    return {'events': evs, 'container': W_CONTAINERS[i % 5], 'compression': 'gzip' if i % 3 != 1 else None,
            'compatible': r.random() < 0.5, 'count_jobs': r.choice([1, 2, 5]), 'act_jobs': r.choice([1, 2]),
            'learn': dict(p, learner=r.choice(['dict_ndl', 'ndl_threading', 'ndl_openmp']),
                          policy=r.choice(['dedup', 'keep', 'error']), n_jobs=r.choice([1, 2]), per_job=r.choice([1, 3, 10]),
                          per_file=r.choice([2, 10000000]))}


def writer_task(c):
    t = {k: c[k] for k in ('events', 'container', 'compression', 'compatible', 'count_jobs', 'act_jobs', 'learn')}
    t['op'] = 'pipeline_writer'
    if c.get('verbose'):
        t['verbose'] = True
    return t


def writer_roundtrip_request(c):
    if c['container'] in ('strings', 'dataframe'):
        evs = [[T.cps('_'.join(cu)), T.cps('_'.join(ou))] for cu, ou in c['events']]
        cont = 'strings'
    else:
        evs = T.ev_cps(c['events'])
        cont = 'lists'
    return {'op': 'text_roundtrip', 'container': cont, 'events': evs, 'compatible': bool(c['compatible']),
            'count_jobs': c['count_jobs']}


def eval_writer(pool, driver, cases):
    """-> [(problem | None, implementation result)] for writer-head cases"""
    impls = pool.map([writer_task(c) for c in cases])
    m_rt = driver.ask([writer_roundtrip_request(c) for c in cases])
    reqs = []
    for c in cases:
        Lc = c['learn']
        case = dict(alpha=Lc['alpha'], beta1=Lc['beta1'], beta2=Lc['beta2'], **{'lambda': Lc['lambda']},
                    events=c['events'], policy=Lc['policy'], per_job=Lc['per_job'], per_file=Lc['per_file'])
        reqs.append(L.model_request(case, Lc['learner']))
    m_l = driver.ask(reqs)
    out = []
    for c, res, mr, ml in zip(cases, impls, m_rt, m_l):
        out.append((writer_problem(c, res, mr, ml), res))
    return out


def writer_problem(c, res, mr, ml):
    evs = [[list(cu), list(ou)] for cu, ou in c['events']]
    if res.get('err') in ('Timeout', 'WorkerDied', 'HarnessError'):
        return 'implementation: %s %s' % (res['err'], res.get('msg', ''))
    if 'content' not in res:
        return 'stage write: events_to_file failed: %s %s' % (res.get('err'), res.get('msg'))
    if res['content'] != T.uncps(mr['content']):
        return 'stage write: file content %r, model renderFile %r' % (res['content'][:80], T.uncps(mr['content'])[:80])
    if 'read_events' not in res:
        return 'stage read: events_from_file rejects the file events_to_file wrote: %s %s' % (res.get('err'), res.get('msg'))
    if 'events' not in mr:
        return 'stage read: the model reader rejects the written file (model %r)' % (mr,)
    if res['read_events'] != evs:
        bad = next(k for k in range(max(len(evs), len(res['read_events'])))
                   if k >= len(evs) or k >= len(res['read_events']) or evs[k] != res['read_events'][k])
        return 'stage read: event %d read back as %r, written %r' % (
            bad, res['read_events'][bad] if bad < len(res['read_events']) else None, evs[bad] if bad < len(evs) else None)
    if T.ev_uncps(mr['events']) != evs:
        return 'MODEL: parseFile (renderFile events) differs from the events on a well-formed input'
    if c['compression'] == 'gzip':
        if 'n_events' not in res:
            return 'stage count: cues_outcomes rejects the written file: %s %s' % (res.get('err'), res.get('msg'))
        mc = mr.get('count') or {}
        if 'n_events' not in mc:
            return 'stage count: the model counter rejects the file: %r' % (mc,)
        if res['n_events'] != mc['n_events'] or res['n_events'] != len(evs):
            return 'stage count: cues_outcomes reports %d events, written %d, model %d' % (res['n_events'], len(evs), mc['n_events'])
        if sorted(map(list, res['cue_counts'])) != T.counter_uncps(mc['cues']) or \
                sorted(map(list, res['outcome_counts'])) != T.counter_uncps(mc['outcomes']):
            return 'stage count: cue/outcome frequencies differ from the model count of the written file'
    if 'weights' in res:
        d = L.compare(dict(res['weights'], attrs={'number_events': res['number_events_attr']}), ml)
        if d:
            return 'stage learn: ' + d
    elif res.get('stage') == 'learn':
        if ml.get('err') != res.get('err'):
            return 'stage learn: implementation %s %s, model %s' % (res.get('err'), res.get('msg', ''), ml.get('err', 'weights'))
        return None
    else:
        return 'stage %s: %s %s' % (res.get('stage'), res.get('err'), res.get('msg'))
    if 'activations' not in res:
        return 'stage activation: %s %s' % (res.get('err'), res.get('msg'))
    w = gen.cells_dict(res['weights']['cells'])
    outs = res['activation_outcomes']
    exact = ml.get('bits', 9999) <= L.EXACT_BITS
    if len(res['activations']) != len(evs):
        return 'stage activation: %d columns for %d events' % (len(res['activations']), len(evs))
    for e_i, (cs, _) in enumerate(evs):
        for o_i, o in enumerate(outs):
            terms = [w.get((o, cu), Fraction(0)) for cu in set(cs)]
            want = sum(terms, Fraction(0))
            if not act_close(Fraction(frac(res['activations'][e_i][o_i])), want, terms, exact and sum_is_exact(terms)):
                return 'stage activation: event %d outcome %r: %s, sum of the returned weights %s' % (
                    e_i, o, float(frac(res['activations'][e_i][o_i])), float(want))
    if set(outs) != set(res['weights']['outcomes']):
        return 'activation outcome labels differ from the weight labels'
    lo = res.get('leftovers')
    if lo and (lo['systmp'] or lo['giventmp']):
        return 'temporary entries left behind: %r' % (lo,)
    if res.get('file_unchanged') is False:
        return 'the written event file was modified by a consumer'
    return None


def writer_snippet(c):
    Lc = c['learn']
    learn = ("ndl.dict_ndl(src(), %s, (%s, %s), %s, remove_duplicates=%r, make_data_array=True)" if Lc['learner'] == 'dict_ndl' else
             "ndl.ndl(src(), %s, (%s, %s), %s, remove_duplicates=%r, method=" + repr(Lc['learner'][4:]) +
             ", n_jobs=%d, n_outcomes_per_job=%d, events_per_temporary_file=%d)" % (Lc['n_jobs'], Lc['per_job'], Lc['per_file']))
    learn = learn % tuple([float(Fraction(Lc[k])) for k in ('alpha', 'beta1', 'beta2', 'lambda')] +
                          [{'error': None, 'dedup': True, 'keep': False}[Lc['policy']]])
    return '\n'.join([
        "import pandas as pd",
        "from pyndl import io, count, ndl, activation",
        "events = %r" % (c['events'],),
        "arg = {'lists': events, 'tuples': tuple(map(tuple, events)), 'strings': [['_'.join(c), '_'.join(o)] for c, o in events],",
        "       'generator': (e for e in events),",
        "       'dataframe': pd.DataFrame({'cues': ['_'.join(c) for c, _ in events], 'outcomes': ['_'.join(o) for _, o in events]}, dtype=object)}[%r]" % c['container'],
        "path, compression = %r, %r" % ('events.tab.gz' if c['compression'] == 'gzip' else 'events.tab', c['compression']),
        "io.events_to_file(arg, path, compression=compression, compatible=%r)" % bool(c['compatible']),
        "print(list(io.events_from_file(path, compression=compression)))   # expected: events",
        "src = lambda: path if compression == 'gzip' else io.events_from_file(path, compression=None)",
        "if compression == 'gzip': print(count.cues_outcomes(path, n_jobs=%d))" % c['count_jobs'],
        "w = " + learn,
        "print(w)",
        "print(activation.activation(src(), w, n_jobs=%d, remove_duplicates=True))" % c['act_jobs'],
    ])


def run_writer_head(rep, pool, driver, tier):
    r = rng('C15/writer')
    quick = tier == 'quick'
    cases = [gen_writer_case(r, i) for i in range(60 if quick else 600)]
    rv = rng('C15/writer/verbose')
    for c in cases:
        if rv.random() < 0.25:
            c['verbose'] = True
    results = eval_writer(pool, driver, cases)
    failures = []
    for c, (prob, res) in zip(cases, results):
        rep.case({k: c[k] for k in ('events', 'container', 'compression', 'compatible', 'learn')},
                 nontrivial=len(c['events']) >= 2, stream='writer_pipeline')
        rep.count('writer_container:' + c['container'])
        rep.count('writer_compression:%s' % c['compression'])
        rep.count('writer_compatible:%s' % c['compatible'])
        rep.count('writer_learner:' + c['learn']['learner'])
        rep.count('writer_reached_stage:' + res.get('stage', '?'))
        rep.count('writer_verbose:%s' % bool(c.get('verbose')))
        if any(t[-1:].isspace() for _, o in c['events'] for t in o[-1:]):
            rep.count('writer_line_ends_in_unicode_white_space')
        if any(ord(ch) > 127 for cu, ou in c['events'] for t in cu + ou for ch in t):
            rep.count('writer_non_ascii_tokens')
        if prob:
            failures.append((c, prob))
        elif res.get('stage') == 'done' and len(c['events']) >= 3:
            rep.sample({'stream': 'writer_pipeline', 'events': c['events'][:3], 'container': c['container'],
                        'compression': c['compression'], 'compatible': c['compatible'], 'file': res['content'][:60],
                        'n_events': res.get('n_events'), 'weights': res['weights']['cells'][:3]}, limit=3)
    rep.extra['writer_failures_total'] = len(failures)
    for c, prob in failures[:3]:
        def fails(x):
            # stay inside the generated domain: well-formed tokens, at least one cue and one outcome
            if not x['events'] or not T.well_formed(x['events']) or any(not o for _, o in x['events']):
                return False
            return eval_writer(pool, driver, [x])[0][0] is not None
        small, steps = T.shrink_rows(c, 'events', fails, budget=60,
                                     simplify=[('verbose', False), ('container', 'lists'), ('compatible', False),
                                               ('compression', 'gzip'), ('count_jobs', 1), ('act_jobs', 1),
                                               ('learn', dict(c['learn'], learner='dict_ndl', policy='keep'))])
        (prob2, res2), = eval_writer(pool, driver, [small])
        rep.violation({'what': prob2 or prob, 'input': writer_task(small),
                       'observed': {kk: res2.get(kk) for kk in ('stage', 'err', 'msg', 'content', 'read_events', 'n_events')},
                       'python': writer_snippet(small),
                       'theorem_or_stream': 'C15 writer_reader_learner / writer_count / learner_activation_consistent '
                                            '(pipeline head io.events_to_file)',
                       'shrunk_from_events': len(c['events']), 'shrink_steps': steps})


def run_nul_suffix(rep, pool, driver, tier):
    """known finding F14: a token that ENDS in U+0000.  numpy's fixed-width str arrays drop trailing NULs, so
    the labels of a returned DataArray lose them ('b\\x00' and 'b' become one label, weights cannot be looked
    up by name, activation raises KeyError).  Own stream, so that a different violation is still reported."""
    from common import known_findings
    f14 = [f for f in known_findings('C15') if f['id'] == 'F14']
    r = rng('C15/writer/nul_suffix')
    cases = []
    for i in range(3 if tier == 'quick' else 20):
        c = gen_writer_case(r, i)
        side = r.choice([0, 1])
        k = r.randrange(len(c['events']))
        name = r.choice(['b', 'x', 'ä'])
        c['events'][k][side][0] = name + '\x00'
        # the same name without the NUL as well: the two must stay different names
        c['events'][r.randrange(len(c['events']))][side].append(name)
        c['events'] = [[list(dict.fromkeys(cu)), list(dict.fromkeys(ou))] for cu, ou in c['events']]
        c['learn'] = dict(c['learn'], learner=r.choice(['ndl_threading', 'ndl_openmp']), policy='keep')
        cases.append(c)
    for c, (prob, res) in zip(cases, eval_writer(pool, driver, cases)):
        rep.case({k: c[k] for k in ('events', 'container', 'compression', 'compatible', 'learn')}, nontrivial=True,
                 stream='writer_pipeline_nul_suffix')
        if not prob:
            continue
        if f14:
            rep.known(f14[0], 'token ending in U+0000: ' + str(prob)[:160])
        else:
            rep.violation({'what': prob, 'input': writer_task(c), 'python': writer_snippet(c),
                           'observed': {kk: res.get(kk) for kk in ('stage', 'err', 'msg')},
                           'theorem_or_stream': 'C15 writer head, token ending in U+0000'})


def run(rep, pool, driver, tier):
    run_writer_head(rep, pool, driver, tier)
    run_nul_suffix(rep, pool, driver, tier)
    r = rng('C15')
    quick = tier == 'quick'
    cases = []
    r_cr = rng('C15/carriage_return')
    while len(cases) < (60 if quick else 700):
        c = run_C09.gen_case(r, tier)
        if r_cr.random() < 0.3:
            # a lone CR inside a word of the corpus is a line break for every reader (universal newlines); a
            # creation stage that keeps it inside a token hands the next stage a broken line (seeded change C15_b)
            run_C09.inject_cr(r_cr, c)
        if c.get('exists') or not run_C09.table_ok(c):
            continue
        cases.append(c)
    # stage 1 model first: it also tells which tokens exist, so that the filter rules hit
    m1 = driver.ask([run_C09.model_request(c) for c in cases])
    tasks, keep = [], []
    for c, m in zip(cases, m1):
        if 'err' in m or 'events' not in m:
            continue
        toks_c = {t for ev in m['events'] for t in ev[0]}
        toks_o = {t for ev in m['events'] for t in ev[1]}
        p = gen.params(r)
        learner = r.choice(['dict_ndl', 'ndl_threading', 'ndl_openmp'])
        t = {'op': 'pipeline', 'create': run_C09.impl_task(c), 'filter': rules(r, toks_c, toks_o),
             'count_jobs': r.choice([1, 2, 5]), 'act_jobs': r.choice([1, 2]),
             'learn': dict(p, learner=learner, policy=r.choice(['dedup', 'keep', 'error']),
                           n_jobs=r.choice([1, 2]), per_job=r.choice([1, 3, 10]), per_file=r.choice([2, 10000000]))}
        tasks.append(t)
        keep.append((c, m))
    # X1: verbose=True in every stage that has the flag, for a quarter of the pipelines (own stream)
    rv = rng('C15/verbose')
    for t in tasks:
        if rv.random() < 0.25:
            t['verbose'] = True
    impls = pool.map(tasks)
    # stage-wise model requests on the implementation's artefacts
    req_f, req_c, req_l, req_a, idx = [], [], [], [], []
    for k, (t, res) in enumerate(zip(tasks, impls)):
        if 'event_lines' not in res:
            continue
        f = t['filter']
        req_f.append({'op': 'filter', 'lines': res['event_lines'], 'cues': f['cues'], 'outcomes': f['outcomes'],
                      'chunksize': f['chunksize']})
        idx.append(k)
    rep_f = dict(zip(idx, driver.ask(req_f)))
    idx2 = []
    for k in idx:
        res = impls[k]
        if 'filtered_lines' not in res:
            continue
        content = '\n'.join(res['filtered_lines']) + '\n'
        req_c.append({'op': 'text_parse', 'content': cps(content), 'count_jobs': tasks[k]['count_jobs']})
        idx2.append(k)
    rep_c = dict(zip(idx2, driver.ask(req_c)))
    idx3 = []
    for k in idx2:
        res, t = impls[k], tasks[k]
        evs = parse_lines(res['filtered_lines'])
        if not evs:
            continue
        Lc = t['learn']
        case = dict(alpha=Lc['alpha'], beta1=Lc['beta1'], beta2=Lc['beta2'], **{'lambda': Lc['lambda']},
                    events=evs, policy=Lc['policy'], per_job=Lc['per_job'], per_file=Lc['per_file'])
        req_l.append(L.model_request(case, Lc['learner']))
        idx3.append(k)
    rep_l = dict(zip(idx3, driver.ask(req_l)))
    # model-only chain from the corpus: create -> filter
    req_f2, idx4 = [], []
    for k, (c, m) in enumerate(keep):
        lines = ['cues\toutcomes'] + ['_'.join(ev[0]) + '\t' + '_'.join(ev[1]) for ev in m['events']]
        f = tasks[k]['filter']
        req_f2.append({'op': 'filter', 'lines': lines, 'cues': f['cues'], 'outcomes': f['outcomes'], 'chunksize': f['chunksize']})
        idx4.append(k)
    rep_f2 = dict(zip(idx4, driver.ask(req_f2)))
    req_l2, idx5 = [], []
    for k in idx4:
        mf = rep_f2[k]
        if 'err' in mf or len(mf['lines']) <= 1:
            continue
        Lc = tasks[k]['learn']
        case = dict(alpha=Lc['alpha'], beta1=Lc['beta1'], beta2=Lc['beta2'], **{'lambda': Lc['lambda']},
                    events=parse_lines(mf['lines']), policy=Lc['policy'], per_job=Lc['per_job'], per_file=Lc['per_file'])
        req_l2.append(L.model_request(case, Lc['learner']))
        idx5.append(k)
    rep_l2 = dict(zip(idx5, driver.ask(req_l2)))
    # activations from the model weights of the stage-wise learner
    for k, (t, res) in enumerate(zip(tasks, impls)):
        c, m = keep[k]
        rep.case({'create': {x: c[x] for x in ('lines', 'context', 'event', 'options', 'cue', 'lower_case', 'remove_duplicates')},
                  'filter': t['filter'], 'learn': t['learn']}, nontrivial=len(m['events']) >= 2, stream='pipeline')
        rep.count('learner:' + t['learn']['learner'])
        rep.count('reached_stage:' + res.get('stage', '?'))
        rep.count('verbose:%s' % bool(t.get('verbose')))
        prob = None
        rd = c['remove_duplicates']
        if 'event_lines' not in res:
            prob = 'create_event_file failed inside the pipeline: %s %s' % (res.get('err'), res.get('msg'))
        else:
            want = ['_'.join(ev[0]) + '\t' + '_'.join(ev[1]) for ev in m['events']]
            got = res['event_lines'][1:]
            if (sorted(map(canon_line, got)) if False else [canon_line(x) if rd else x for x in got]) != \
                    [canon_line(x) if rd else x for x in want] or res['event_lines'][0] != 'cues\toutcomes':
                prob = 'stage create: event file %r, model %r' % (res['event_lines'][:4], want[:3])
        if prob is None and k in rep_f:
            mf = rep_f[k]
            if 'filtered_lines' not in res:
                if mf.get('err') != res.get('err'):
                    prob = 'stage filter: implementation %s, model %s' % (res.get('err'), mf.get('err', 'a file'))
            elif 'err' in mf or mf['lines'] != res['filtered_lines']:
                prob = 'stage filter: filtered file %r, model (on the same event file) %r' % (res['filtered_lines'][:4], mf.get('lines', mf)[:4] if 'lines' in mf else mf)
        if prob is None and k in rep_c:
            mc = rep_c[k]
            evs = parse_lines(res['filtered_lines'])
            if 'events' not in mc:
                prob = 'stage read: the model reader rejects the filtered file: %r' % mc
            elif [[''.join(map(chr, tok)) for tok in side] for ev in mc['events'] for side in ev] != [side for ev in evs for side in ev]:
                prob = 'stage read: model reader parses different events than the documented split'
            elif res.get('n_events') is not None and res['n_events'] != len(evs):
                prob = 'stage count: cues_outcomes reports %d events, the filtered file has %d' % (res['n_events'], len(evs))
            elif res.get('cue_counts') is not None:
                cc, oc = {}, {}
                for cs, os_ in evs:
                    for x in cs:
                        cc[x] = cc.get(x, 0) + 1
                    for x in os_:
                        oc[x] = oc.get(x, 0) + 1
                strided = mc.get('count')
                if sorted(cc.items()) != [tuple(x) for x in res['cue_counts']] or sorted(oc.items()) != [tuple(x) for x in res['outcome_counts']]:
                    prob = 'stage count: cue/outcome frequencies differ from a direct count of the filtered file'
        if prob is None and k in rep_l:
            ml = rep_l[k]
            if 'weights' in res:
                d = L.compare(dict(res['weights'], attrs={'number_events': res['number_events_attr']}), ml)
                if d:
                    prob = 'stage learn: ' + d
            elif res.get('stage') == 'learn':
                if ml.get('err') != res.get('err'):
                    prob = 'stage learn: implementation %s %s, model %s' % (res.get('err'), res.get('msg', ''), ml.get('err', 'weights'))
        if prob is None and k in rep_l2 and 'weights' in res:
            d = L.compare(dict(res['weights']), {kk: v for kk, v in rep_l2[k].items() if kk != 'n_events'})
            if d:
                prob = 'end to end (model-only chain corpus -> create -> filter -> learn): ' + d
        if prob is None and 'activations' in res and k in rep_l and 'err' not in rep_l[k]:
            # activations consistent with the returned weights: sum over the (de-duplicated) cues of each event
            w = gen.cells_dict(res['weights']['cells'])
            outs = res['activation_outcomes']
            evs = parse_lines(res['filtered_lines'])
            exact = rep_l[k].get('bits', 9999) <= L.EXACT_BITS
            for e_i, (cs, _) in enumerate(evs):
                for o_i, o in enumerate(outs):
                    terms = [w.get((o, cu), Fraction(0)) for cu in set(cs)]
                    want = sum(terms, Fraction(0))
                    # the float sum is exact only if every partial sum (in any order) is a double: all
                    # terms on one dyadic grid 2^-k and sum |terms| < 2^(53-k); otherwise tolerance
                    if not act_close(Fraction(frac(res['activations'][e_i][o_i])), want, terms, exact and sum_is_exact(terms)):
                        prob = 'stage activation: event %d outcome %r: %s, sum of the returned weights %s' % (
                            e_i, o, float(frac(res['activations'][e_i][o_i])), float(want))
                        break
                if prob:
                    break
            if prob is None and set(outs) != set(res['weights']['outcomes']):
                prob = 'activation outcome labels differ from the weight labels'
        if prob:
            rep.violation({'what': prob, 'input': t, 'observed': {kk: res.get(kk) for kk in ('stage', 'err', 'msg', 'event_lines', 'filtered_lines', 'n_events')},
                           'theorem_or_stream': 'C15 pipeline hand-over'})
        elif res.get('stage') == 'done' and len(res.get('filtered_lines', [])) > 2:
            rep.sample({'corpus': c['lines'][:3], 'options': [c['context'], c['event'], c['options'], c['cue']],
                        'event_lines': res['event_lines'][:4], 'filter': t['filter'], 'filtered_lines': res['filtered_lines'][:4],
                        'n_events': res['n_events'], 'weights': res['weights']['cells'][:3]}, limit=3)
