"""
C15 — every stage's output is valid input for the next stage.
Lean (PyndlProps/C15.lean): conventions_agree (separators/header literals of
writer, reader, filter and creator regenerated from the source),
create_tokens_wf, filter_preserves_tokens, writer_reader_learner, writer_count,
learner_activation_consistent — the interfaces between the stage models of C09,
C10, C07/C11, C01 and C12.
Correspondence: end-to-end pipelines through the public API only, on random
Unicode corpora (the C09 grammar) x creation options x filter rules x learner
configurations: corpus -> create_event_file -> filter_event_file ->
cues_outcomes -> ndl.ndl / dict_ndl -> activation. Stage k of the model is fed
the implementation's artefact of stage k-1 and compared with the
implementation's artefact of stage k (so every hand-over is checked on real
files); in addition the model-only chain from the corpus to the weights and
activations is compared with the implementation's final results.
"""
import gen
import learners as L
import run_C09
from common import rng, frac, close, Fraction

TIMEOUT = 120


def cps(s):
    return [ord(ch) for ch in s]


def sum_is_exact(terms):
    k = 0
    for t in terms:
        d = t.denominator
        if d & (d - 1):
            return False
        k = max(k, d.bit_length() - 1)
    return sum(abs(t.numerator) * ((1 << k) // t.denominator) for t in terms) < (1 << 53)


def parse_lines(lines):
    """the documented text format: header, then cues TAB outcomes, tokens joined by '_'"""
    evs = []
    for l in lines[1:]:
        c, o = l.split('\t')
        evs.append([c.split('_'), o.split('_')])
    return evs


def canon_line(l):
    c, _, o = l.partition('\t')
    return '_'.join(sorted(c.split('_'))) + '\t' + '_'.join(sorted(o.split('_')))


def rules(r, tokens_c, tokens_o):
    def side(tokens):
        k = r.choice(['all', 'keep', 'remove', 'map'])
        ts = sorted(tokens)
        if k == 'all' or not ts:
            return None
        pick = r.sample(ts, r.randint(0, len(ts)))
        if k == 'keep':
            return {'keep': pick}
        if k == 'remove':
            return {'remove': pick}
        return {'map': [[t, r.choice(['M1', 'M2', t, ''])] for t in pick]}
    return {'cues': side(tokens_c), 'outcomes': side(tokens_o), 'n_jobs': r.choice([1, 2, 3]),
            'chunksize': r.choice([1, 2, 7, 100000])}


def run(rep, pool, driver, tier):
    r = rng('C15')
    quick = tier == 'quick'
    cases = []
    while len(cases) < (60 if quick else 700):
        c = run_C09.gen_case(r, tier)
        if c.get('exists') or not run_C09.table_ok(c):
            continue
        cases.append(c)
    # stage 1 model first: it also tells which tokens exist, so that the filter rules hit
    m1 = driver.ask([run_C09.model_request(c) for c in cases])
    tasks, keep = [], []
    for c, m in zip(cases, m1):
        if 'err' in m or 'events' not in m:
            continue
        toks_c = {t for ev in m['events'] for t in ev[0]}
        toks_o = {t for ev in m['events'] for t in ev[1]}
        p = gen.params(r)
        learner = r.choice(['dict_ndl', 'ndl_threading', 'ndl_openmp'])
        t = {'op': 'pipeline', 'create': run_C09.impl_task(c), 'filter': rules(r, toks_c, toks_o),
             'count_jobs': r.choice([1, 2, 5]), 'act_jobs': r.choice([1, 2]),
             'learn': dict(p, learner=learner, policy=r.choice(['dedup', 'keep', 'error']),
                           n_jobs=r.choice([1, 2]), per_job=r.choice([1, 3, 10]), per_file=r.choice([2, 10000000]))}
        tasks.append(t)
        keep.append((c, m))
    impls = pool.map(tasks)
    # stage-wise model requests on the implementation's artefacts
    req_f, req_c, req_l, req_a, idx = [], [], [], [], []
    for k, (t, res) in enumerate(zip(tasks, impls)):
        if 'event_lines' not in res:
            continue
        f = t['filter']
        req_f.append({'op': 'filter', 'lines': res['event_lines'], 'cues': f['cues'], 'outcomes': f['outcomes'],
                      'chunksize': f['chunksize']})
        idx.append(k)
    rep_f = dict(zip(idx, driver.ask(req_f)))
    idx2 = []
    for k in idx:
        res = impls[k]
        if 'filtered_lines' not in res:
            continue
        content = '\n'.join(res['filtered_lines']) + '\n'
        req_c.append({'op': 'text_parse', 'content': cps(content), 'count_jobs': tasks[k]['count_jobs']})
        idx2.append(k)
    rep_c = dict(zip(idx2, driver.ask(req_c)))
    idx3 = []
    for k in idx2:
        res, t = impls[k], tasks[k]
        evs = parse_lines(res['filtered_lines'])
        if not evs:
            continue
        Lc = t['learn']
        case = dict(alpha=Lc['alpha'], beta1=Lc['beta1'], beta2=Lc['beta2'], **{'lambda': Lc['lambda']},
                    events=evs, policy=Lc['policy'], per_job=Lc['per_job'], per_file=Lc['per_file'])
        req_l.append(L.model_request(case, Lc['learner']))
        idx3.append(k)
    rep_l = dict(zip(idx3, driver.ask(req_l)))
    # model-only chain from the corpus: create -> filter
    req_f2, idx4 = [], []
    for k, (c, m) in enumerate(keep):
        lines = ['cues\toutcomes'] + ['_'.join(ev[0]) + '\t' + '_'.join(ev[1]) for ev in m['events']]
        f = tasks[k]['filter']
        req_f2.append({'op': 'filter', 'lines': lines, 'cues': f['cues'], 'outcomes': f['outcomes'], 'chunksize': f['chunksize']})
        idx4.append(k)
    rep_f2 = dict(zip(idx4, driver.ask(req_f2)))
    req_l2, idx5 = [], []
    for k in idx4:
        mf = rep_f2[k]
        if 'err' in mf or len(mf['lines']) <= 1:
            continue
        Lc = tasks[k]['learn']
        case = dict(alpha=Lc['alpha'], beta1=Lc['beta1'], beta2=Lc['beta2'], **{'lambda': Lc['lambda']},
                    events=parse_lines(mf['lines']), policy=Lc['policy'], per_job=Lc['per_job'], per_file=Lc['per_file'])
        req_l2.append(L.model_request(case, Lc['learner']))
        idx5.append(k)
    rep_l2 = dict(zip(idx5, driver.ask(req_l2)))
    # activations from the model weights of the stage-wise learner
    for k, (t, res) in enumerate(zip(tasks, impls)):
        c, m = keep[k]
        rep.case({'create': {x: c[x] for x in ('lines', 'context', 'event', 'options', 'cue', 'lower_case', 'remove_duplicates')},
                  'filter': t['filter'], 'learn': t['learn']}, nontrivial=len(m['events']) >= 2, stream='pipeline')
        rep.count('learner:' + t['learn']['learner'])
        rep.count('reached_stage:' + res.get('stage', '?'))
        prob = None
        rd = c['remove_duplicates']
        if 'event_lines' not in res:
            prob = 'create_event_file failed inside the pipeline: %s %s' % (res.get('err'), res.get('msg'))
        else:
            want = ['_'.join(ev[0]) + '\t' + '_'.join(ev[1]) for ev in m['events']]
            got = res['event_lines'][1:]
            if (sorted(map(canon_line, got)) if False else [canon_line(x) if rd else x for x in got]) != \
                    [canon_line(x) if rd else x for x in want] or res['event_lines'][0] != 'cues\toutcomes':
                prob = 'stage create: event file %r, model %r' % (res['event_lines'][:4], want[:3])
        if prob is None and k in rep_f:
            mf = rep_f[k]
            if 'filtered_lines' not in res:
                if mf.get('err') != res.get('err'):
                    prob = 'stage filter: implementation %s, model %s' % (res.get('err'), mf.get('err', 'a file'))
            elif 'err' in mf or mf['lines'] != res['filtered_lines']:
                prob = 'stage filter: filtered file %r, model (on the same event file) %r' % (res['filtered_lines'][:4], mf.get('lines', mf)[:4] if 'lines' in mf else mf)
        if prob is None and k in rep_c:
            mc = rep_c[k]
            evs = parse_lines(res['filtered_lines'])
            if 'events' not in mc:
                prob = 'stage read: the model reader rejects the filtered file: %r' % mc
            elif [[''.join(map(chr, tok)) for tok in side] for ev in mc['events'] for side in ev] != [side for ev in evs for side in ev]:
                prob = 'stage read: model reader parses different events than the documented split'
            elif res.get('n_events') is not None and res['n_events'] != len(evs):
                prob = 'stage count: cues_outcomes reports %d events, the filtered file has %d' % (res['n_events'], len(evs))
            elif res.get('cue_counts') is not None:
                cc, oc = {}, {}
                for cs, os_ in evs:
                    for x in cs:
                        cc[x] = cc.get(x, 0) + 1
                    for x in os_:
                        oc[x] = oc.get(x, 0) + 1
                strided = mc.get('count')
                if sorted(cc.items()) != [tuple(x) for x in res['cue_counts']] or sorted(oc.items()) != [tuple(x) for x in res['outcome_counts']]:
                    prob = 'stage count: cue/outcome frequencies differ from a direct count of the filtered file'
        if prob is None and k in rep_l:
            ml = rep_l[k]
            if 'weights' in res:
                d = L.compare(dict(res['weights'], attrs={'number_events': res['number_events_attr']}), ml)
                if d:
                    prob = 'stage learn: ' + d
            elif res.get('stage') == 'learn':
                if ml.get('err') != res.get('err'):
                    prob = 'stage learn: implementation %s %s, model %s' % (res.get('err'), res.get('msg', ''), ml.get('err', 'weights'))
        if prob is None and k in rep_l2 and 'weights' in res:
            d = L.compare(dict(res['weights']), {kk: v for kk, v in rep_l2[k].items() if kk != 'n_events'})
            if d:
                prob = 'end to end (model-only chain corpus -> create -> filter -> learn): ' + d
        if prob is None and 'activations' in res and k in rep_l and 'err' not in rep_l[k]:
            # activations consistent with the returned weights: sum over the (de-duplicated) cues of each event
            w = gen.cells_dict(res['weights']['cells'])
            outs = res['activation_outcomes']
            evs = parse_lines(res['filtered_lines'])
            exact = rep_l[k].get('bits', 9999) <= 53
            for e_i, (cs, _) in enumerate(evs):
                for o_i, o in enumerate(outs):
                    terms = [w.get((o, cu), Fraction(0)) for cu in set(cs)]
                    want = sum(terms, Fraction(0))
                    # the float sum is exact only if every partial sum (in any order) is a double: all
                    # terms on one dyadic grid 2^-k and sum |terms| < 2^(53-k); otherwise tolerance
                    if not close(Fraction(frac(res['activations'][e_i][o_i])), want, exact and sum_is_exact(terms)):
                        prob = 'stage activation: event %d outcome %r: %s, sum of the returned weights %s' % (
                            e_i, o, float(frac(res['activations'][e_i][o_i])), float(want))
                        break
                if prob:
                    break
            if prob is None and set(outs) != set(res['weights']['outcomes']):
                prob = 'activation outcome labels differ from the weight labels'
        if prob:
            rep.violation({'what': prob, 'input': t, 'observed': {kk: res.get(kk) for kk in ('stage', 'err', 'msg', 'event_lines', 'filtered_lines', 'n_events')},
                           'theorem_or_stream': 'C15 pipeline hand-over'})
        elif res.get('stage') == 'done' and len(res.get('filtered_lines', [])) > 2:
            rep.sample({'corpus': c['lines'][:3], 'options': [c['context'], c['event'], c['options'], c['cue']],
                        'event_lines': res['event_lines'][:4], 'filter': t['filter'], 'filtered_lines': res['filtered_lines'][:4],
                        'n_events': res['n_events'], 'weights': res['weights']['cells'][:3]}, limit=3)
