"""worker process: one JSON task per line on stdin, one JSON reply per line on fd 1"""
import json
import os
import sys
import traceback
import warnings

warnings.filterwarnings('ignore')
proto = os.fdopen(os.dup(1), 'wb', buffering=0)
devnull = os.open(os.devnull, os.O_WRONLY)
os.dup2(devnull, 1)
os.dup2(devnull, 2)
sys.stdout = open(os.devnull, 'w')
sys.stderr = sys.stdout

import impl  # noqa: E402

scratch = os.environ['PYNDL_SCRATCH']
import pyndl  # noqa: E402
assert os.path.abspath(pyndl.__file__).startswith(os.path.abspath(scratch)), pyndl.__file__

# tell the pool that the imports are done: a task's deadline must not pay for them
proto.write(b'{"ready": 1}\n')

for line in sys.stdin.buffer:
    try:
        task = json.loads(line.decode('utf-8'))
        res = impl.run(task)
    except BaseException as e:  # noqa
        res = {'err': 'HarnessError', 'msg': '%s: %s' % (type(e).__name__, e),
               'tb': traceback.format_exc()[-1500:]}
    try:
        out = (json.dumps(res, ensure_ascii=False) + '\n').encode('utf-8')
    except Exception as e:  # noqa  (e.g. a lone surrogate in a result)
        out = (json.dumps({'err': 'HarnessError', 'msg': 'reply not encodable: %s' % e}) + '\n').encode('utf-8')
    proto.write(out)
