"""
C19 — corpus extraction is deterministic, complete and records missing files.
Correspondence: `pyndl.corpus.create_corpus_from_gz` on generated subtitle
trees written as real gzip XML files, symlinks and directories (nested
directories; names that sort differently by code point and by locale/case;
names with blanks; non-.gz files and directories named *.gz; symlinked
directories and files; dangling .gz links; punctuation, odd whitespace, empty
sentences; pauses at 5 s +- >= 1 frame; bad tag ids / time strings / empty <w>;
existing outfile and .not_found files; n_threads 0..6) against the Lean model
`Pyndl.Corpus.createCorpus` (PyndlModel/Corpus.lean), about which
PyndlProps/C19.lean proves corpus_eq, threads_independent, not_found_listed,
sort_total and no_overwrite.  Compared exactly, as strings: exception class,
every file created (name and content: the corpus and the .not_found file) and
that pre-existing files are unchanged.  `read_clean_gzfile` (arbitrary break
duration) and `_parse_time_string` are additionally compared on their own.
"""
import json
from fractions import Fraction

from common import rng

TRUSTED = [
    'gzip, the utf-8-sig codec, xml.etree (findall / .text / .get), os.walk(followlinks=True), os.path.join, '
    'multiprocessing.Pool.imap (results in submission order), str.strip/str.isspace table, pathlib.Path.exists',
    'the harness writer of the XML files (harness/impl_corpus.py: document_xml, build_tree)',
]
ASSUMPTIONS = [
    'time fields are non-empty ASCII digit strings (other spellings float() accepts are not generated); the model '
    'evaluates the time arithmetic in IEEE doubles like the code (Lean Float = C double), so pauses of exactly the break '
    'duration between fractional times are generated and compared, too; the exact-time theorems (corpus_eq, ...) carry '
    'the decidable hypothesis CodeCompareAgrees, which the driver evaluates for every generated document together with TimesExact (counters doc:*); the implication between them (TimesExactSuffices) is an OPEN statement',
    'file names are valid UTF-8 without surrogates; the locale encoding of open(outfile, "wt") is UTF-8',
    'unreadable means FileNotFoundError (dangling link); a *.gz file that is not gzip data aborts the run with an OSError '
    '(modelled and compared, not part of the property)',
]

WORKERS = 10
TIMEOUT = 90

FILE_NAMES = ['a.gz', 'B.gz', 'ä.gz', 'Z.gz', '_x.gz', 'a b.gz', 'a-b.gz', 'a.b.gz', '.gz', '10.gz', '9.gz',
              'é.gz', 'E.gz', 'b.gz', 'A.gz', 'a.gz.gz', '雪.gz', 'ab.gz', 'a', 'B']
OTHER_NAMES = ['x.GZ', 'readme.txt', 'a.gz.txt', 'agz', 'a.gzip', 'a.gz ', 'gz', 'B.Gz', 'notes']
DIR_NAMES = ['a', 'B', 'sub dir', 'x.gz', 'ä', 'a.d', 'a-', 'b', 'Z', 'a b']
WORDS = ['Hello', 'world', 'ä', 'ö!', '&', '<b>', 'a&amp;b', '.', ',', '?', '!', '(', ')', "'", ':', ';', '[', ']',
         '..', '?!', ' ', '\t', ' x ', 'don', "'t", '　', 'a\nb', '\xa0', 'x ', 'it', 's', '-', '"q"',
         'I', 'you', 'ok', '​', '\u2003', '  ', 'end.']
BLANKS = [' ', '\t', '　', '\xa0', '  ', '\n', '\u2003']
# U+0085 / U+2028 / U+2029 are not generated: common.Driver.ask splits the driver's replies with str.splitlines()
FPS = 30
ALL_NAMES = sorted(set(FILE_NAMES + OTHER_NAMES + DIR_NAMES))


def tstr(frames, r, wide=False):
    """hh:mm:ss,ff (or ':' as the last separator) for a non-negative number of frames"""
    f = frames % FPS
    s = frames // FPS
    if wide and s > 0 and r.random() < 0.5:
        # move whole seconds into the frame field (the code accepts any count there)
        k = r.randint(1, min(s, 30))
        s -= k
        f += k * FPS
    sep = ',' if r.random() < 0.8 else ':'
    return '%02d:%02d:%02d%s%0*d' % (s // 3600, s // 60 % 60, s % 60, sep, r.choice([2, 3]), f)


def gen_sentence(r, clock, bad, whole=False):
    """one <s>; `clock` = [frames] running clock shared by the document"""
    kind = r.random()
    if kind < 0.12:
        ws = [r.choice(BLANKS) for _ in range(r.randint(0, 2))]      # empty after strip -> skipped
    else:
        ws = [r.choice(WORDS) for _ in range(r.randint(1, 6))]
    ts = []
    n_pairs = r.choice([0, 1, 1, 1, 2])
    for k in range(n_pairs):
        if whole:
            # whole seconds only: every float the code computes is an exact integer, so a pause of
            # exactly 5 s is compared exactly as well
            gap = r.choice([0, 1, 4, 5, 5, 5, 6, 10, 3600]) * FPS
            dur = r.choice([0, 1, 2, 5]) * FPS
        else:
            gap = r.choice([0, 1, 29, 30, 90, 5 * FPS - 1, 5 * FPS + 1, 5 * FPS - 2, 5 * FPS + 31, 5 * FPS - 30,
                            5 * FPS, 5 * FPS, 5 * FPS,      # a pause of EXACTLY the break duration between fractional times:
                                                            # the code compares doubles (model: floatArith), cf. C19.boundary_pair
                            10 * FPS, 3600 * FPS + 7, 149, 151])
            dur = r.choice([0, 1, 15, 45, 100])
        clock[0] += gap
        ts.append(['T%dS' % (k + 1), tstr(clock[0], r, wide=True)])
        clock[0] += dur
        ts.append(['T%dE' % (k + 1), tstr(clock[0], r, wide=True)])
    if ts and r.random() < 0.15:
        ts.pop(r.randrange(len(ts)))                                    # unbalanced S/E
    if ts and r.random() < 0.1:
        r.shuffle(ts)
    if bad and r.random() < 0.5:
        what = r.choice(['id', 'id', 'value', 'fields', 'none'])
        if what == 'none' or not ts:
            ws.insert(r.randint(0, len(ws)), None)
        elif what == 'id':
            ts[r.randrange(len(ts))][0] = r.choice(['T1X', '', 's', 'e', 'T1', 'SE ', 'ES.'])
        elif what == 'value':
            ts[r.randrange(len(ts))][1] = r.choice(['00:00:01,xx', '00:00:,00', 'abc', '00:00:0a,00'])
        else:
            ts[r.randrange(len(ts))][1] = r.choice(['00:00:01', '00:00:01,00,00', '', '1'])
    layout = ['t'] * len(ts) + ['w'] * len(ws)
    if r.random() < 0.6:
        # usual shape: S tags, words, E tags interleaved
        r.shuffle(layout)
    return {'w': ws, 't': ts, 'layout': layout}


def margin_ok(a, e, brk):
    """float and rational comparison of `a - e > brk` provably agree: the pause is at least one frame
    away from the break duration, or both times are whole seconds (all floats involved are exact)"""
    return abs(a - e - brk) >= Fraction(1, FPS) or (a.denominator == 1 and e.denominator == 1)


def times_ok(doc):
    """every S time differs from (every possible last_time + 5 s) by >= 1 frame"""
    def val(v):
        try:
            h, m, s, f = v.replace(',', ':').split(':')
            return Fraction(int(h) * 3600 + int(m) * 60 + int(s)) + Fraction(int(f), FPS)
        except ValueError:
            return None
    ends = [Fraction(0)]
    starts = []
    for s in doc:
        for i, v in s['t']:
            x = val(v)
            if x is None:
                continue
            (ends if i[-1:] == 'E' else starts).append(x)
    return all(margin_ok(a, e, 5) for a in starts for e in ends)


def gen_doc(r, bad=False):
    for _ in range(50):
        whole = r.random() < 0.3
        clock = [r.choice([0, 0, 3 * FPS, 5 * FPS, 6 * FPS]) if whole else r.choice([0, 0, 3 * FPS, 5 * FPS + 1, 5 * FPS - 1, 200])]
        doc = [gen_sentence(r, clock, bad, whole) for _ in range(r.choice([0, 1, 1, 2, 2, 3, 4, 6]))]
        # no filter any more: since the model's time arithmetic is IEEE double (PyndlModel/Corpus.lean floatArith),
        # documents outside `TimesExact` (pause within one frame of the break duration) are compared as well
        return doc
    return [{'w': ['fallback'], 't': [], 'layout': ['w']}]


def gen_tree(r, budget, depth=0, prefix='', p_dangling=0.15, p_bad=0.0, p_notgzip=0.0):
    """list of [relative path, entry]"""
    out = []
    n = r.randint(0 if depth else 1, max(1, min(budget, 8)))
    names = r.sample(ALL_NAMES, min(n, 12))
    for name in names:
        rel = prefix + name
        isdir = (name in DIR_NAMES and r.random() < 0.75 and depth < 3) or \
                (name in ('a', 'B') and depth < 3 and r.random() < 0.5)
        if isdir:
            sub = gen_tree(r, budget // 2, depth + 1, rel + '/', p_dangling, p_bad, p_notgzip)
            if sub:
                out.extend(sub)
            else:
                out.append([rel, 'dir'])
        elif name.endswith('.gz'):
            x = r.random()
            if x < p_dangling:
                out.append([rel, 'dangling'])
            elif x < p_dangling + p_notgzip:
                out.append([rel, 'notgzip'])
            else:
                out.append([rel, {'doc': gen_doc(r, bad=r.random() < p_bad)}])
        else:
            out.append([rel, 'notgzip' if r.random() < 0.7 else {'doc': gen_doc(r)}])
    return out


def gen_case(r, i):
    mode = r.random()
    p_bad = 0.25 if mode < 0.12 else 0.0
    p_notgzip = 0.2 if 0.12 <= mode < 0.16 else 0.0
    p_dangling = r.choice([0.0, 0.15, 0.15, 0.4])
    tree = gen_tree(r, r.choice([3, 6, 10, 16]), p_dangling=p_dangling, p_bad=p_bad, p_notgzip=p_notgzip)
    r.shuffle(tree)
    # symlinked directories / files (followlinks=True): some directory prefixes and files live outside
    links = []
    dirs = sorted({'/'.join(p.split('/')[:k]) for p, _ in tree for k in range(1, len(p.split('/')))})
    if dirs and r.random() < 0.45:
        links.append(r.choice(dirs))
    files = [p for p, e in tree if isinstance(e, dict) and not any(p.startswith(l + '/') for l in links)]
    if files and r.random() < 0.25:
        links.append(r.choice(files))
    outfile = r.choice(['out.txt', 'out.txt', 'corpus', 'res/out.txt', 'out.gz'])
    existing = []
    x = r.random()
    if x < 0.08:
        existing.append(outfile)
    if r.random() < 0.3:
        existing.append(outfile + '.not_found')
        if r.random() < 0.5:
            existing.append(outfile + '.not_found-1')
            if r.random() < 0.3:
                existing.append(outfile + '.not_found-2')
    elif r.random() < 0.15:
        existing.append(outfile + r.choice(['.not_found-1', '.not_found-2', '.not_found1']))
    c = {'op': 'corpus_create', 'directory': r.choice(['t', 't', 't/', './t', 'd/t', 'my dir']),
         'outfile': outfile, 'n_threads': r.choice([1, 2, 3, 4, 5, 6]) if r.random() < 0.97 else 0,
         'existing': existing, 'dir_exists': r.random() >= 0.03, 'tree': tree, 'links': links,
         'bom': r.random() < 0.3}
    return c


def model_request(c):
    q = {k: c[k] for k in ('op', 'directory', 'outfile', 'n_threads', 'existing', 'dir_exists')}
    q['tree'] = [[p, ({'doc': [{'w': s['w'], 't': s['t']} for s in e['doc']]} if isinstance(e, dict) else e)]
                 for p, e in c['tree']]
    return q


def expected_files(c, m):
    out = {}
    if m.get('corpus') is not None:
        out[c['outfile']] = m['corpus']
    if m.get('not_found_name') is not None:
        out[m['not_found_name']] = m['not_found']
    return out


def compare(c, impl, model):
    if 'err' in impl:
        return 'implementation side: %s %s' % (impl.get('err'), impl.get('msg', ''))
    if impl.get('raised') != model.get('raised'):
        return 'exception class: real %s (%s), model %s' % (impl.get('raised'), impl.get('cls'), model.get('raised'))
    if 'returned' in impl:
        return 'returned a value: ' + impl['returned']
    if not impl.get('existing_unchanged'):
        return 'a pre-existing file was modified'
    exp = expected_files(c, model)
    got = impl.get('new_files', {})
    if sorted(got) != sorted(exp):
        return 'files created: real %s, model %s' % (sorted(got), sorted(exp))
    for k in exp:
        if got[k] != exp[k]:
            what = 'corpus file' if k == c['outfile'] else '.not_found file'
            return '%s content differs' % what
    return None


def evaluate(pool, driver, cs):
    impls = pool.map([dict(c) for c in cs])
    models = driver.ask([model_request(c) for c in cs])
    return [(compare(c, i, m), i, m) for c, i, m in zip(cs, impls, models)]


def smaller(c):
    """candidate simplifications of a case, most aggressive first"""
    tree = c['tree']
    n = len(tree)
    if n > 1:
        yield dict(c, tree=tree[:n // 2])
        yield dict(c, tree=tree[n // 2:])
    for i in range(n):
        yield dict(c, tree=tree[:i] + tree[i + 1:])
    if c.get('links'):
        yield dict(c, links=[])
    if c.get('existing'):
        yield dict(c, existing=[])
        for i in range(len(c['existing'])):
            yield dict(c, existing=c['existing'][:i] + c['existing'][i + 1:])
    if c['n_threads'] > 1:
        yield dict(c, n_threads=1)
    if c.get('verbose'):
        yield {k: v for k, v in c.items() if k != 'verbose'}
    if c.get('bom'):
        yield dict(c, bom=False)
    if c['directory'] != 't':
        yield dict(c, directory='t')
    if c['outfile'] != 'out.txt' and not c.get('existing'):
        yield dict(c, outfile='out.txt')
    for i, (p, e) in enumerate(tree):
        def put(e2, p2=p):
            return dict(c, tree=tree[:i] + [[p2, e2]] + tree[i + 1:])
        if '/' in p and not c.get('links') and p.split('/')[-1] not in [q.split('/')[0] for q, _ in tree]:
            yield put(e, p.split('/')[-1])
        if isinstance(e, dict):
            doc = e['doc']
            for k in range(len(doc)):
                yield put({'doc': doc[:k] + doc[k + 1:]})
            for k, s in enumerate(doc):
                def puts(s2):
                    return put({'doc': doc[:k] + [s2] + doc[k + 1:]})
                for j in range(len(s['w'])):
                    yield puts({'w': s['w'][:j] + s['w'][j + 1:], 't': s['t']})
                for j in range(len(s['t'])):
                    yield puts({'w': s['w'], 't': s['t'][:j] + s['t'][j + 1:]})
                if s.get('layout'):
                    yield puts({'w': s['w'], 't': s['t']})


def shrink(pool, driver, c, max_rounds=40):
    steps = 0
    for _ in range(max_rounds):
        cands = list(smaller(c))[:160]
        if not cands:
            break
        res = evaluate(pool, driver, cands)
        hit = next((k for k, (d, _, _) in enumerate(res) if d is not None), None)
        if hit is None:
            break
        c = cands[hit]
        steps += 1
    return c, steps


def python_snippet(c):
    return ("import json, os, sys\n"
            "sys.path.insert(0, '/verif/harness')   # for the XML writer only; pyndl from PYTHONPATH\n"
            "os.makedirs('work', exist_ok=True); os.chdir('work')\n"
            "import impl_corpus\n"
            "task = json.loads(%r)\n"
            "print(impl_corpus.op_corpus_create(task))   # builds the tree, calls pyndl.corpus.create_corpus_from_gz(%r, %r, n_threads=%d%s)\n"
            % (json.dumps(c, ensure_ascii=False), c['directory'], c['outfile'], c['n_threads'],
               ', verbose=True' if c.get('verbose') else ''))


# ---------------------------------------------------------------------------
# unit streams: read_clean_gzfile and _parse_time_string on their own
# ---------------------------------------------------------------------------

def unit_cases(r, n):
    out = []
    for _ in range(n):
        brk = r.choice([None, None, '5', '2', '0', '7/2'])
        doc = gen_doc(r, bad=r.random() < 0.15)
        if brk not in (None, '5'):
            # keep the pause margin for the other break durations, too
            b = Fraction(brk)
            ok = True
            ends, starts = [Fraction(0)], []
            for s in doc:
                for i, v in s['t']:
                    try:
                        h, m, sec, f = v.replace(',', ':').split(':')
                        x = Fraction(int(h) * 3600 + int(m) * 60 + int(sec)) + Fraction(int(f), FPS)
                    except ValueError:
                        continue
                    (ends if i[-1:] == 'E' else starts).append(x)
            ok = all(margin_ok(a, e, b) for a in starts for e in ends)   # counted only (no longer filtered)
        out.append({'op': 'corpus_read_clean', 'doc': doc, 'break': brk, 'bom': r.random() < 0.3})
    for _ in range(max(4, n // 4)):
        v = r.choice([tstr(r.randint(0, 400000), r, wide=True), '00:00:01', '1:2:3:4', '01,02,03,04', 'a:b:c:d',
                      '00:00:00,000', '99:59:59,29', '::,', '1:2:3:4:5'])
        out.append({'op': 'corpus_parse_time', 'value': v})
    return out


def unit_compare(t, impl, model):
    if t['op'] == 'corpus_parse_time':
        if ('err' in impl) != ('err' in model):
            return 'parse_time: real %s, model %s' % (impl, model)
        if 'err' in impl:
            return None if impl['err'] == model['err'] else 'exception class: real %s, model %s' % (impl['err'], model['err'])
        a, b = Fraction(impl['time']), Fraction(model['time'])
        return None if abs(a - b) <= Fraction(1, 2 ** 30) * max(1, abs(b)) else 'time value: real %s, model %s' % (a, b)
    if impl.get('err') != model.get('err'):
        return 'read_clean exception class: real %s (%s), model %s' % (impl.get('err'), impl.get('msg'), model.get('err'))
    if impl.get('lines') != model.get('lines'):
        return 'read_clean lines differ'
    return None


def unit_request(t):
    q = {k: v for k, v in t.items() if k != 'bom'}
    if 'doc' in q:
        q['doc'] = [{'w': s['w'], 't': s['t']} for s in q['doc']]
    if q.get('break') is None:
        q.pop('break', None)
    return q


def unit_shrink(pool, driver, t):
    if t['op'] != 'corpus_read_clean':
        return t
    for _ in range(30):
        doc = t['doc']
        cands = [dict(t, doc=doc[:k] + doc[k + 1:]) for k in range(len(doc))]
        for k, s in enumerate(doc):
            for j in range(len(s['w'])):
                cands.append(dict(t, doc=doc[:k] + [{'w': s['w'][:j] + s['w'][j + 1:], 't': s['t']}] + doc[k + 1:]))
            for j in range(len(s['t'])):
                cands.append(dict(t, doc=doc[:k] + [{'w': s['w'], 't': s['t'][:j] + s['t'][j + 1:]}] + doc[k + 1:]))
        if not cands:
            break
        impls = pool.map(cands)
        models = driver.ask([unit_request(x) for x in cands])
        hit = next((k for k in range(len(cands)) if unit_compare(cands[k], impls[k], models[k])), None)
        if hit is None:
            break
        t = cands[hit]
    return t


# ---------------------------------------------------------------------------

FIXED = [
    # the shapes the property names, always run first
    {'op': 'corpus_create', 'directory': 't', 'outfile': 'out.txt', 'n_threads': 2, 'existing': [], 'dir_exists': True,
     'links': [], 'bom': False,
     'tree': [['a.gz', {'doc': [{'w': ['Hello', ',', 'world', '!'], 't': [['T1S', '00:00:06,00'], ['T1E', '00:00:07,00']]}]}],
              ['B.gz', {'doc': [{'w': ['b'], 't': []}]}], ['ä.gz', {'doc': []}], ['x.gz/in.gz', {'doc': [{'w': [' '], 't': [['TX', 'bad']]}]}],
              ['a/b.gz', 'dangling'], ['a b.gz', {'doc': [{'w': ['sp'], 't': []}]}], ['readme.txt', 'notgzip']]},
    {'op': 'corpus_create', 'directory': 't', 'outfile': 'out.txt', 'n_threads': 3, 'existing': ['out.txt.not_found'],
     'dir_exists': True, 'links': [], 'bom': True,
     'tree': [['z.gz', 'dangling'], ['a.gz', 'dangling'], ['m.gz', {'doc': [{'w': ['m'], 't': []}]}]]},
    {'op': 'corpus_create', 'directory': 't', 'outfile': 'out.txt', 'n_threads': 1, 'existing': ['out.txt'],
     'dir_exists': True, 'links': [], 'bom': False, 'tree': [['a.gz', {'doc': [{'w': ['a'], 't': []}]}]]},
    {'op': 'corpus_create', 'directory': 't', 'outfile': 'out.txt', 'n_threads': 4, 'existing': [], 'dir_exists': True,
     'links': ['lnk'], 'bom': False,
     'tree': [['lnk/o.gz', {'doc': [{'w': ['outside'], 't': []}]}], ['b.gz', {'doc': [{'w': ['x', None], 't': []}]}],
              ['a.gz', {'doc': [{'w': ['first'], 't': []}]}]]},
]


def run(rep, pool, driver, tier):
    r = rng('C19')
    n = 900 if tier == 'quick' else 12000
    cs = [dict(c) for c in FIXED] + [gen_case(r, i) for i in range(n)]
    # X1: `verbose=True` for about a quarter of the calls (own random stream: the cases above stay the
    # same); the model knows no verbose flag, so files and exceptions must be those of verbose=False.
    # The progress block (`progress_counter % 1000 == 0`) needs 1000 files: one tree of 1000 entries
    # (two documents, 998 dangling links, which cost nothing to create or to read).
    rv = rng('C19/verbose')
    for c in cs:
        if rv.random() < 0.25:
            c['verbose'] = True
    many = [['f%04d.gz' % k, 'dangling'] for k in range(1000)]
    many[rv.randrange(1000)][1] = {'doc': [{'w': ['one'], 't': []}]}
    many[rv.randrange(1000)][1] = {'doc': [{'w': ['two', 'words'], 't': []}]}
    cs.append({'op': 'corpus_create', 'directory': 't', 'outfile': 'out.txt', 'n_threads': rv.choice([1, 3]), 'existing': [],
               'dir_exists': True, 'links': [], 'bom': False, 'tree': many, 'verbose': True})
    failures = []
    B = 400
    for lo in range(0, len(cs), B):
        batch = cs[lo:lo + B]
        for c, (d, impl, model) in zip(batch, evaluate(pool, driver, batch)):
            gz = [(p, e) for p, e in c['tree'] if p.endswith('.gz') and e != 'dir']
            n_dang = sum(1 for _, e in gz if e == 'dangling')
            rep.case(model_request(c), nontrivial=len(gz) >= 2, stream='create_corpus')
            # per document, from the driver: is it inside TimesExact (the margin condition), and did the doubles
            # and the rationals order every comparable pair of times the same way (the hypothesis CodeCompareAgrees of
            # the exact-time theorems)?  The OPEN statement TimesExactSuffices says the first implies the second.
            for dd in model.get('docs', []):
                rep.count('doc:times_exact=%s,compare_agrees=%s' % (dd.get('times_exact'), dd.get('compare_agrees')))
                if dd.get('times_exact') and not dd.get('compare_agrees'):
                    rep.lean_problems.append('C19.TimesExactSuffices (OPEN statement) is refuted by document %s of a generated tree' % dd.get('path'))
            rep.count('outcome:' + (model.get('raised') or 'Returned'))
            rep.count('n_threads:%d' % c['n_threads'])
            rep.count('verbose:%s' % bool(c.get('verbose')))
            if c.get('verbose') and len(gz) >= 1000:
                rep.count('verbose_with_1000_files(progress block reached)')
            rep.count('gz_files:%s' % ('0' if not gz else '1' if len(gz) == 1 else '2-4' if len(gz) <= 4 else '5+'))
            rep.count('dangling:%s' % ('0' if n_dang == 0 else '1' if n_dang == 1 else '2+'))
            if model.get('not_found_name') and model['not_found_name'] != c['outfile'] + '.not_found':
                rep.count('not_found_renamed')
            if c['outfile'] in c['existing']:
                rep.count('outfile_exists')
            if c.get('links'):
                rep.count('with_symlinked_dir_or_file')
            if any('/' in p for p, _ in gz):
                rep.count('nested')
            if model.get('corpus') and '\n\n' in model['corpus'].replace('\n\n---END.OF.DOCUMENT---\n\n', ''):
                rep.count('with_paragraph_break')
            if d is not None:
                failures.append((c, d))
            elif len(gz) >= 3 and model.get('raised') is None and n_dang:
                rep.sample({'directory': c['directory'], 'paths': sorted(p for p, _ in c['tree']), 'n_threads': c['n_threads'],
                            'corpus': model['corpus'][:300], 'not_found': model.get('not_found')}, limit=3)
    for c, d in failures[:4]:
        small, steps = shrink(pool, driver, c)
        (d2, impl2, model2), = evaluate(pool, driver, [small])
        rep.violation({'what': d2 or d, 'input': {k: v for k, v in small.items() if k != 'op'},
                       'observed': {k: impl2.get(k) for k in ('raised', 'cls', 'msg', 'new_files', 'existing_unchanged', 'err')},
                       'expected': {'raised': model2.get('raised'), 'files': expected_files(small, model2)},
                       'python': python_snippet(small),
                       'theorem_or_stream': 'correspondence create_corpus_from_gz vs Pyndl.Corpus.createCorpus '
                                            '(C19: corpus_eq / not_found_listed / no_overwrite)',
                       'shrunk_from_paths': len(c['tree']), 'shrink_steps': steps})
    # unit streams
    us = unit_cases(rng('C19-unit'), 400 if tier == 'quick' else 5000)
    impls = pool.map([dict(t) for t in us])
    models = driver.ask([unit_request(t) for t in us])
    ufail = []
    for t, i, m in zip(us, impls, models):
        rep.case(unit_request(t), nontrivial=bool(t.get('doc')), stream=t['op'])
        rep.count('unit:' + t['op'] + ':' + (m.get('err') or 'ok'))
        d = unit_compare(t, i, m)
        if d:
            ufail.append((t, d, i, m))
    for t, d, i, m in ufail[:3]:
        small = unit_shrink(pool, driver, t)
        i2 = pool.map([dict(small)])[0]
        m2 = driver.ask([unit_request(small)])[0]
        rep.violation({'what': unit_compare(small, i2, m2) or d, 'input': small,
                       'observed': {k: i2.get(k) for k in ('lines', 'time', 'err', 'msg')},
                       'expected': {k: m2.get(k) for k in ('lines', 'time', 'err')},
                       'python': 'harness/impl_corpus.py: OPS[%r](%s)' % (small['op'], json.dumps(small, ensure_ascii=False)),
                       'theorem_or_stream': 'correspondence %s vs Pyndl.Corpus.%s' % (
                           small['op'], 'readClean' if small['op'] == 'corpus_read_clean' else 'parseTime')})
    rep.extra['failures_total'] = len(failures) + len(ufail)


def replay(rep, pool, driver, rp):
    c = dict(rp['input'])
    c.setdefault('op', 'corpus_create')
    if c['op'] == 'corpus_create':
        (d, impl, model), = evaluate(pool, driver, [c])
    else:
        impl = pool.map([dict(c)])[0]
        model = driver.ask([unit_request(c)])[0]
        d = unit_compare(c, impl, model)
    rep.case(c, stream='replay')
    if d:
        rep.violation({'what': d, 'input': c, 'observed': impl, 'expected': model})
