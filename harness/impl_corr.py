"""
Implementation-side ops for C18: the real `pyndl.correlation.correlation`, the
real OpenMP kernel `pyndl.correlation_openmp.correlation` and the property's
own reference `pyndl.correlation._reference_correlation`, imported from the
scratch build.  Nothing here computes a correlation itself.

task: {"op": "corr", "sem": rows, "act": rows, "allow_nan": bool,
       "configs": [{"layout": "C"|"F"|"S", "via": "public"|"shim"|"kernel",
                    "n_jobs": n, "chunksize": c}, ...], "reference": bool}
  entries of the matrices: JSON integers or strings "num/den", "nan", "inf", "-inf"

  via = "public": `correlation.correlation(sem, act, allow_nan=…)` untouched (the kernel then
                  runs with its default n_jobs=30, chunksize=10)
  via = "shim":   the same public function, but the module attribute
                  `pyndl.correlation.correlation_openmp` is replaced for the call by a forwarder
                  that calls the *real* kernel with `n_jobs=…, chunksize=…` added
  via = "kernel": `correlation_openmp.correlation(sem, act, means, stds, means, stds, n_jobs=…,
                  chunksize=…)` directly, with the means/stds the public function computed
                  (recorded by the same forwarder during a preceding public call)

result: {"results": [{"shape": [r, c], "cells": [[hex …] …]} | {"err": …} …],
         "reference": [[hex …] …] | {"err": …} | None, "inputs_unmodified": bool}
floats travel as `float.hex()` strings (exact, sign of zero and NaN preserved).
"""
import contextlib
import io
from fractions import Fraction

import numpy as np

import pyndl.correlation as corr_py
from pyndl import correlation_openmp as corr_kernel


def classify(exc):
    if isinstance(exc, AssertionError):
        return 'Raised:Assertion'
    if isinstance(exc, KeyError):
        return 'Raised:Key'
    if isinstance(exc, ValueError):
        return 'Raised:Value'
    if isinstance(exc, OSError):
        return 'Raised:IO'
    if isinstance(exc, TypeError):
        return 'Raised:Type'
    return 'Raised:Other'


def err(exc):
    return {'err': classify(exc), 'cls': type(exc).__name__, 'msg': str(exc)[:300]}


def entry(v):
    if isinstance(v, str):
        if v in ('nan', 'inf', '-inf'):
            return float(v)
        return float(Fraction(v))
    return float(v)


def matrix(rows):
    n = len(rows)
    m = len(rows[0]) if rows else 0
    a = np.empty((n, m), dtype=np.float64)
    for k, row in enumerate(rows):
        for j, v in enumerate(row):
            a[k, j] = entry(v)
    return a


def layout(a, kind):
    """the same logical matrix in C order, Fortran order, or as a strided slice of a bigger array"""
    if kind == 'C':
        out = np.ascontiguousarray(a)
        assert out.flags['C_CONTIGUOUS']
    elif kind == 'F':
        out = np.asfortranarray(a)
        assert out.flags['F_CONTIGUOUS']
    elif kind == 'S':
        big = np.full((2 * a.shape[0] + 1, 3 * a.shape[1] + 2), 7.25, dtype=np.float64)
        out = big[::2, ::3][:a.shape[0], :a.shape[1]]
        out[...] = a
        assert out.strides == (big.strides[0] * 2, big.strides[1] * 3)
    elif kind == 'R':
        # negative strides: a reversed view of a reversed copy
        out = np.ascontiguousarray(a[::-1, ::-1])[::-1, ::-1]
    elif kind == 'P':
        # unit stride along axis 0, but NOT Fortran-contiguous: the first rows of a taller Fortran array
        big = np.full((a.shape[0] + 5, a.shape[1]), 7.25, dtype=np.float64, order='F')
        out = big[:a.shape[0]]
        out[...] = a
        assert out.strides[0] == 8 and (a.shape[1] < 2 or out.strides[1] == 8 * (a.shape[0] + 5))
    elif kind == 'Q':
        # unit stride along axis 1, but NOT C-contiguous: the first columns of a wider C array
        big = np.full((a.shape[0], a.shape[1] + 3), 7.25, dtype=np.float64, order='C')
        out = big[:, :a.shape[1]]
        out[...] = a
        assert out.strides[1] == 8
    elif kind == 'T':
        # the transposed view of a C array holding the transposed matrix, every second column of it
        big = np.full((2 * a.shape[1], a.shape[0]), 7.25, dtype=np.float64, order='C')
        big[::2] = a.T
        out = big[::2].T
    else:
        raise RuntimeError('bad layout')
    assert out.shape == a.shape and out.dtype == np.float64 and np.array_equal(out, a, equal_nan=True)
    return out


def hexmat(m):
    m = np.asarray(m)
    return {'shape': list(m.shape), 'cells': [[float(v).hex() for v in row] for row in m.tolist()]}


class _Forwarder:
    """stands in for the module `correlation_openmp` inside pyndl.correlation for one call"""

    def __init__(self, kw):
        self.kw = kw
        self.args = None

    def correlation(self, *args):
        self.args = args
        return corr_kernel.correlation(*args, **self.kw)


def call(sem, act, allow_nan, cfg):
    # X1: with cfg['verbose'] the public function runs its `if verbose:` blocks too (they define
    # start_time and print two timings); the printed text is captured in memory
    with contextlib.redirect_stdout(io.StringIO()):
        return _call(sem, act, allow_nan, cfg, {'verbose': True} if cfg.get('verbose') else {})


def _call(sem, act, allow_nan, cfg, vkw):
    via = cfg.get('via', 'public')
    if via == 'public':
        return corr_py.correlation(sem, act, allow_nan=allow_nan, **vkw)
    kw = {'n_jobs': int(cfg['n_jobs']), 'chunksize': int(cfg['chunksize'])}
    fwd = _Forwarder(kw)
    real = corr_py.correlation_openmp
    corr_py.correlation_openmp = fwd
    try:
        res = corr_py.correlation(sem, act, allow_nan=allow_nan, **vkw)
    finally:
        corr_py.correlation_openmp = real
    if via == 'shim':
        return res
    # via == 'kernel': the documented direct call, statistics as computed by the public function
    _s, _a, sm, ss, am, as_ = fwd.args
    return corr_kernel.correlation(sem, act, sm, ss, am, as_, **kw)


def op_corr(t):
    sem0 = matrix(t['sem'])
    act0 = matrix(t['act'])
    allow_nan = bool(t.get('allow_nan', False))
    results = []
    unmodified = True
    for cfg in t['configs']:
        sem = layout(sem0, cfg.get('layout', 'C'))
        act = layout(act0, cfg.get('layout_act', cfg.get('layout', 'C')))
        try:
            with np.errstate(all='ignore'):
                res = call(sem, act, allow_nan, cfg)
            results.append(hexmat(res))
        except Exception as e:  # noqa
            results.append(err(e))
        if sem.tobytes() != sem0.tobytes() or act.tobytes() != act0.tobytes():
            unmodified = False
    ref = None
    if t.get('reference'):
        try:
            with np.errstate(all='ignore'):
                ref = hexmat(corr_py._reference_correlation(np.ascontiguousarray(sem0), np.ascontiguousarray(act0)))
        except Exception as e:  # noqa
            ref = err(e)
    return {'results': results, 'reference': ref, 'inputs_unmodified': unmodified}


OPS = {'corr': op_corr}
