"""
C12 — activations are the cue-wise sums of weights on every code path.
Lean (PyndlProps/C12.lean): act_eq_sum (matrix paths, multiplicity),
act_cues_policy, act_missing (KeyError / ignore table), act_dict_eq_sum,
paths_agree, events_independent (multi-process = single-process), step_delta.
Correspondence: random dyadic weight matrices as DataArray (n_jobs 1..6,
list and generator input) and as dict of dicts (plain dicts and WeightDict);
events incl. empty cue lists, unknown cues, repeats; every duplicate policy and
ignore_missing_cues setting; activations compared exactly (rationals) with the
Lean model, exception classes compared; step_delta additionally checked on the
implementation alone: learning one further event with dict_ndl changes each
weight by multiplicity*alpha*beta*(target - activation) with the activation
taken from the real activation().
"""
import gen
from common import rng, frac

TIMEOUT = 60


def run(rep, pool, driver, tier):
    r = rng('C12')
    quick = tier == 'quick'
    tasks = []
    for i in range(120 if quick else 1500):
        outs = r.sample(gen.OUTS + ['', 'q'], r.randint(1, 5))
        cues = r.sample(gen.CUES, r.randint(1, 6))
        vals = ['%d/%d' % (r.randint(-16, 16), r.choice([1, 2, 4, 8])) for _ in range(len(outs) * len(cues))]
        n_ev = r.randint(0, 5)
        unknown = r.random() < 0.3
        evs = []
        for _ in range(n_ev):
            pool_c = cues + (['UNKNOWN', 'ZZ'] if unknown else [])
            k = r.randint(0, 4)
            cs = [r.choice(pool_c) for _ in range(k)] if r.random() < 0.4 else r.sample(pool_c, min(k, len(pool_c)))
            evs.append(cs)
        policy = r.choice(['error', 'dedup', 'keep'])
        if r.random() < 0.55:
            tasks.append({'op': 'activation', 'kind': 'matrix', 'outcomes': outs, 'cues': cues, 'vals': vals,
                          'events': evs, 'policy': policy, 'ignore_missing': r.random() < 0.5,
                          'n_jobs': r.choice([1, 1, 2, 3, 6]), 'as_generator': r.random() < 0.3,
                          'layout': r.choice(['c', 'c', 'f', 'transposed', 'slice'])})
        else:
            rows = []
            for oi, o in enumerate(outs):
                cells = [[c, vals[oi * len(cues) + ci]] for ci, c in enumerate(cues) if r.random() < 0.8]
                rows.append([o, cells])
            tasks.append({'op': 'activation', 'kind': 'dict', 'rows': rows, 'events': evs, 'policy': policy,
                          'strict': r.random() < 0.5})
    impls = pool.map(tasks)
    models = driver.ask(tasks)
    for t, impl, model in zip(tasks, impls, models):
        has_dup = any(len(set(e)) != len(e) for e in t['events'])
        rep.case({k: v for k, v in t.items() if k != 'op'}, nontrivial=len(t['events']) >= 1, stream='activation_' + t['kind'])
        rep.count('policy:' + t['policy'])
        rep.count('outcome:' + model.get('err', 'Returned'))
        if has_dup:
            rep.count('events_with_repeated_cue')
        if t['kind'] == 'matrix':
            rep.count('n_jobs:%d' % t['n_jobs'])
            rep.count('layout:' + t['layout'])
            rep.count('ignore_missing:%s' % t['ignore_missing'])
        prob = None
        if 'err' in model or 'err' in impl:
            if impl.get('err') != model.get('err'):
                prob = 'model predicts %s, implementation %s %s' % (model.get('err', 'a result'), impl.get('err', 'returned'), impl.get('msg', ''))
        elif t['kind'] == 'matrix':
            if impl['outcomes'] != model['outcomes']:
                prob = 'outcome labels of the activations %r, weights %r' % (impl['outcomes'], model['outcomes'])
            elif impl['dims'] != ['outcomes', 'events']:
                prob = 'dims %r' % impl['dims']
            elif [[frac(x) for x in row] for row in impl['by_event']] != [[frac(x) for x in row] for row in model['by_event']]:
                prob = 'activations %r, model %r' % (impl['by_event'], model['by_event'])
            elif not impl['weights_unchanged']:
                prob = 'weights modified'
        else:
            a = {o: [frac(x) for x in v] for o, v in impl['by_outcome']}
            b = {o: [frac(x) for x in v] for o, v in model['by_outcome']}
            if a != b:
                prob = 'dict activations %r, model %r' % (impl['by_outcome'], model['by_outcome'])
        if prob:
            rep.violation({'what': prob, 'input': t, 'observed': impl, 'expected': model,
                           'theorem_or_stream': 'C12 act_eq_sum / act_missing: activation() vs Lean model (%s path)' % t['kind']})
        elif len(t['events']) >= 2 and 'err' not in model:
            rep.sample({'kind': t['kind'], 'policy': t['policy'], 'events': t['events'], 'result': impl.get('by_event', impl.get('by_outcome'))})
    # learner / activation link on the implementation
    tasks = []
    for i in range(40 if quick else 500):
        outs = r.sample(gen.OUTS, r.randint(1, 4))
        cues = r.sample(gen.CUES, r.randint(1, 5))
        rows = [[o, [[c, '%d/%d' % (r.randint(-8, 8), r.choice([1, 2, 4]))] for c in cues if r.random() < 0.8]] for o in outs]
        policy = r.choice(['dedup', 'keep'])
        ec = [r.choice(gen.CUES) for _ in range(r.randint(1, 4))]
        eo = r.sample(gen.OUTS, r.randint(0, 2))
        tasks.append(dict(gen.params(r), op='step_delta', rows=rows, event=[ec, eo], policy=policy))
    for t, res in zip(tasks, pool.map(tasks)):
        rep.case({k: v for k, v in t.items() if k != 'op'}, nontrivial=True, stream='step_delta')
        if 'err' in res or res['bad']:
            rep.violation({'what': 'one further learning step does not change the weights by multiplicity*alpha*beta*(target - activation): %r'
                                   % (res.get('bad') or res), 'input': t,
                           'theorem_or_stream': 'C12 step_delta on dict_ndl + activation()'})
        else:
            rep.count('step_delta_cells_checked', res['n_cells'])
