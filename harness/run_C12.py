"""
C12 — activations are the cue-wise sums of weights on every code path.
Lean (PyndlProps/C12.lean): act_eq_sum (matrix paths, multiplicity),
act_cues_policy, act_missing (KeyError / ignore table), act_dict_eq_sum,
paths_agree, events_independent (multi-process = single-process), step_delta.
Correspondence: random dyadic weight matrices as DataArray (n_jobs 1..6,
list and generator input) and as dict of dicts (plain dicts and WeightDict);
events incl. empty cue lists, unknown cues, repeats; every duplicate policy and
ignore_missing_cues setting; activations compared exactly (rationals) with the
Lean model, exception classes compared; step_delta additionally checked on the
implementation alone: learning one further event with dict_ndl changes each
weight by multiplicity*alpha*beta*(target - activation) with the activation
taken from the real activation().
Stream `activation_path_*`: the events are given as the PATH of an event file
(activation() then reads it with io.events_from_file): unknown cues, all three
policies, n_jobs 1..6, both weight kinds; optionally a third (frequency) column -
the reader repeats a line that many times, so the model is asked for the
expanded events (one activation column per repetition, none for frequency 0);
an empty cue field is read as the cue named "".
Multi-process tie (`mp_model`): for every matrix case with n_jobs >= 2 the driver is
ALSO asked for the model of the n_jobs >= 2 path (op `activation_mp`,
PyndlModel/ActivationMP.lean: flat shared buffer, one column-write task per event)
with a completion order drawn by the harness (a random permutation of the event
indices); activation() must equal it (it equals the single-process model for every
permutation by C12 activation_mp_eq_single, so this is a cheap consistency tie).
"""
import gen
from common import rng, frac

TIMEOUT = 60


def model_request(t):
    """what the model is asked: for a path task the events the file MEANS (a line repeated by its frequency, an
    empty cue field read as the cue '')"""
    if not t.get('as_path'):
        return t
    evs = []
    for k, c in enumerate(t['events']):
        evs += [list(c) if c else ['']] * (1 if t.get('freq') is None else t['freq'][k])
    return dict({k: v for k, v in t.items() if k not in ('as_path', 'freq', 'file_outcomes')}, events=evs)


def mp_request(t, r):
    """the request for the multi-process model of a matrix case with n_jobs >= 2 (None otherwise): the
    model request plus a harness-chosen completion order of the per-event tasks"""
    if t['kind'] != 'matrix' or t.get('n_jobs', 1) < 2:
        return None
    q = dict(model_request(t), op='activation_mp')
    order = list(range(len(q['events'])))
    r.shuffle(order)
    q['order'] = order
    return q


def problem(t, impl, model):
    """None when activation() and the model agree on one task"""
    if 'err' in model or 'err' in impl:
        if impl.get('err') != model.get('err'):
            return 'model predicts %s, implementation %s %s' % (model.get('err', 'a result'), impl.get('err', 'returned'), impl.get('msg', ''))
        return None
    if t['kind'] == 'matrix':
        if impl['outcomes'] != model['outcomes']:
            return 'outcome labels of the activations %r, weights %r' % (impl['outcomes'], model['outcomes'])
        if impl['dims'] != ['outcomes', 'events']:
            return 'dims %r' % impl['dims']
        if [[frac(x) for x in row] for row in impl['by_event']] != [[frac(x) for x in row] for row in model['by_event']]:
            return 'activations %r, model %r' % (impl['by_event'], model['by_event'])
        if not impl['weights_unchanged']:
            return 'weights modified'
        return None
    a = {o: [frac(x) for x in v] for o, v in impl['by_outcome']}
    b = {o: [frac(x) for x in v] for o, v in model['by_outcome']}
    if a != b:
        return 'dict activations %r, model %r' % (impl['by_outcome'], model['by_outcome'])
    return None


def shrink(pool, driver, t, budget=30):
    """greedy: drop events (with their frequency), drop cues, frequency column away, n_jobs 1, while still disagreeing"""
    steps = 0

    def fails(x):
        nonlocal steps
        steps += 1
        return problem(x, pool.map([x])[0], driver.ask([model_request(x)])[0]) is not None

    def without(x, i):
        y = dict(x, events=x['events'][:i] + x['events'][i + 1:])
        for k in ('freq', 'file_outcomes'):
            if x.get(k) is not None:
                y[k] = x[k][:i] + x[k][i + 1:]
        return y

    cur, changed = dict(t), True
    while changed and steps < budget:
        changed = False
        cands = [without(cur, i) for i in range(len(cur['events']))]
        cands += [dict(cur, events=cur['events'][:i] + [e[:j] + e[j + 1:]] + cur['events'][i + 1:])
                  for i, e in enumerate(cur['events']) for j in range(len(e)) if len(e) > 1]
        if cur.get('freq') is not None:
            cands.append(dict(cur, freq=None))
        if cur.get('n_jobs', 1) != 1:
            cands.append(dict(cur, n_jobs=1))
        if cur.get('layout', 'c') != 'c':
            cands.append(dict(cur, layout='c'))
        for c in cands:
            if steps >= budget:
                break
            if fails(c):
                cur, changed = c, True
                break
    return cur, steps


def snippet(t):
    lines = ["import gzip, os, tempfile, numpy as np, xarray as xr", "from fractions import Fraction as F",
             "from pyndl import activation, ndl"]
    if t['kind'] == 'matrix':
        lines.append("w = xr.DataArray(np.array([float(F(v)) for v in %r]).reshape(%d, %d), [('outcomes', %r), ('cues', %r)])  # layout %s"
                     % (t['vals'], len(t['outcomes']), len(t['cues']), t['outcomes'], t['cues'], t.get('layout', 'c')))
        kw = "n_jobs=%d, remove_duplicates=%r, ignore_missing_cues=%r" % (
            t.get('n_jobs', 1), {'error': None, 'dedup': True, 'keep': False}[t['policy']], bool(t.get('ignore_missing')))
    else:
        lines.append("w = {o: {c: float(F(v)) for c, v in cells} for o, cells in %r}  # %s" % (t['rows'], 'plain dict' if t.get('strict') else 'as ndl.WeightDict'))
        kw = "remove_duplicates=%r" % ({'error': None, 'dedup': True, 'keep': False}[t['policy']],)
    lines.append("cue_lists = %r" % (t['events'],))
    if t.get('as_path'):
        lines += ["freq = %r  # third column (None: no such column)" % (t.get('freq'),),
                  "outs = %r" % (t.get('file_outcomes') or [[] for _ in t['events']],),
                  "p = os.path.join(tempfile.mkdtemp(), 'events.tab.gz')",
                  "with gzip.open(p, 'wt', encoding='utf-8') as f:",
                  "    f.write('cues\\toutcomes\\n')",
                  "    for k, c in enumerate(cue_lists): f.write('_'.join(c) + '\\t' + '_'.join(outs[k]) + ('\\t%d' % freq[k] if freq else '') + '\\n')",
                  "print(activation.activation(p, w, %s))" % kw]
    else:
        lines.append("print(activation.activation([(c, []) for c in cue_lists], w, %s))" % kw)
    return '\n'.join(lines)


def draw(r, as_path):
    """one activation task; `as_path`: events handed over as the path of an event file"""
    if True:
        outs = r.sample(gen.OUTS + ['', 'q'], r.randint(1, 5))
        cues = r.sample(gen.CUES, r.randint(1, 6))
        vals = ['%d/%d' % (r.randint(-16, 16), r.choice([1, 2, 4, 8])) for _ in range(len(outs) * len(cues))]
        n_ev = r.randint(0, 5)
        unknown = r.random() < (0.4 if as_path else 0.3)
        evs = []
        for _ in range(n_ev):
            pool_c = cues + (['UNKNOWN', 'ZZ'] if unknown else [])
            k = r.randint(0, 4)
            if as_path and k == 0 and r.random() < 0.7:
                k = r.randint(1, 4)      # (an empty cue field is read as the unknown cue '': keep it, but rarer)
            cs = [r.choice(pool_c) for _ in range(k)] if r.random() < 0.4 else r.sample(pool_c, min(k, len(pool_c)))
            evs.append(cs)
        policy = r.choice(['error', 'dedup', 'keep'])
        if r.random() < (0.7 if as_path else 0.55):
            t = {'op': 'activation', 'kind': 'matrix', 'outcomes': outs, 'cues': cues, 'vals': vals,
                 'events': evs, 'policy': policy, 'ignore_missing': r.random() < 0.5,
                 'n_jobs': r.choice([1, 1, 2, 3, 6]), 'as_generator': r.random() < 0.3,
                 'layout': r.choice(['c', 'c', 'f', 'transposed', 'slice'])}
        else:
            rows = []
            for oi, o in enumerate(outs):
                cells = [[c, vals[oi * len(cues) + ci]] for ci, c in enumerate(cues) if r.random() < 0.8]
                rows.append([o, cells])
            t = {'op': 'activation', 'kind': 'dict', 'rows': rows, 'events': evs, 'policy': policy,
                 'strict': r.random() < 0.5}
        if as_path:
            t['as_path'] = True
            if t['kind'] == 'matrix':
                t['n_jobs'] = r.randint(1, 6)
            # the outcome column of the file (activation() ignores it), sometimes empty
            t['file_outcomes'] = [r.sample(gen.OUTS, r.randint(0, 2)) for _ in evs]
            # a frequency column 0..3 on half of the files (zeros included, also all zero)
            t['freq'] = [r.randint(0, 3) for _ in evs] if r.random() < 0.5 else None
        return t


def with_dtype(r, t):
    """weights of another dtype than float64 (float32, int64): the sum must still be the exact sum of the stored
    values for every n_jobs — in a third of these cases with magnitudes whose float32 sum would round (1e8 + 1 - 1e8)"""
    if t['kind'] != 'matrix':
        return t
    t['dtype'] = r.choice(['float32', 'float32', 'int64'])
    n = len(t['outcomes']) * len(t['cues'])
    if t['dtype'] == 'int64':
        t['vals'] = ['%d/1' % r.randint(-16, 16) for _ in range(n)]
    elif r.random() < 0.6:
        t['vals'] = [r.choice(['100000000/1', '-100000000/1', '1/1', '3/8', '-1/1', '0/1', '16777216/1', '-16777216/1'])
                     for _ in range(n)]
        # every cue in the events, so that large and small magnitudes meet in one sum
        t['events'] = [list(t['cues']) for _ in range(max(1, len(t['events'])))]
        t['policy'] = 'keep'
        if t.get('as_path'):
            t['file_outcomes'] = [[] for _ in t['events']]
            t['freq'] = None
    return t


def run(rep, pool, driver, tier):
    r = rng('C12')
    quick = tier == 'quick'
    tasks = [draw(r, False) for i in range(120 if quick else 1500)]
    rp = rng('C12/path')
    tasks += [draw(rp, True) for i in range(70 if quick else 900)]
    rd = rng('C12/dtype')
    tasks += [with_dtype(rd, draw(rd, i % 3 == 0)) for i in range(40 if quick else 400)]
    impls = pool.map(tasks)
    models = driver.ask([model_request(t) for t in tasks])
    ro = rng('C12/mp_order')
    mp_reqs = [mp_request(t, ro) for t in tasks]
    mp_models = iter(driver.ask([q for q in mp_reqs if q is not None]))
    reported = 0
    for t, impl, model, mpq in zip(tasks, impls, models, mp_reqs):
        if mpq is not None:
            mpm = next(mp_models)
            rep.count('mp_model/n_events:%s' % min(len(mpq['events']), 3))
            rep.count('mp_model/order:%s' % ('identity' if mpq['order'] == sorted(mpq['order']) else 'permuted'))
            if {k: v for k, v in mpm.items() if k != 'id'} != {k: v for k, v in model.items() if k != 'id'}:
                rep.violation({'what': 'the multi-process model (completion order %r) and the single-process model differ: %r vs %r'
                                       % (mpq['order'], mpm, model), 'input': mpq,
                               'theorem_or_stream': 'C12 activation_mp_eq_single (model self-consistency; a framework defect, not one of the code)'})
            pm = problem(t, impl, mpm)
            if pm and not problem(t, impl, model):
                rep.violation({'what': 'multi-process model: ' + pm, 'input': t, 'observed': impl, 'expected': mpm, 'python': snippet(t),
                               'theorem_or_stream': 'C12 mp_cells_written_once: activation(n_jobs>=2) vs the multi-process model, order %r' % (mpq['order'],)})
        has_dup = any(len(set(e)) != len(e) for e in t['events'])
        stream = 'activation_' + ('path_' if t.get('as_path') else '') + t['kind']
        rep.case({k: v for k, v in t.items() if k != 'op'}, nontrivial=len(t['events']) >= 1, stream=stream)
        rep.count('policy:' + t['policy'])
        rep.count('outcome:' + model.get('err', 'Returned'))
        if has_dup:
            rep.count('events_with_repeated_cue')
        if t['kind'] == 'matrix':
            rep.count('n_jobs:%d' % t['n_jobs'])
            rep.count('layout:' + t['layout'])
            rep.count('dtype:' + t.get('dtype', 'float64'))
            rep.count('ignore_missing:%s' % t['ignore_missing'])
        rep.count('events_as:%s' % ('path' if t.get('as_path') else 'generator' if t['kind'] == 'matrix' and t.get('as_generator') else 'list'))
        if t.get('as_path'):
            known = set(t['cues']) if t['kind'] == 'matrix' else None
            rep.count('path/%s/policy=%s/%s/outcome=%s' % (t['kind'], t['policy'], 'freq' if t['freq'] is not None else 'nofreq',
                                                       model.get('err', 'Returned')))
            if t['kind'] == 'matrix':
                rep.count('path/n_jobs:%d' % t['n_jobs'])
                rep.count('path/ignore_missing:%s/%s' % (t['ignore_missing'], 'unknown cue' if any(
                    c not in known for e in model_request(t)['events'] for c in e) else 'all cues known'))
            if t['freq'] is not None:
                rep.count('path/freq_column:%s' % ('all zero' if not any(t['freq']) else 'with zero' if 0 in t['freq'] else 'no zero'))
            if any(not e for e in t['events']):
                rep.count('path/empty_cue_field')
        prob = problem(t, impl, model)
        if prob:
            small, steps = t, 0
            if reported < 3:
                reported += 1
                small, steps = shrink(pool, driver, t)
                impl2, model2 = pool.map([small])[0], driver.ask([model_request(small)])[0]
                p2 = problem(small, impl2, model2)
                if p2:
                    prob, impl, model = p2, impl2, model2
                else:
                    small, steps = t, 0
            rep.violation({'what': prob, 'input': small, 'observed': impl, 'expected': model, 'python': snippet(small),
                           'shrink_steps': steps, 'shrunk_from_events': len(t['events']),
                           'theorem_or_stream': 'C12 act_eq_sum / act_missing: activation() vs Lean model (%s path, events given as %s)'
                                                % (t['kind'], 'event-file path' if t.get('as_path') else 'list/iterator')})
        elif len(t['events']) >= 2 and 'err' not in model:
            rep.sample({'kind': t['kind'], 'policy': t['policy'], 'events': t['events'], 'result': impl.get('by_event', impl.get('by_outcome'))})
    # learner / activation link on the implementation
    tasks = []
    for i in range(40 if quick else 500):
        outs = r.sample(gen.OUTS, r.randint(1, 4))
        cues = r.sample(gen.CUES, r.randint(1, 5))
        rows = [[o, [[c, '%d/%d' % (r.randint(-8, 8), r.choice([1, 2, 4]))] for c in cues if r.random() < 0.8]] for o in outs]
        policy = r.choice(['dedup', 'keep'])
        ec = [r.choice(gen.CUES) for _ in range(r.randint(1, 4))]
        eo = r.sample(gen.OUTS, r.randint(0, 2))
        tasks.append(dict(gen.params(r), op='step_delta', rows=rows, event=[ec, eo], policy=policy))
    # the same step taken by the parallel learners continuing from the labelled matrix (seeded change C12_d: rows
    # of outcomes the extra event does not mention were no longer updated); more outcomes than one work item
    rs = rng('C12/step_ndl')
    for i in range(30 if quick else 300):
        outs = rs.sample(gen.OUTS_M, rs.randint(2, 14))
        cues = rs.sample(gen.CUES, rs.randint(1, 5))
        rows = [[o, [[c, '%d/%d' % (rs.randint(-8, 8), rs.choice([1, 2, 4]))] for c in cues]] for o in outs]
        ec = [rs.choice(gen.CUES) for _ in range(rs.randint(1, 4))]
        eo = rs.sample(gen.OUTS_M, rs.randint(1, 2))          # a few of the known outcomes, or new ones
        tasks.append(dict(gen.params(rs), op='step_delta', rows=rows, event=[ec, eo], policy=rs.choice(['dedup', 'keep']),
                          learner=rs.choice(['ndl_threading', 'ndl_openmp']), n_jobs=rs.choice([1, 2, 3]),
                          per_job=rs.choice([1, 2, 10])))
    for t, res in zip(tasks, pool.map(tasks)):
        rep.case({k: v for k, v in t.items() if k != 'op'}, nontrivial=True, stream='step_delta')
        if 'err' in res or res['bad']:
            rep.violation({'what': 'one further learning step does not change the weights by multiplicity*alpha*beta*(target - activation): %r'
                                   % (res.get('bad') or res), 'input': t,
                           'theorem_or_stream': 'C12 dict_step_delta / ndl_step_delta on %s + activation()' % t.get('learner', 'dict_ndl')})
        else:
            rep.count('step_delta_cells_checked', res['n_cells'])
            rep.count('step_delta_learner:' + t.get('learner', 'dict_ndl'))
