"""
C17 — learner calls leave no temporary files behind and never touch their inputs.
Lean (PyndlProps/C17.lean): fs_clean (bracket = with TemporaryDirectory: every
body below its directory, every exit), exit_preserved, fs_clean_nested (spool
directory of generator input around the chunk directory), chunk_paths_inside,
old_spool_leaks (F7, repaired).
Correspondence: every learner (dict_ndl, ndl threading/openmp, wh flavours,
numpy, dict_wh) x events given as path / generator / list x
temporary_directory given or defaulted (TMPDIR redirected to a private
directory) x success and every injected failure of C05 (repeated cue, malformed
line, truncated gzip, missing vector, unusable parameter, every storage byte
budget): directory listings of both temp roots before/after and sha256 of the
input file are compared with the model's always-clean prediction. partial: that
the real bodies write only below their TemporaryDirectory is exactly what this
run observes; rmtree/Pool.terminate behave as documented.
"""
import run_C05
from common import rng

TIMEOUT = 40
WORKERS = 14


def run(rep, pool, driver, tier):
    r = rng('C17')
    quick = tier == 'quick'
    tasks = []
    for rnd in range(2 if quick else 12):
        for learner in run_C05.ALL:
            single = learner in run_C05.SINGLE
            n = r.choice([4, 5, 6])
            es = run_C05.base_events(r, n, single)
            forms = {'dict_ndl': ['path', 'list', 'generator'], 'ndl_threading': ['path', 'generator'],
                     'ndl_openmp': ['path', 'generator']}.get(learner, ['path'])
            for form in forms:
                for given in ([False, True] if learner in run_C05.PATH_CONV else [False]):
                    cfg = dict(op='fault_run', learner=learner, n_jobs=r.choice([1, 2, 4]), per_job=r.choice([1, 10]),
                               per_file=r.choice([2, 3, 10000000]) if learner in run_C05.PATH_CONV else 10000000,
                               form=form, given_tmp=given)
                    faults = [None]
                    pos = r.randrange(n)
                    faults.append({'kind': 'dup_cue', 'pos': pos})
                    if form == 'path':
                        faults.append({'kind': 'bad_line', 'pos': pos, 'shape': r.choice(['one_col', 'four_cols'])})
                        faults.append({'kind': 'truncated_gz', 'fraction': r.choice([0.4, 0.8])})
                    if form == 'generator':
                        # failures while the generator is still being consumed / spooled (seeded change C17_a)
                        faults.append({'kind': 'gen_raises', 'pos': r.choice([0, 1, n - 1])})
                        faults.append({'kind': 'gen_bad_event', 'pos': r.choice([0, n // 2])})
                    which = 'eta' if learner.startswith('wh') or learner == 'dict_wh' else r.choice(['alpha', 'beta', 'lambda'])
                    faults.append({'kind': 'bad_param', 'which': which, 'value': r.choice(['str', 'none'])})
                    if learner in run_C05.PATH_CONV:
                        faults.append({'kind': 'storage', 'budget': r.choice([0, 11, 12, 20, 31, 40, 47, 60])})
                    if quick:
                        must = [f for f in faults[1:] if f['kind'].startswith('gen_')]
                        rest = [f for f in faults[1:] if not f['kind'].startswith('gen_')]
                        faults = [None] + must + r.sample(rest, min(2, len(rest)))
                    for f in faults:
                        es2 = es
                        if f and f['kind'] == 'dup_cue':
                            es2 = [list(map(list, e)) for e in es]
                            es2[pos][0] = es2[pos][0] + [es2[pos][0][0]]
                        if f and f['kind'] == 'truncated_gz':
                            es2 = es * 3
                        tasks.append(dict(cfg, events=es2, fault=f))
    impls = pool.map(tasks)
    for t, res in zip(tasks, impls):
        got = res.get('outcome', res.get('err', '?'))
        kind = (t['fault'] or {'kind': 'none'})['kind']
        rep.case({'learner': t['learner'], 'form': t['form'], 'given_tmp': t['given_tmp'], 'fault': t['fault'], 'events': t['events']},
                 nontrivial=True, stream='%s/%s' % (t['form'], 'given_tmp' if t['given_tmp'] else 'default_tmp'))
        rep.count('fault:' + kind)
        rep.count('exit:' + ('returned' if got == 'Returned' else 'raised' if got.startswith('Raised') else got))
        rep.count('learner:' + t['learner'])
        lo = res.get('leftovers')
        prob = None
        if got in ('Timeout', 'WorkerDied', 'HarnessError'):
            prob = 'call did not finish: %s %s' % (got, res.get('msg', ''))
        elif lo is None:
            prob = 'no directory listing returned'
        elif lo['systmp'] or lo['giventmp']:
            prob = 'after the call (%s, exit %s) the temp directories contain new entries: system temp %r, temporary_directory %r' % (
                kind, got, lo['systmp'], lo['giventmp'])
        elif res.get('file_unchanged') is False:
            prob = 'input event file is not byte-for-byte unchanged'
        if prob:
            rep.violation({'what': prob, 'input': t, 'observed': {k: res.get(k) for k in ('outcome', 'cls', 'msg', 'leftovers', 'file_unchanged')},
                           'expected': 'no new entry in either temp root; input file unchanged',
                           'theorem_or_stream': 'C17 fs_clean: %s, events as %s, fault %s' % (t['learner'], t['form'], kind)})
        else:
            rep.sample({'learner': t['learner'], 'form': t['form'], 'given_tmp': t['given_tmp'], 'fault': t['fault'], 'exit': got,
                        'leftovers': lo}, limit=6)
