"""
C17 — learner calls leave no temporary files behind and never touch their inputs.
Lean (PyndlProps/C17.lean): fs_clean (bracket = with TemporaryDirectory: every
body below its directory, every exit), exit_preserved, fs_clean_nested (spool
directory of generator input around the chunk directory), chunk_paths_inside,
old_spool_leaks (F7, repaired).
Correspondence: every learner (dict_ndl, ndl threading/openmp, wh flavours,
numpy, dict_wh) x events given as path / generator / list x
temporary_directory given or defaulted (TMPDIR redirected to a private
directory) x success and every injected failure of C05 (repeated cue, malformed
line, truncated gzip, missing vector, unusable parameter, every storage byte
budget) and failures of the learning stage itself, which are found only after
counting and after the chunk files exist (an unknown `method`, `method=
'threading'` for the wh flavours, n_outcomes_per_job=0) or while `weights` is
taken over (an array with one vector dimension too many / a bare ndarray for the
wh flavours); verbose=True for a quarter of the calls: directory listings of
both temp roots before/after and sha256 of the
input file are compared with the model's always-clean prediction.
THE EFFECTS MODEL IS EVALUATED: every call runs with `watch` (harness/fswatch.py:
a listing — paths + sha256 — of the call's whole private root before and after,
and an inotify record of the entries created / removed meanwhile, also by the
call's worker processes).  The driver op `effects_call` gets the listing before
the call, the call shape (events as path / generator; temporary_directory given
or defaulted), the exit, and the temporary directories the call was OBSERVED to
create below its temp root with the entries observed inside them (the model's
bodies are abstract: `opsBody` takes any op list), runs `bracketC` / `opsBody` /
`generatorCallC` (PyndlModel/Effects.lean; C17 fs_clean_contents,
inputs_unchanged, path_call_clean) and returns the final listing, which must
equal the real listing after the call, path for path and hash for hash (input
file included).  What the model cannot express is itself reported: an entry
observed OUTSIDE a temporary directory directly below the temp root (the
`OnlyBelowC` assumption, now observed during the call and not only at its end),
or more temporary directories than the call shape has brackets.
partial: that the real bodies write only below their TemporaryDirectory is
exactly what this run observes (the inotify record is a lower bound: an entry
that lives for less than the time it takes to install the watch on a new
directory is missed); rmtree/Pool.terminate behave as documented.
"""
import run_C05
from common import rng

TIMEOUT = 40
WORKERS = 14


def fault_kind(t):
    kind = (t['fault'] or {'kind': 'none'})['kind']
    if kind == 'bad_method':
        kind += ':' + t['fault']['method']
    if kind == 'bad_weights':
        kind += ':' + t['fault']['shape']
    return kind


def effects_request(t, res):
    """(request for driver op effects_call, entries observed outside every temporary directory) for one watched call"""
    root = 'giventmp' if t.get('given_tmp') else 'systmp'
    dirs, by_name, outside = [], {}, []
    for kind, comps, is_dir in res.get('observed', []):
        if comps[0] == root and len(comps) == 2 and (is_dir or comps[1] in by_name):
            if kind == 'create' and comps[1] not in by_name:
                by_name[comps[1]] = {'name': comps[1], 'ops': []}
                dirs.append(by_name[comps[1]])
            elif kind == 'remove' and comps[1] in by_name:
                # the bracket's own rmtree: what it removed just before belongs to it, not to the body
                ops = by_name[comps[1]]['ops']
                while ops and ops[-1][0] == 'remove':
                    ops.pop()
        elif comps[0] == root and len(comps) >= 3 and comps[1] in by_name:
            by_name[comps[1]]['ops'].append(['write' if kind == 'create' else 'remove', '/'.join(comps[2:])])
        else:
            outside.append([kind, '/'.join(comps)])
    got = res.get('outcome', res.get('err', '?'))
    req = {'op': 'effects_call', 'initial': res.get('listing_before', []), 'tmp_root': [root],
           'shape': 'generator' if t.get('form') == 'generator' and t['learner'].startswith('ndl') else 'path',
           'dirs': dirs, 'exit': 'returned' if got == 'Returned' else 'raised'}
    if req['shape'] == 'generator':
        req['spool_exit'] = 'raised' if len(dirs) == 1 and req['exit'] == 'raised' else 'returned'
    return req, outside


def judge_effects(t, res, model, outside):
    """the watched call against the Effects model: None, or what differs"""
    if 'listing_after' not in res:
        return None
    if outside:
        return 'entries created / removed OUTSIDE the call\'s temporary directories while it ran: %r' % (outside[:6],)
    if 'unmodelled' in model:
        return 'the call does not have the shape of the model: %s' % model['unmodelled']
    if model['final'] != res['listing_after']:
        after = {tuple(p): h for p, h in res['listing_after']}
        final = {tuple(p): h for p, h in model['final']}
        diff = sorted(('/'.join(p), final.get(p, 'absent'), after.get(p, 'absent')) for p in set(after) | set(final)
                      if after.get(p, 'absent') != final.get(p, 'absent'))
        return 'listing after the call differs from the Effects model (path, model, real): %r' % (diff[:6],)
    return None


def judge(t, res):
    """the property predicate on one observed call: a description of the violation, or None"""
    got = res.get('outcome', res.get('err', '?'))
    kind = fault_kind(t)
    lo = res.get('leftovers')
    if got in ('Timeout', 'WorkerDied', 'HarnessError'):
        return 'call did not finish: %s %s' % (got, res.get('msg', ''))
    if lo is None:
        return 'no directory listing returned'
    if lo['systmp'] or lo['giventmp']:
        return 'after the call (%s, exit %s) the temp directories contain new entries: system temp %r, temporary_directory %r' % (
            kind, got, lo['systmp'], lo['giventmp'])
    if res.get('file_unchanged') is False:
        return 'input event file is not byte-for-byte unchanged'
    if got == 'Returned' and kind in ('bad_method:nope', 'per_job_zero', 'bad_weights:extra_vector_dim', 'bad_weights:ndarray'):
        # (method='threading' is a documented value of wh.wh that is not implemented today: only the
        # listings are required there)
        return 'a call that cannot be carried out (%s) returned weights' % kind
    return None


def run(rep, pool, driver, tier):
    r = rng('C17')
    quick = tier == 'quick'
    tasks = []
    for rnd in range(2 if quick else 12):
        for learner in run_C05.ALL:
            single = learner in run_C05.SINGLE
            n = r.choice([4, 5, 6])
            es = run_C05.base_events(r, n, single)
            forms = {'dict_ndl': ['path', 'list', 'generator'], 'ndl_threading': ['path', 'generator'],
                     'ndl_openmp': ['path', 'generator']}.get(learner, ['path'])
            for form in forms:
                for given in ([False, True] if learner in run_C05.PATH_CONV else [False]):
                    cfg = dict(op='fault_run', learner=learner, n_jobs=r.choice([1, 2, 4]), per_job=r.choice([1, 10]),
                               per_file=r.choice([2, 3, 10000000]) if learner in run_C05.PATH_CONV else 10000000,
                               form=form, given_tmp=given)
                    faults = [None]
                    pos = r.randrange(n)
                    faults.append({'kind': 'dup_cue', 'pos': pos})
                    if form == 'path':
                        faults.append({'kind': 'bad_line', 'pos': pos, 'shape': r.choice(['one_col', 'four_cols'])})
                        faults.append({'kind': 'truncated_gz', 'fraction': r.choice([0.4, 0.8])})
                    if form == 'generator':
                        # failures while the generator is still being consumed / spooled (seeded change C17_a)
                        faults.append({'kind': 'gen_raises', 'pos': r.choice([0, 1, n - 1])})
                        faults.append({'kind': 'gen_bad_event', 'pos': r.choice([0, n // 2])})
                    which = 'eta' if learner.startswith('wh') or learner == 'dict_wh' else r.choice(['alpha', 'beta', 'lambda'])
                    faults.append({'kind': 'bad_param', 'which': which, 'value': r.choice(['str', 'none'])})
                    if learner in run_C05.PATH_CONV:
                        faults.append({'kind': 'storage', 'budget': r.choice([0, 11, 12, 20, 31, 40, 47, 60])})
                    # failures of the learning stage (audit C17-1).  What the unchanged code does (probed):
                    # method='nope' -> ValueError, for ndl.ndl / wh binary-real / real-binary only after the chunk
                    # files were written; method='threading' -> ValueError('TODO ...') for every wh flavour, after
                    # the chunk files; n_outcomes_per_job=0 -> ValueError (threading) / ZeroDivisionError (openmp
                    # kernels), after the chunk files; weights with a vector dimension too many or a bare ndarray
                    # -> ValueError before anything is written.  Required here: the call ends and leaves nothing.
                    stage = []
                    if learner not in ('dict_ndl', 'dict_wh'):
                        stage.append({'kind': 'bad_method', 'method': 'nope'})
                    if learner.startswith('wh_'):
                        stage.append({'kind': 'bad_method', 'method': 'threading'})
                        stage.append({'kind': 'bad_weights', 'shape': r.choice(['extra_vector_dim', 'ndarray'])})
                    if learner in run_C05.PATH_CONV:
                        stage.append({'kind': 'per_job_zero'})
                    faults += stage
                    if quick:
                        must = [f for f in faults[1:] if f['kind'].startswith('gen_')] + (r.sample(stage, 1) if stage else [])
                        rest = [f for f in faults[1:] if not f['kind'].startswith('gen_') and f not in must]
                        faults = [None] + must + r.sample(rest, min(2, len(rest)))
                    for f in faults:
                        es2 = es
                        if f and f['kind'] == 'dup_cue':
                            es2 = [list(map(list, e)) for e in es]
                            es2[pos][0] = es2[pos][0] + [es2[pos][0][0]]
                        if f and f['kind'] == 'truncated_gz':
                            es2 = es * 3
                        tasks.append(dict(cfg, events=es2, fault=f))
    # X1: verbose=True for a quarter of the calls (a stream of its own: the tasks above are what they were)
    rv = rng('C17/verbose')
    for t in tasks:
        if rv.random() < 0.25:
            t['verbose'] = True
        t['watch'] = True
    impls = pool.map(tasks)
    ereqs = [effects_request(t, res) for t, res in zip(tasks, impls)]
    emodels = driver.ask([q for q, _ in ereqs])
    n_shrunk = 0

    def judge2(c, x):
        p = judge(c, x)
        if p is None and 'listing_after' in x:
            q, out = effects_request(c, x)
            p = judge_effects(c, x, driver.ask([q])[0], out)
        return p

    for t, res, (ereq, outside), emodel in zip(tasks, impls, ereqs, emodels):
        got = res.get('outcome', res.get('err', '?'))
        kind = fault_kind(t)
        rep.count('verbose:%s' % bool(t.get('verbose')))
        if kind.split(':')[0] in ('bad_method', 'per_job_zero', 'bad_weights'):
            rep.count('learning_stage_fault_exit:%s:%s' % (kind, got))
        rep.case({'learner': t['learner'], 'form': t['form'], 'given_tmp': t['given_tmp'], 'fault': t['fault'], 'events': t['events']},
                 nontrivial=True, stream='%s/%s' % (t['form'], 'given_tmp' if t['given_tmp'] else 'default_tmp'))
        rep.count('fault:' + kind)
        rep.count('exit:' + ('returned' if got == 'Returned' else 'raised' if got.startswith('Raised') else got))
        rep.count('learner:' + t['learner'])
        lo = res.get('leftovers')
        if 'listing_after' in res:
            rep.count('effects:shape=%s/temp_dirs=%d' % (ereq['shape'], len(ereq['dirs'])))
            rep.count('effects:inotify_record:%s' % ('yes' if res.get('watched', True) else 'no (listings only)'))
            rep.count('effects:entries_observed_in_temp_dirs', sum(len(d['ops']) for d in ereq['dirs']))
            rep.count('effects:listing_entries_compared', len(res['listing_after']))
        prob = judge(t, res) or judge_effects(t, res, emodel, outside)
        if prob:
            steps = 0
            if n_shrunk < 3:
                # the first three violations are shrunk (events dropped, configuration simplified)
                n_shrunk += 1
                t, steps = run_C05.shrink(pool, t, 'storage' if kind == 'storage' else kind, lambda c, x: judge2(c, x) is not None,
                                          rounds=3 if got in ('Timeout', 'WorkerDied') else 8)   # a hanging variant costs 15 s
                if steps:
                    res = pool.map([t])[0]
                    prob = judge2(t, res) or prob
            rep.violation({'what': prob, 'input': t, 'observed': {k: res.get(k) for k in ('outcome', 'cls', 'msg', 'leftovers', 'file_unchanged',
                                                                                          'observed', 'listing_after')},
                           'expected': 'no new entry in either temp root; input file unchanged; the final listing of the Effects model '
                                       '(driver op effects_call) = the listing before the call',
                           'theorem_or_stream': 'C17 fs_clean / fs_clean_contents: %s, events as %s, fault %s' % (t['learner'], t['form'], kind),
                           'python': run_C05.snippet(t), 'shrink_steps': steps})
        else:
            rep.sample({'learner': t['learner'], 'form': t['form'], 'given_tmp': t['given_tmp'], 'fault': t['fault'], 'exit': got,
                        'leftovers': lo}, limit=6)
