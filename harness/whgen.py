"""generators and comparison shared by run_C08 / run_C14"""
from fractions import Fraction

from common import frac, close

ETAS = ['1/2', '1/4', '1/8', '1/16']


def table(r, names, n_dims, onehot=False, prefix='d', small=False):
    """`small`: entries from {-1, -1/2, 0, 1/2, 1} (long event sequences stay contractive for eta <= 1/16)"""
    dims = ['%s%d' % (prefix, i) for i in range(n_dims)]
    rows = []
    order = list(names)
    r.shuffle(order)
    if onehot:
        perm = r.sample(range(n_dims), len(order))
        for k in perm:
            rows.append(['1' if j == k else '0' for j in range(n_dims)])
        return {'names': order, 'dims': dims, 'rows': rows, 'hot': {n: dims[k] for n, k in zip(order, perm)}}
    for _ in order:
        if small:
            rows.append([r.choice(['-1', '-1/2', '0', '1/2', '1']) for _ in range(n_dims)])
            continue
        rows.append(['%d/%d' % (r.randint(-3, 3), r.choice([1, 1, 2])) for _ in range(n_dims)])
    return {'names': order, 'dims': dims, 'rows': rows}


def model_request(t):
    q = {'op': 'wh', 'flavour': t['flavour'], 'events': [e for p in (t.get('pieces') or [t['events']]) for e in p],
         'policy': t['policy'], 'chunk': t.get('per_job', 10)}
    if t.get('events_form', 'path') == 'path':
        # the text format reads an empty outcome field back as the outcome named '' (C07); identity otherwise
        q['events'] = [[list(c), list(o) if o else ['']] for c, o in q['events']]
    for k in ('eta', 'beta1', 'beta2', 'lambda', 'cue_vectors', 'outcome_vectors', 'init'):
        if t.get(k) is not None:
            q[k] = t[k]
    if t['flavour'] == 'r2b' and not t.get('betas_direct'):
        q['beta1'] = q['beta2'] = t['eta']
        q['lambda'] = '1'
    return q


def py_model_request(t):
    """the request for the models of the numpy / dict_wh paths THEMSELVES (driver ops wh_numpy / dict_wh,
    lean/PyndlModel/WHPy.lean `whNumpyModel` / `dictWhModel`): the calls one by one (`pieces`), each
    continuing from the previous result, as op_wh runs them"""
    pieces = [list(p) for p in (t.get('pieces') or [t['events']])]
    if t.get('events_form', 'path') == 'path':
        # the text format reads an empty outcome field back as the outcome named '' (C07)
        pieces = [[[list(c), list(o) if o else ['']] for c, o in p] for p in pieces]
    q = {'op': 'wh_numpy' if t['method'] == 'numpy' else 'dict_wh', 'pieces': pieces, 'policy': t['policy'],
         'eta': t['eta'], 'cue_vectors': t['cue_vectors'], 'outcome_vectors': t['outcome_vectors']}
    if t.get('init') is not None:
        q['init'] = t['init']
    if t['method'] == 'dict_wh':
        q['make_data_array'] = bool(t.get('make_data_array', False))
    return q


def compare_py(impl, model):
    """compare() plus what only the models of the Python paths say: which call of a chain failed, and the type
    dict_wh returns"""
    d = compare(impl, model)
    if d:
        return d
    if 'err' in model:
        if impl.get('failed_piece') != model.get('failed_piece'):
            return 'model: call %r of the chain raises, implementation: call %r' % (model.get('failed_piece'), impl.get('failed_piece'))
        return None
    if model.get('result_type') is not None and impl.get('result_type') != model['result_type']:
        return 'result type %r, model %r' % (impl.get('result_type'), model['result_type'])
    return None


def compare(impl, model):
    if 'err' in model:
        if impl.get('err') == model['err']:
            return None
        return 'model predicts %s, implementation %s %s' % (model['err'], impl.get('err', 'returned'), impl.get('msg', ''))
    if 'err' in impl:
        return 'model predicts a result, implementation %s (%s)' % (impl['err'], impl.get('msg', '')[:150])
    exact = model.get('bits', 9999) <= 49       # see learners.EXACT_BITS
    rows, cols = model['rows'], model['cols']
    mc = {(rows[i], cols[j]): frac(v) for i, j, v in model['cells']}
    ic = {}
    for o, c, v in impl['cells']:
        ic[(o, c)] = frac(v)
    for k in set(mc) | set(ic):
        a, b = ic.get(k, Fraction(0)), mc.get(k, Fraction(0))
        if not close(a, b, exact):
            return 'weight[%r][%r]: implementation %s, model %s (%s)' % (k[0], k[1], float(a), float(b),
                                                                         'exact' if exact else 'tolerance')
    if set(impl['rows']) != set(rows) or set(impl['cols']) != set(cols):
        return 'labels differ: impl rows %r cols %r, model rows %r cols %r' % (impl['rows'], impl['cols'], rows, cols)
    if impl.get('inputs_unmodified') is not None and not all(impl['inputs_unmodified']):
        return 'weights argument modified'
    if impl.get('tables_unmodified') is False:
        return 'vector tables modified'
    lo = impl.get('leftovers')
    if lo and (lo['systmp'] or lo['giventmp']):
        return 'temporary entries left behind: %r' % lo
    return None


# ---------------------------------------------------------------- many chunk files (audit X7)
def n_chunk_files(n_events, per_file):
    return -(-n_events // per_file)


def lexsorted_events(events, per_file):
    """the event order that a LEXICOGRAPHIC sort of the chunk file names events_0_<k>.dat would
    learn (diagnostic only: tells whether a case could see a mis-sorted chunk list)"""
    chunks = [events[i:i + per_file] for i in range(0, len(events), per_file)]
    order = sorted(range(len(chunks)), key=str)
    return [e for k in order for e in chunks[k]]


def shrink_events(t, fails, budget=40):
    """greedy shrink of a failing task: drop events (last first), then tokens, then configuration;
    `fails(task) -> bool` re-runs both sides"""
    cur, steps = dict(t), 0
    changed = True
    while changed and steps < budget:
        changed = False
        for i in reversed(range(len(cur['events']))):
            if len(cur['events']) <= 1 or steps >= budget:
                break
            c = dict(cur, events=cur['events'][:i] + cur['events'][i + 1:])
            steps += 1
            if fails(c):
                cur, changed = c, True
    for i in range(len(cur['events'])):
        for side in (0, 1):
            if len(cur['events'][i][side]) > 1 and steps < budget:
                e = [list(cur['events'][i][0]), list(cur['events'][i][1])]
                e[side] = e[side][:1]
                c = dict(cur, events=cur['events'][:i] + [e] + cur['events'][i + 1:])
                steps += 1
                if fails(c):
                    cur = c
    for k, v in (('n_jobs', 1), ('per_job', 10)):
        if cur.get(k, v) != v and steps < budget:
            c = dict(cur, **{k: v})
            steps += 1
            if fails(c):
                cur = c
    return cur, steps


def python_snippet(t):
    """self-contained replay of one wh.wh call against the public API"""
    lines = ['import gzip, numpy as np, xarray as xr', 'from fractions import Fraction as F', 'from pyndl import wh',
             'events = %r' % (t['events'],),
             "with gzip.open('events.tab.gz', 'wt') as f:",
             "    f.write('cues\\toutcomes\\n')",
             "    for c, o in events: f.write('_'.join(c) + '\\t' + '_'.join(o) + '\\n')",
             'def tab(t, d0, d1): return xr.DataArray(np.array([[float(F(v)) for v in r] for r in t["rows"]]), dims=(d0, d1), '
             'coords={d0: t["names"], d1: t["dims"]})']
    kw = ['method=%r' % t.get('method', 'openmp'), 'n_jobs=%d' % t.get('n_jobs', 2), 'n_outcomes_per_job=%d' % t.get('per_job', 10),
          'remove_duplicates=%r' % {'error': None, 'dedup': True, 'keep': False}[t['policy']],
          'events_per_temporary_file=%d' % t.get('per_file', 10000000)]
    if t.get('cue_vectors'):
        lines.append("ct = tab(%r, 'cues', 'cue_vector_dimensions')" % ({k: t['cue_vectors'][k] for k in ('names', 'dims', 'rows')},))
        kw.insert(0, 'cue_vectors=ct')
    if t.get('outcome_vectors'):
        lines.append("ot = tab(%r, 'outcomes', 'outcome_vector_dimensions')" % ({k: t['outcome_vectors'][k] for k in ('names', 'dims', 'rows')},))
        kw.insert(0, 'outcome_vectors=ot')
    lines.append("w = wh.wh('events.tab.gz', float(F(%r)), %s)" % (t['eta'], ', '.join(kw)))
    lines.append('print(w)')
    return '\n'.join(lines)
