"""generators and comparison shared by run_C08 / run_C14"""
from fractions import Fraction

from common import frac, close

ETAS = ['1/2', '1/4', '1/8', '1/16']


def table(r, names, n_dims, onehot=False, prefix='d'):
    dims = ['%s%d' % (prefix, i) for i in range(n_dims)]
    rows = []
    order = list(names)
    r.shuffle(order)
    if onehot:
        perm = r.sample(range(n_dims), len(order))
        for k in perm:
            rows.append(['1' if j == k else '0' for j in range(n_dims)])
        return {'names': order, 'dims': dims, 'rows': rows, 'hot': {n: dims[k] for n, k in zip(order, perm)}}
    for _ in order:
        rows.append(['%d/%d' % (r.randint(-3, 3), r.choice([1, 1, 2])) for _ in range(n_dims)])
    return {'names': order, 'dims': dims, 'rows': rows}


def model_request(t):
    q = {'op': 'wh', 'flavour': t['flavour'], 'events': [e for p in (t.get('pieces') or [t['events']]) for e in p],
         'policy': t['policy'], 'chunk': t.get('per_job', 10)}
    for k in ('eta', 'beta1', 'beta2', 'lambda', 'cue_vectors', 'outcome_vectors', 'init'):
        if t.get(k) is not None:
            q[k] = t[k]
    if t['flavour'] == 'r2b' and not t.get('betas_direct'):
        q['beta1'] = q['beta2'] = t['eta']
        q['lambda'] = '1'
    return q


def compare(impl, model):
    if 'err' in model:
        if impl.get('err') == model['err']:
            return None
        return 'model predicts %s, implementation %s %s' % (model['err'], impl.get('err', 'returned'), impl.get('msg', ''))
    if 'err' in impl:
        return 'model predicts a result, implementation %s (%s)' % (impl['err'], impl.get('msg', '')[:150])
    exact = model.get('bits', 9999) <= 53
    rows, cols = model['rows'], model['cols']
    mc = {(rows[i], cols[j]): frac(v) for i, j, v in model['cells']}
    ic = {}
    for o, c, v in impl['cells']:
        ic[(o, c)] = frac(v)
    for k in set(mc) | set(ic):
        a, b = ic.get(k, Fraction(0)), mc.get(k, Fraction(0))
        if not close(a, b, exact):
            return 'weight[%r][%r]: implementation %s, model %s (%s)' % (k[0], k[1], float(a), float(b),
                                                                         'exact' if exact else 'tolerance')
    if set(impl['rows']) != set(rows) or set(impl['cols']) != set(cols):
        return 'labels differ: impl rows %r cols %r, model rows %r cols %r' % (impl['rows'], impl['cols'], rows, cols)
    if impl.get('inputs_unmodified') is not None and not all(impl['inputs_unmodified']):
        return 'weights argument modified'
    if impl.get('tables_unmodified') is False:
        return 'vector tables modified'
    lo = impl.get('leftovers')
    if lo and (lo['systmp'] or lo['giventmp']):
        return 'temporary entries left behind: %r' % lo
    return None
