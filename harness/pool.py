"""
Implementation-side executor: N worker processes, each importing pyndl from the
scratch build, each executing one JSON task at a time under a deadline.  A
worker that exceeds its deadline is killed together with everything it forked
(own session) and the task's result is {"err": "Timeout"} — an *observation*
that is compared with the model's prediction like any other outcome.
"""
import json
import os
import queue
import select
import signal
import subprocess
import threading
import time

from common import PY, Infra

HERE = os.path.dirname(os.path.abspath(__file__))


class _Worker:
    def __init__(self, scratch, env_extra=None):
        self.scratch = scratch
        self.env_extra = env_extra or {}
        self.proc = None
        self.start()

    def start(self):
        env = dict(os.environ)
        env['PYTHONPATH'] = self.scratch + os.pathsep + HERE + os.pathsep + env.get('PYTHONPATH', '')
        env['PYNDL_SCRATCH'] = self.scratch
        env.setdefault('OMP_WAIT_POLICY', 'passive')
        # numpy's BLAS pools are never needed here and cost seconds of CPU per worker start
        env.setdefault('OPENBLAS_NUM_THREADS', '1')
        env.setdefault('MKL_NUM_THREADS', '1')
        env['PYTHONUTF8'] = '1'
        env.update(self.env_extra)
        self.ready = False
        self.proc = subprocess.Popen([PY, '-W', 'ignore', os.path.join(HERE, 'worker.py')],
                                     stdin=subprocess.PIPE, stdout=subprocess.PIPE,
                                     stderr=subprocess.DEVNULL, env=env, start_new_session=True,
                                     cwd=os.path.join(self.scratch, 'work'))

    def kill(self):
        self.ready = False
        if self.proc is None:
            return
        try:
            os.killpg(self.proc.pid, signal.SIGKILL)
        except (ProcessLookupError, PermissionError):
            pass
        try:
            self.proc.wait(timeout=5)
        except Exception:
            pass
        self.proc = None

    def _read_line(self, deadline):
        """one reply line, or None on deadline, or b'' if the worker died"""
        chunks = []
        fd = self.proc.stdout.fileno()
        while True:
            left = deadline - time.monotonic()
            if left <= 0:
                return None
            r, _, _ = select.select([fd], [], [], min(left, 1.0))
            if r:
                chunk = os.read(fd, 1 << 20)
                if not chunk:
                    return b''
                chunks.append(chunk)
                if chunk.endswith(b'\n'):
                    return b''.join(chunks)

    def wait_ready(self, limit=600):
        """the worker announces the end of its imports; not charged to any task"""
        if self.ready:
            return True
        line = self._read_line(time.monotonic() + limit)
        if not line:
            self.kill()
            raise Infra('a harness worker did not start within %d s (imports of numpy/xarray/pyndl)' % limit)
        self.ready = True
        return True

    def run(self, task, timeout):
        if self.proc is None or self.proc.poll() is not None:
            self.start()
        self.wait_ready()
        line = (json.dumps(task, ensure_ascii=False) + '\n').encode('utf-8')
        try:
            self.proc.stdin.write(line)
            self.proc.stdin.flush()
        except (BrokenPipeError, OSError):
            rc = self.proc.poll()
            self.kill()
            return {'err': 'WorkerDied', 'returncode': rc}
        buf = self._read_line(time.monotonic() + timeout)
        if buf is None:
            self.kill()
            return {'err': 'Timeout', 'seconds': timeout}
        if buf == b'':
            try:
                rc = self.proc.wait(timeout=5)
            except Exception:
                rc = None
            self.kill()
            return {'err': 'WorkerDied', 'returncode': rc}
        try:
            return json.loads(buf.decode('utf-8'))
        except ValueError:
            self.kill()
            return {'err': 'WorkerDied', 'msg': 'unparsable reply'}


class ImplPool:
    _shared_tstate = {'timeouts': 0, 'slowest_ok': 0.0}
    _shared_tlock = threading.Lock()

    def __init__(self, scratch, n=8, timeout=60, env_extra=None):
        self.scratch = scratch
        n = max(2, min(n, os.cpu_count() or n))
        self.n = n
        self.timeout = timeout
        self.workers = [_Worker(scratch, env_extra) for _ in range(n)]
        # for properties that say nothing about running time: a task that hit the deadline is run a
        # second time; only a task that times out twice is reported as Timeout (the first attempt is
        # recorded in the result and counted)
        self.retry_timeouts = False
        self.timeouts_retried = 0
        # a change that makes MANY calls hang must not turn the check into an hour-long wait: after
        # `full_timeouts` tasks of one map() have run into the full deadline, the remaining tasks get the short
        # deadline max(short_floor, 4 x the slowest task that did complete so far) — still a real observation
        # (the result says which deadline applied)
        # The rule applies ONLY to the properties whose statement is about termination (retry_timeouts off: C02,
        # C04, C05) — there a short timeout is still a Timeout and the run is failing already; for all other
        # properties every task keeps its full deadline and its second attempt.  An explicit per-task `_timeout`
        # is never shortened.
        self.full_timeouts = 3
        self.short_floor = 15.0
        # one state for all pools of this check run (C02 uses one pool per hash seed)
        self._tstate = ImplPool._shared_tstate
        self._tlock = ImplPool._shared_tlock

    def map(self, tasks, timeout=None):
        results = self._map(tasks, timeout)
        # a worker that died (killed by the OOM killer, SIGBUS on a full disk, ...) or a harness-side exception:
        # one more attempt on a fresh worker for every property — a crash of the code under test reproduces
        again = [i for i, r in enumerate(results) if r.get('err') in ('WorkerDied', 'HarnessError')]
        if again:
            second = self._map([tasks[i] for i in again], timeout)
            for i, r in zip(again, second):
                r['_first_attempt'] = results[i].get('err')
                results[i] = r
        if self.retry_timeouts:
            # up to two more attempts (the CPython Pool.terminate race that makes a raising imap call hang has a
            # small probability per call; the same task hanging three times in a row is a hang of the code)
            for attempt in (2, 3):
                again = [i for i, r in enumerate(results) if r.get('err') == 'Timeout']
                if not again:
                    break
                second = self._map([tasks[i] for i in again], timeout)
                for i, r in zip(again, second):
                    r['_first_attempt'] = 'Timeout'
                    r['_attempts'] = attempt
                    results[i] = r
                    if r.get('err') != 'Timeout':
                        self.timeouts_retried += 1
        return results

    def _map(self, tasks, timeout=None):
        timeout = timeout or self.timeout
        results = [None] * len(tasks)
        q = queue.Queue()
        for i, t in enumerate(tasks):
            q.put((i, t))

        state = self._tstate          # shared by all map() calls of this pool (shrinking calls map() per candidate)
        lock = self._tlock

        def loop(w):
            while True:
                try:
                    i, t = q.get_nowait()
                except queue.Empty:
                    return
                limit = t.get('_timeout', timeout)
                with lock:
                    if (not self.retry_timeouts and '_timeout' not in t
                            and state['timeouts'] >= self.full_timeouts):
                        limit = min(limit, max(self.short_floor, 4 * max(state['slowest_ok'], 3.0)))
                t0 = time.monotonic()
                try:
                    res = w.run(t, limit)
                except Infra:
                    raise
                except Exception as e:  # noqa  (e.g. EAGAIN when starting a worker)
                    res = {'err': 'WorkerDied', 'msg': 'pool: %s: %s' % (type(e).__name__, e)}
                dt = time.monotonic() - t0
                res['_seconds'] = round(dt, 3)
                with lock:
                    if res.get('err') == 'Timeout':
                        if not self.retry_timeouts:
                            state['timeouts'] += 1
                        res['deadline'] = limit
                    else:
                        state['slowest_ok'] = max(state['slowest_ok'], dt)
                results[i] = res

        threads = [threading.Thread(target=loop, args=(w,)) for w in self.workers]
        for th in threads:
            th.start()
        for th in threads:
            th.join()
        if any(r is None for r in results):
            raise Infra('implementation pool lost a task')
        return results

    def close(self):
        for w in self.workers:
            w.kill()
