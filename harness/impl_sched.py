"""
C02 implementation ops: trace capture around the shared work queue of
ndl.ndl(method='threading'), and slice_list.
Observation points are module attributes of pyndl.ndl (Queue, ndl_parallel) —
no source hooks needed.
"""
import os
import queue as _queue
import random
import threading
import time

import numpy as np

import impl
from pyndl import ndl


class _LoggingQueue(_queue.Queue):
    """drop-in for pyndl.ndl.Queue: logs the locked check-then-get and shakes the schedule"""
    log = None
    order = None
    jitter = None

    def put(self, item, *a, **kw):
        type(self).order.append(item.tolist())
        return super().put(item, *a, **kw)

    def empty(self):
        self._shake()
        e = super().empty()
        if e:
            type(self).log.append(('exit', threading.current_thread().name))
        return e

    def get(self, *a, **kw):
        self._shake()
        # a real blocking get would hang forever on an empty queue; make that observable
        item = super().get(timeout=10)
        type(self).log.append(('take', threading.current_thread().name, item.tolist()))
        return item

    def _shake(self):
        j = type(self).jitter
        if j is not None:
            time.sleep(j.random() * 0.002 if j.random() < 0.5 else 0)


class _KernelProxy:
    def __init__(self, real, log, jitter):
        self._real, self._log, self._jitter = real, log, jitter

    def learn_inplace_binary_to_binary(self, files, alpha, b1, b2, lam, weights, data):
        if self._jitter is not None and self._jitter.random() < 0.5:
            time.sleep(self._jitter.random() * 0.003)
        self._log.append(('call', threading.current_thread().name, data.tolist(), len(files)))
        try:
            r = self._real.learn_inplace_binary_to_binary(files, alpha, b1, b2, lam, weights, data)
        except BaseException:
            # the kernel call raised (e.g. TypeError for an unusable hyper-parameter): the worker records it and ends
            self._log.append(('fail', threading.current_thread().name))
            raise
        self._log.append(('finish', threading.current_thread().name))
        return r

    def __getattr__(self, n):
        return getattr(self._real, n)


def op_trace_threading(t):
    """run ndl.ndl(method='threading') with the logging queue; return result + history.
    With t['fault_run'] the call is the one impl_fault.op_fault_run makes for the task (learner ndl_threading,
    possibly under an injected fault): the history then may contain ['fail', thread] (a kernel call that raised)"""
    log, order = [], []
    _LoggingQueue.log, _LoggingQueue.order = log, order
    _LoggingQueue.jitter = random.Random(t.get('jitter_seed', 0))
    real_q, real_k = ndl.Queue, ndl.ndl_parallel
    ndl.Queue = _LoggingQueue
    ndl.ndl_parallel = _KernelProxy(real_k, log, _LoggingQueue.jitter)
    try:
        if t.get('fault_run'):
            import impl_fault
            res = impl_fault.op_fault_run(dict(t, op='fault_run', learner='ndl_threading'))
        else:
            t2 = dict(t, op='learn', learner='ndl', method='threading')
            res = impl.op_learn(t2)
    finally:
        ndl.Queue, ndl.ndl_parallel = real_q, real_k
    tids = {}
    trace, calls = [], []
    for ev in list(log):
        tid = tids.setdefault(ev[1], len(tids))
        if ev[0] == 'take':
            trace.append(['take', tid, order.index(ev[2]) if ev[2] in order else -1])
        elif ev[0] == 'exit':
            trace.append(['exit', tid])
        elif ev[0] == 'finish':
            trace.append(['finish', tid])
        elif ev[0] == 'fail':
            trace.append(['fail', tid])
        elif ev[0] == 'call':
            calls.append({'thread': tid, 'rows': ev[2], 'n_files': ev[3]})
    res['trace'] = trace
    res['calls'] = calls
    res['parts'] = order
    res['threads_seen'] = len(tids)
    return res


def op_slice_list(t):
    try:
        return {'parts': ndl.slice_list(list(range(t['n'])), t['chunk'])}
    except Exception as e:  # noqa
        return impl.err(e)


OPS = {'trace_threading': op_trace_threading, 'slice_list': op_slice_list}
