"""
C07 — text event files round-trip; the frequency column and the input form keep their meaning.
Correspondence: the real io.events_to_file / io.events_from_file / count.cues_outcomes
and the learners ndl.ndl / dict_ndl (path str, pathlib.Path, generator, list) against the
Lean model Pyndl.Text (renderFile / parseFile / cuesOutcomes) and the learner models; the
property predicate itself (read back = written events with an empty outcome field read as
[""]; frequency k = k repetitions; same weights for every input form) is evaluated on every
case in addition to the model equality. Theorems: PyndlProps/C07.lean (splitOn_joinWith,
parse_render, freq_expand, forms_agree).
"""
import gen
import learners as L
import textgen as T
from common import rng, known_findings

TRUSTED = [
    'gzip and the UTF-8 codec are identity on character content (not modelled)',
    "Python's universal-newline text layer is modelled (only \\n, \\r, \\r\\n end a line) and sampled, not verified",
    'pandas DataFrame.iterrows hands the cells back unchanged',
    'the harness own writer of frequency-column files (textgen.build_content, impl_text._write_raw)',
]
ASSUMPTIONS = [
    'tokens are non-empty Unicode strings without TAB, LF, CR, underscore (CR: known finding F11, own stream)',
    'a frequency column holds a canonical non-negative decimal (int() extras such as signs, blanks, "_" are outside the model)',
    'locale / file encoding is UTF-8',
    'cross-form weight comparison on events with at least one outcome; weights inside the exact-dyadic domain are compared exactly',
]
WORKERS = 12
TIMEOUT = 90

CONTAINERS = ['lists', 'strings', 'generator', 'dataframe']


# --------------------------------------------------------------------------
# case kinds: task (implementation), request (model), judge (comparison)
# --------------------------------------------------------------------------

def rt_task(c):
    t = {'op': 'text_roundtrip', 'events': c['events'], 'container': c['container'],
         'compression': c['compression'], 'compatible': c['compatible'],
         'count_jobs': c.get('count_jobs')}
    for k in ('df', 'columns', 'delimiter'):
        if c.get(k) is not None:
            t[k] = c[k]
    return t


# containers whose sides reach the writer as "_"-joined strings (split by events_from_list /
# events_from_dataframe, joined again by the writer): the model's `eventOfStrings`
JOINED = ('strings', 'dataframe', 'from_dataframe', 'mixed')
LEGACY = ['Cues', 'Outcomes', 'Frequency']


def rt_request(c):
    if c['container'] in JOINED:
        evs = [[T.cps('_'.join(cu)), T.cps('_'.join(ou))] for cu, ou in c['events']]
        cont = 'strings'
    else:
        evs = T.ev_cps(c['events'])
        cont = 'lists'
    req = {'op': 'text_roundtrip', 'container': cont, 'events': evs, 'compatible': bool(c['compatible'])}
    if c.get('count_jobs') and c['compression'] == 'gzip':
        req['count_jobs'] = c['count_jobs']
    if c.get('columns') is not None:
        req['columns'] = [T.cps(x) for x in c['columns']]
    if c.get('delimiter') is not None:
        req['delimiter'] = T.cps(c['delimiter'])
    return req


def file_task(c):
    return {'op': 'text_file', 'content': content_of(c), 'compression': c['compression'],
            'start': c['start'], 'step': c['step'], 'count_jobs': c.get('count_jobs')}


def ints_table(c):
    """Python's int() on the frequency cells that contain non-ASCII characters (Python-supplied, like the
    str.lower tables): [[code points, value or None]]"""
    tab = []
    for row in c.get('rows', []):
        f = row[2] if len(row) > 2 else None
        if isinstance(f, str) and any(ord(ch) > 127 for ch in f):
            try:
                v = int(f)
            except ValueError:
                v = None
            tab.append([T.cps(f), v])
    return tab


def file_request(c):
    req = {'op': 'text_parse', 'content': T.cps(content_of(c)), 'start': c['start'], 'step': c['step']}
    tab = ints_table(c)
    if tab:
        req['ints'] = tab
    if c.get('count_jobs') is not None and c['compression'] == 'gzip':
        req['count_jobs'] = c['count_jobs']
    return req


def content_of(c):
    return T.build_content(c['rows'], header=c['header'], eol=c['eol'], final_eol=c['final_eol'])


def model_read(m):
    if 'err' in m:
        return {'err': m['err']}
    return {'events': T.ev_uncps(m['events'])}


def model_count(m):
    if 'err' in m:
        return {'err': m['err']}
    return {'n_events': m['n_events'], 'cues': T.counter_uncps(m['cues']), 'outcomes': T.counter_uncps(m['outcomes'])}


def diff_read(impl, model):
    if 'err' in model:
        if impl.get('err') == model['err']:
            return None
        return 'reader: model predicts %s, implementation %s' % (model['err'], impl.get('err', 'returned %d events' % len(impl.get('events', []))))
    if 'err' in impl:
        return 'reader: model predicts %d events, implementation %s at %s (%s)' % (
            len(model['events']), impl['err'], impl.get('stage', 'read'), impl.get('msg', '')[:100])
    a, b = impl['events'], model['events']
    if a == b:
        return None
    for i in range(max(len(a), len(b))):
        if i >= len(a) or i >= len(b) or a[i] != b[i]:
            return 'reader: event %d differs: implementation %r, model %r (lengths %d / %d)' % (
                i, a[i] if i < len(a) else None, b[i] if i < len(b) else None, len(a), len(b))
    return 'reader: differs'


def diff_count(impl, model):
    if 'err' in model:
        if impl.get('err') == model['err']:
            return None
        return 'cues_outcomes: model predicts %s, implementation %s' % (model['err'], impl.get('err', 'a result'))
    if 'err' in impl:
        return 'cues_outcomes: model predicts a result, implementation %s (%s)' % (impl['err'], impl.get('msg', '')[:100])
    for k in ('n_events', 'cues', 'outcomes'):
        if impl[k] != model[k]:
            return 'cues_outcomes: %s differs: implementation %r, model %r' % (k, impl[k] if k == 'n_events' else impl[k][:6],
                                                                              model[k] if k == 'n_events' else model[k][:6])
    return None


def direct_count(evs):
    cues, outs = {}, {}
    for c, o in evs:
        for t in c:
            cues[t] = cues.get(t, 0) + 1
        for t in o:
            outs[t] = outs.get(t, 0) + 1
    return {'n_events': len(evs), 'cues': sorted([k, v] for k, v in cues.items()),
            'outcomes': sorted([k, v] for k, v in outs.items())}


def judge_rt(c, impl, model):
    """list of disagreements for a round-trip case (model equality + the property predicate)"""
    probs = []
    mr = model_read(model)
    d = diff_read(impl, mr)
    if d:
        probs.append(d)
    if impl.get('stage') != 'write':
        # the written file itself, character by character (header from `columns=`, `delimiter=`)
        if impl.get('raw') != model.get('content'):
            raw = impl.get('raw')
            probs.append('writer: the file holds %r, model %r' % (T.uncps(raw)[:120] if isinstance(raw, list) else raw,
                                                                  T.uncps(model.get('content') or [])[:120]))
        want_warning = bool(c['compatible']) and list(c.get('columns') or ['cues', 'outcomes']) != LEGACY
        if impl.get('legacy_warning') is not None and bool(impl['legacy_warning']) != want_warning:
            probs.append('writer: legacy-column warning %s, but compatible=%r columns=%r (io.py: issued iff compatible and '
                         'columns differ from the legacy triple)' % ('issued' if impl['legacy_warning'] else 'not issued',
                                                                    c['compatible'], c.get('columns')))
    if T.well_formed(c['events']) and c.get('delimiter') in (None, '\t'):
        want = {'events': T.file_norm(c['events'])}
        d = diff_read(impl, want)
        if d:
            probs.append('property (read back = written, empty outcome field -> [""]): ' + d)
        if mr != want:
            probs.append('MODEL contradicts theorem parse_render on a well-formed input')
    if 'count' in model:
        d = diff_count(impl.get('count', {'err': 'missing'}), model_count(model['count']))
        if d:
            probs.append(d)
        if T.well_formed(c['events']) and c.get('delimiter') in (None, '\t') and 'err' not in impl.get('count', {'err': 1}):
            d = diff_count(impl['count'], direct_count(T.file_norm(c['events'])))
            if d:
                probs.append('property (count = direct count of the written events): ' + d)
    return probs


def judge_file(c, impl, model):
    probs = []
    mr = model_read(model)
    d = diff_read(impl, mr)
    if d:
        probs.append(d)
    clean = c.get('clean') and T.well_formed([[r[0], r[1]] for r in c['rows']])
    if clean and c['start'] == 0 and c['step'] == 1:
        want = {'events': T.file_norm(T.expand(c['rows']))}
        d = diff_read(impl, want)
        if d:
            probs.append('property (frequency k = k repetitions): ' + d)
        if mr != want:
            probs.append('MODEL contradicts theorem freq_expand on a well-formed input')
    if 'count' in model:
        d = diff_count(impl.get('count', {'err': 'missing'}), model_count(model['count']))
        if d:
            probs.append(d)
        if clean:
            d = diff_count(impl.get('count', {'err': 'missing'}), direct_count(T.file_norm(T.expand(c['rows']))))
            if d:
                probs.append('property (count with frequency column = count of the repeated events): ' + d)
    return probs


KINDS = {'rt': (rt_task, rt_request, judge_rt), 'file': (file_task, file_request, judge_file)}


def evaluate(pool, driver, c):
    task, request, judge = KINDS[c['kind']]
    impl = pool.map([task(c)])[0]
    model = driver.ask([request(c)])[0]
    return judge(c, impl, model), impl, model


# --------------------------------------------------------------------------
# generation
# --------------------------------------------------------------------------

def gen_rt(r, n_cases):
    out = []
    for i in range(n_cases):
        n = r.choice([0, 1, 1, 2, 3, 4, 6, 9])
        alpha = T.FULL if i % 4 else (T.SPACES + T.MARKS + T.ASTRAL + list('a#1 '))
        evs = T.events(r, n, alpha)
        if r.random() < 0.05 and evs:
            evs[r.randrange(len(evs))][0] = []          # no cue at all: outside the theorem, inside the model
        out.append({'kind': 'rt', 'stream': 'roundtrip', 'events': evs, 'container': CONTAINERS[i % 4],
                    'compression': ['gzip', None][(i // 4) % 2], 'compatible': bool((i // 8) % 2),
                    'count_jobs': r.choice([1, 2, 3, 5])})
    return out


# ---- what the writer is handed (second round-trip stream): more containers, DataFrame shapes, `columns=`, `delimiter=`
CONTAINERS2 = ['tuple', 'tuples', 'iterator', 'map', 'mixed', 'dataframe', 'dataframe', 'dataframe', 'from_dataframe',
               'from_dataframe', 'lists', 'strings', 'generator']
# `columns=` (documented: a tuple of column names; it names the header line only). None = not passed
COLUMNS = [None, None, ['cues', 'outcomes'], ['outcomes', 'cues'], LEGACY, ['Cues', 'Outcomes'],
           ['\xe4 c', '\u96ea', 'x'], ['only']]
# `delimiter=`: None = not passed; a non-TAB delimiter gives a file the reader cannot parse (model: ValueError
# as soon as there is one event) - there the writer's output alone is compared
DELIMITERS = [None, None, None, None, '\t', '\t', ',', ' ', '|', '\t\t', ';_']
DF_NAMES = [['cues', 'outcomes'], ['Cues', 'Outcomes'], ['outcomes', 'cues'], ['c', 'o'], ['\u96ea', 'cues'], ['0', '1']]


def gen_rt2(r, n_cases):
    out = []
    for i in range(n_cases):
        n = r.choice([0, 1, 1, 2, 3, 4, 6])
        alpha = T.FULL if i % 3 else (T.SPACES + T.MARKS + T.ASTRAL + list('a#1 ,|;'))
        evs = T.events(r, n, alpha)
        c = {'kind': 'rt', 'stream': 'writer_inputs', 'events': evs, 'container': CONTAINERS2[i % len(CONTAINERS2)],
             'compression': r.choice(['gzip', 'gzip', None]), 'compatible': r.random() < 0.4,
             'count_jobs': r.choice([1, 2, 3]), 'columns': r.choice(COLUMNS), 'delimiter': r.choice(DELIMITERS)}
        if c['compatible'] and r.random() < 0.35:
            c['columns'] = LEGACY            # the triple given explicitly: the branch that does not warn
        if c['container'] in ('dataframe', 'from_dataframe'):
            c['df'] = {'order': r.choice(['co', 'oc']), 'extra': r.choice([None, 'first', 'middle', 'last']),
                       'index': r.choice(['default', 'str', 'reversed', 'dup', 'multi']),
                       'dtype': r.choice(['object', 'object', 'string', 'category']),
                       # events_to_file reads the columns NAMED cues / outcomes (it does not forward `columns=`);
                       # other names only through io.events_from_dataframe(df, columns=names)
                       'names': r.choice(DF_NAMES) if c['container'] == 'from_dataframe' else ['cues', 'outcomes']}
        out.append(c)
    return out


BAD_FREQ = ['x', '', '1.0', '2a', 'one']
# spellings Python's int() accepts or rejects beyond [0-9]+ (model: Text.pyInt; a negative count means no copy)
INT_LITERALS = ['-1', '-0', '+2', ' 1 ', '1_0', '007', '\u20035\x0c', '\t3', '1__0', '_1', '1_', '\x1c5', '+', '-', '1 0',
                '\uff12', '\u0663', '1\uff10']


def gen_file(r, n_cases):
    out = []
    for i in range(n_cases):
        n = r.choice([0, 1, 2, 3, 5, 8, 12])
        evs = T.events(r, n, T.FULL)
        mode = r.choice(['freq', 'freq', 'freq', 'none', 'mixed'])
        rows = []
        for c, o in evs:
            f = None if mode == 'none' or (mode == 'mixed' and r.random() < 0.5) else r.randint(0, 5)
            rows.append([c, o, f])
        clean = True
        if r.random() < 0.15 and rows:
            clean = False
            k = r.randrange(len(rows))
            what = r.choice(['badfreq', 'onecol', 'fourcol', 'literal', 'literal'])
            if what == 'badfreq':
                rows[k][2] = r.choice(BAD_FREQ)
            elif what == 'literal':
                rows[k][2] = r.choice(INT_LITERALS)
            elif what == 'onecol':
                rows[k] = [rows[k][0], [], T.ONECOL]    # a line without any TAB
            else:
                rows[k][2] = '1\t1'
        eol = '\n' if r.random() < 0.8 else '\r\n'
        c = {'kind': 'file', 'stream': 'frequency', 'rows': rows,
             'header': r.choice(['cues\toutcomes', 'cues\toutcomes\tfrequency', 'Cues\tOutcomes\tFrequency', '', 'x']),
             'eol': eol, 'final_eol': r.random() < 0.8, 'compression': r.choice(['gzip', 'gzip', None]),
             'start': 0, 'step': 1,
             'count_jobs': r.choice([1, 2, 4, 7]), 'clean': clean and eol == '\n'}
        if r.random() < 0.4:
            c['start'], c['step'] = r.choice([0, 1, 2, 5]), r.choice([1, 2, 3, 4])
        if r.random() < 0.04:
            c['step'] = 0                     # islice raises ValueError (C07.step_zero_raises)
            c['clean'] = False
        if r.random() < 0.04:
            c['count_jobs'] = 0               # cues_outcomes(n_jobs=0) (C11.zero_jobs_raises)
            c['clean'] = False
        out.append(c)
    return out


def gen_cr(r, n_cases):
    out = []
    for i in range(n_cases):
        evs = T.events(r, r.choice([1, 2, 3]), list('abxy1'))
        k = r.randrange(len(evs))
        side = r.choice([0, 1]) if evs[k][1] else 0
        j = r.randrange(len(evs[k][side]))
        tok = evs[k][side][j]
        p = r.randint(0, len(tok))
        evs[k][side][j] = tok[:p] + '\r' + tok[p:]
        out.append({'kind': 'rt', 'stream': 'cr_token', 'events': evs, 'container': CONTAINERS[i % 4],
                    'compression': ['gzip', None][(i // 4) % 2], 'compatible': bool((i // 2) % 2),
                    'count_jobs': None})
    return out


NDL_FORMS = ['path', 'pathobj', 'generator']
DICT_FORMS = ['path', 'list', 'generator']


def gen_learn(r, n_cases):
    out = []
    for i in range(n_cases):
        n = r.choice([1, 2, 3, 4, 6])
        pool = [T.token(r, T.TAME, 3) for _ in range(6)]
        pool = list(dict.fromkeys(pool))
        evs = []
        for _ in range(n):
            cs = r.sample(pool, r.randint(1, min(3, len(pool))))
            os_ = [] if (i % 3 == 0 and r.random() < 0.3) else r.sample(pool, r.randint(1, min(2, len(pool))))
            evs.append([cs, os_])
        freq = [r.randint(0, 3) for _ in evs] if i % 2 else None
        # events_per_temporary_file: 2, 3 or the default - with a frequency column the chunk windows and
        # `number_events` count the EXPANDED events, so chunk size x frequency x method is varied here
        base = dict(gen.params(r), events=evs, freq=freq, policy=r.choice(['error', 'keep']), stream='forms',
                    n_jobs=r.choice([1, 2]), per_job=r.choice([1, 10]), kind='learn', group=i,
                    per_file=[2, 3, 10000000][(i // 2) % 3] if i < 12 else r.choice([2, 3, 10000000]))
        if i % 3 == 1:
            # the call continues from earlier weights (weights=...): still the same result for every form
            outs = sorted({o for _, os_ in evs for o in os_} | {''})[:3] + ['PRIOR']
            cues = sorted({c for cs, _ in evs for c in cs})[:3] + ['PRIORCUE']
            vals = {(o, c): '%d/%d' % (r.randint(-8, 8), r.choice([1, 2, 4])) for o in outs for c in cues}
            base['init_lw'] = {'outcomes': outs, 'cues': cues, 'vals': [vals[(o, c)] for o in outs for c in cues],
                               'layout': r.choice(['c', 'f', 'transposed', 'slice'])}
            base['init_cells'] = [[o, c, v] for (o, c), v in sorted(vals.items())]
        out.append(base)
    return out


def learn_variants(base):
    """(learner, form, impl task, model request) for the nine learner x input form combinations of one base case"""
    rows = [[c, o, (base['freq'][k] if base['freq'] is not None else None)] for k, (c, o) in enumerate(base['events'])]
    expanded = T.expand(rows)
    res = []
    for learner, forms in (('ndl_threading', NDL_FORMS), ('ndl_openmp', NDL_FORMS), ('dict_ndl', DICT_FORMS)):
        for form in forms:
            filef = form in ('path', 'pathobj')
            # (the frequency column is attached to the file-form tasks below; the case handed to the shared
            # helpers carries none, their own `freq` handling would expand a second time)
            case = dict(base, form=form, events=(base['events'] if filef else expanded), freq=None)
            t = L.impl_task(case, learner)
            if filef and base['freq'] is not None:
                t['freq'] = base['freq']
            mevents = gen.file_norm(expanded) if filef else expanded
            req = L.model_request(dict(case, events=mevents), learner)
            res.append((learner, form, t, req))
    return res


def eval_learn(pool, driver, b):
    """all nine learner x input form combinations of one base case: [(learner, form, what, impl, model)] of disagreements"""
    vs = learn_variants(b)
    impls = pool.map([v[2] for v in vs])
    models = driver.ask([v[3] for v in vs])
    out = []
    groups = {}
    for (learner, form, _t, _req), impl, model in zip(vs, impls, models):
        d = L.compare(impl, model)
        for p in L.side_checks(impl):
            d = d or p
        if d:
            out.append((learner, form, d, impl, model))
        groups.setdefault(learner, []).append((form, impl))
    kept = [e for k, e in enumerate(b['events']) if b['freq'] is None or b['freq'][k] > 0]
    if all(o for _, o in kept):
        for learner, lst in groups.items():
            ref_form, ref = lst[0]
            for form, impl in lst[1:]:
                a = ('err', ref.get('err')) if 'err' in ref else gen.cells_dict(ref['cells'])
                z = ('err', impl.get('err')) if 'err' in impl else gen.cells_dict(impl['cells'])
                if a != z:
                    out.append((learner, form, 'property (same weights for every input form): %s given as %s and as %s '
                                'disagree' % (learner, ref_form, form), impl, ref))
    return out


def shrink_learn(pool, driver, b):
    def to_rows(x):
        return [[c, o, (x['freq'][k] if x['freq'] is not None else None)] for k, (c, o) in enumerate(x['events'])]

    def from_rows(x, rows, nofreq):
        fr = None if (nofreq or x['freq'] is None) else [r[2] for r in rows]
        return dict(x, events=[[r[0], r[1]] for r in rows], freq=fr)

    def fails(c):
        return bool(eval_learn(pool, driver, from_rows(b, c['rows'], c.get('nofreq'))))
    small, steps = T.shrink_rows({'rows': to_rows(b), 'nofreq': b['freq'] is None}, 'rows', fails, budget=25,
                                 simplify=[('nofreq', True)])
    small = from_rows(b, small['rows'], small.get('nofreq'))
    if small.get('per_file', 10000000) != 10000000:
        c = dict(small, per_file=10000000)
        steps += 1
        if eval_learn(pool, driver, c):
            small = c
    return small, steps


# --------------------------------------------------------------------------
# replay snippets
# --------------------------------------------------------------------------

def snippet(c):
    if c['kind'] == 'rt':
        df = c.get('df') or {'order': 'co', 'extra': None, 'index': 'default', 'dtype': 'object', 'names': ['cues', 'outcomes']}
        kw = ''.join(', %s=%r' % (k, tuple(c[k]) if k == 'columns' else c[k]) for k in ('columns', 'delimiter') if c.get(k) is not None)
        return '\n'.join([
            "import os, tempfile, pandas as pd", "from pyndl import io, count",
            "events = %r" % (c['events'],),
            "container = %r" % c['container'],
            "df_spec = %r  # only for the DataFrame containers" % (df,),
            "def dataframe():",
            "    cn, on = df_spec['names']",
            "    cols = [(cn, ['_'.join(c) for c, _ in events]), (on, ['_'.join(o) for _, o in events])]",
            "    if df_spec['order'] == 'oc': cols.reverse()",
            "    if df_spec['extra']: cols.insert({'first': 0, 'middle': 1, 'last': 2}[df_spec['extra']], ('frequency', [3 + k for k in range(len(events))]))",
            "    df = pd.DataFrame({k: pd.Series(v, dtype='int64' if k == 'frequency' else object) for k, v in cols}, columns=[k for k, _ in cols])",
            "    if df_spec['dtype'] != 'object':",
            "        for k in (cn, on): df[k] = df[k].astype(df_spec['dtype'])",
            "    n = len(events)",
            "    ix = {'default': None, 'str': ['row%d' % k for k in range(n)], 'reversed': list(range(n - 1, -1, -1)), 'dup': [7] * n,",
            "          'multi': pd.MultiIndex.from_arrays([[k // 2 for k in range(n)], [k % 2 for k in range(n)]])}[df_spec['index']]",
            "    if ix is not None: df.index = ix",
            "    return df",
            "arg = {'lists': lambda: events, 'strings': lambda: [['_'.join(c), '_'.join(o)] for c, o in events],",
            "       'generator': lambda: ((c, o) for c, o in events), 'tuple': lambda: tuple(events),",
            "       'tuples': lambda: [(c, o) for c, o in events], 'iterator': lambda: iter(events),",
            "       'map': lambda: map(lambda e: (e[0], e[1]), events),",
            "       'mixed': lambda: [['_'.join(c) if k % 3 != 1 else c, '_'.join(o) if k % 3 != 0 else o] for k, (c, o) in enumerate(events)],",
            "       'dataframe': dataframe,",
            "       'from_dataframe': lambda: io.events_from_dataframe(dataframe(), columns=tuple(df_spec['names']))}[container]()",
            "p = os.path.join(tempfile.mkdtemp(), 'events.tab')",
            "io.events_to_file(arg, p, compression=%r, compatible=%r%s)" % (c['compression'], c['compatible'], kw),
            "import gzip; print(repr((gzip.open if %r == 'gzip' else open)(p, 'rb').read().decode('utf-8')))" % (c['compression'],),
            "print(list(io.events_from_file(p, compression=%r)))" % (c['compression'],),
            "print('expected', [(c, o or ['']) for c, o in events])"])
    return '\n'.join([
        "import os, tempfile, gzip", "from pyndl import io, count",
        "content = %r" % content_of(c),
        "p = os.path.join(tempfile.mkdtemp(), 'events.tab.gz')",
        "open_ = gzip.open if %r == 'gzip' else open" % c['compression'],
        "with open_(p, 'wb') as f: f.write(content.encode('utf-8'))",
        "print(list(io.events_from_file(p, compression=%r, start=%d, step=%d)))" % (c['compression'], c['start'], c['step']),
        "print(count.cues_outcomes(p, n_jobs=%r)) if %r == 'gzip' else None" % (c.get('count_jobs') or 1, c['compression'])])


def shrink(pool, driver, c):
    def fails(x):
        return bool(evaluate(pool, driver, x)[0])
    if c['kind'] == 'rt':
        simp = [('container', 'lists'), ('compression', None), ('compatible', False), ('count_jobs', None),
                ('columns', None), ('delimiter', None)]
        if c.get('df'):
            plain = {'order': 'co', 'extra': None, 'index': 'default', 'dtype': 'object', 'names': ['cues', 'outcomes']}
            simp = [('df', plain), ('df', dict(plain, names=c['df']['names'])), ('df', dict(c['df'], extra=None, index='default'))] + simp
        return T.shrink_rows(c, 'events', fails, simplify=simp)
    simp = [('start', 0), ('step', 1), ('count_jobs', None), ('compression', None), ('eol', '\n'), ('final_eol', True),
            ('header', 'cues\toutcomes')]
    return T.shrink_rows(c, 'rows', fails, simplify=simp)


def report(rep, pool, driver, c, probs):
    small, steps = shrink(pool, driver, c)
    p2, impl2, model2 = evaluate(pool, driver, small)
    if not p2:
        small, p2 = c, probs
        _, impl2, model2 = evaluate(pool, driver, c)
    mr = model_read(model2)
    rep.violation({'what': p2[0], 'all': p2[:4], 'input': {k: v for k, v in small.items()},
                   'observed': {k: impl2.get(k) for k in ('err', 'msg', 'stage', 'events', 'count')},
                   'expected': dict(mr, count=(model_count(model2['count']) if 'count' in model2 else None)),
                   'python': snippet(small),
                   'theorem_or_stream': 'stream %s: io.events_to_file/events_from_file/cues_outcomes vs Pyndl.Text '
                                        '(C07.parse_render / C07.freq_expand)' % c['stream'],
                   'shrink_steps': steps})


# --------------------------------------------------------------------------
# campaign
# --------------------------------------------------------------------------

def run(rep, pool, driver, tier):
    r = rng('C07')
    quick = tier == 'quick'
    cs = gen_rt(r, 192 if quick else 1920) + gen_file(r, 120 if quick else 1200) + gen_cr(r, 16 if quick else 64)
    cs += gen_rt2(rng('C07/writer_inputs'), 156 if quick else 1560)
    tasks = [KINDS[c['kind']][0](c) for c in cs]
    reqs = [KINDS[c['kind']][1](c) for c in cs]
    impls = pool.map(tasks)
    models = driver.ask(reqs)
    f11 = [f for f in known_findings('C07') if f['id'] == 'F11']
    failures = []
    seen_known = set()
    for c, impl, model in zip(cs, impls, models):
        probs = KINDS[c['kind']][2](c, impl, model)
        evs = c['events'] if c['kind'] == 'rt' else [[x[0], x[1]] for x in c['rows']]
        rep.case({k: v for k, v in c.items()}, nontrivial=len(evs) >= 1, stream=c['stream'])
        rep.count('stream:' + c['stream'])
        rep.count('outcome:' + (model.get('err') or 'Returned'))
        if c['kind'] == 'rt':
            rep.count('container:%s' % c['container'])
            rep.count('compression:%s' % c['compression'])
            rep.count('compatible:%s' % c['compatible'])
            if c['stream'] == 'writer_inputs':
                rep.count('columns=%s' % ('not passed' if c['columns'] is None else 'legacy triple, compatible=%s' % c['compatible']
                                          if c['columns'] == LEGACY else '/'.join(c['columns'])))
                rep.count('delimiter=%s' % ('not passed' if c['delimiter'] is None else repr(c['delimiter'])))
                if c.get('df'):
                    for k in ('order', 'extra', 'index', 'dtype'):
                        rep.count('dataframe_%s:%s' % (k, c['df'][k]))
                    rep.count('dataframe_columns_named:%s' % '/'.join(c['df']['names']))
                    if impl.get('df_dtype_fallback'):
                        rep.count('dataframe_dtype_kept_object(pandas conversion altered the cells)')
        else:
            rep.count('file_start_step:%s' % ('0,1' if (c['start'], c['step']) == (0, 1) else 'step=0' if c['step'] == 0 else 'sliced'))
            if c.get('count_jobs') == 0:
                rep.count('file_count_jobs:0')
            rep.count('file_eol:%r' % c['eol'])
            for x in c['rows']:
                rep.count('freq:%s' % (x[2] if x[2] in (None, 0, 1, 2, 3, 4, 5) else
                                       'int-literal' if x[2] in INT_LITERALS else 'malformed'))
        if any(not o for _, o in evs):
            rep.count('cases_with_outcomeless_event')
        chars = set(''.join(t for c_, o_ in evs for t in c_ + o_))
        for name, grp in (('combining', T.MARKS), ('astral', T.ASTRAL), ('unicode_space_or_separator', T.SPACES)):
            if chars & set(''.join(grp)):
                rep.count('cases_with_' + name)
        if c['stream'] == 'cr_token':
            # F11: the model (universal newlines) predicts exactly what the code does with a CR;
            # that prediction differs from the written events. Anything else is a violation.
            model_dis = [p for p in probs if not p.startswith('property')]
            want = {'events': T.file_norm(c['events'])}
            impl_read = {'err': impl['err']} if 'err' in impl else {'events': impl.get('events')}
            if model_dis:
                failures.append((c, model_dis))
            elif impl_read == want:
                failures.append((c, ['cr_token stream: a token with U+000D round-tripped unchanged; known finding F11 '
                                     'no longer reproduces and the model (universal newlines) is out of date']))
            elif f11:
                cls = 'ValueError' if 'err' in impl_read else 'a different event sequence'
                if cls not in seen_known:
                    seen_known.add(cls)
                    rep.known(f11[0], 'token containing U+000D is read back as ' + cls)
                rep.count('F11_reproduced_as:' + cls)
                rep.sample({'stream': 'cr_token', 'wrote': c['events'], 'read_back': impl_read}, limit=5)
                rep.count('F11_reproduced')
            else:
                failures.append((c, ['token containing U+000D does not round-trip and no known finding F11 is registered']))
            continue
        if probs:
            failures.append((c, probs))
        elif len(evs) >= 2 and 'err' not in model:
            rep.sample({'stream': c['stream'], 'input': {k: v for k, v in c.items() if k not in ('kind', 'stream')},
                        'read_back': impl.get('events', [])[:4], 'count': impl.get('count')}, limit=3)
    for c, probs in failures[:4]:
        report(rep, pool, driver, c, probs)

    # ---- input forms of the learners
    bases = gen_learn(r, 24 if quick else 160)
    variants = []
    for b in bases:
        for v in learn_variants(b):
            variants.append((b, v))
    impls = pool.map([v[2] for _, v in variants])
    models = driver.ask([v[3] for _, v in variants])
    lfail = []
    by_group = {}
    for (b, (learner, form, t, req)), impl, model in zip(variants, impls, models):
        rep.case({'events': b['events'], 'freq': b['freq'], 'learner': learner, 'form': form,
                  'p': [b['alpha'], b['beta1'], b['beta2'], b['lambda']]}, nontrivial=True, stream='forms')
        rep.count('form:%s/%s' % (learner, form))
        rep.count('forms_freq_column' if b['freq'] is not None else 'forms_no_freq_column')
        rep.count('forms_continue_from_weights' if b.get('init_lw') else 'forms_from_scratch')
        if learner != 'dict_ndl':
            ne = len(T.expand([[c, o, (b['freq'][k] if b['freq'] is not None else None)] for k, (c, o) in enumerate(b['events'])]))
            chunks = (ne + b['per_file'] - 1) // b['per_file']
            rep.count('forms_ndl:%s/per_file=%s/%s/%s' % (learner, b['per_file'] if b['per_file'] < 100 else 'default',
                                                         'freq' if b['freq'] is not None else 'nofreq',
                                                         '0 events' if ne == 0 else '1 chunk' if chunks == 1 else '>=2 chunks'))
        d = L.compare(impl, model)
        for p in L.side_checks(impl):
            d = d or p
        if d:
            lfail.append((b, learner, form, d, impl, model))
        by_group.setdefault((b['group'], learner), []).append((form, impl))
    for (g, learner), lst in by_group.items():
        b = bases[g]
        kept = [e for k, e in enumerate(b['events']) if b['freq'] is None or b['freq'][k] > 0]
        if any(not o for _, o in kept):
            rep.count('forms_groups_with_outcomeless_event(no cross-form comparison)')
            continue
        rep.count('forms_groups_cross_compared')
        ref_form, ref = lst[0]
        for form, impl in lst[1:]:
            a = ('err', ref.get('err')) if 'err' in ref else gen.cells_dict(ref['cells'])
            z = ('err', impl.get('err')) if 'err' in impl else gen.cells_dict(impl['cells'])
            if a != z:
                lfail.append((b, learner, form, 'property (same weights for every input form): %s given as %s and as %s '
                              'disagree' % (learner, ref_form, form), impl, ref))
    done = set()
    for b, learner, form, d, impl, model in lfail:
        if b['group'] in done or len(done) >= 2:
            continue
        done.add(b['group'])
        small, steps = shrink_learn(pool, driver, b)
        res = eval_learn(pool, driver, small)
        if res:
            b2 = small
            learner, form, d, impl, model = res[0]
        else:
            b2, steps = b, 0
        rep.violation({'what': d, 'learner': learner, 'form': form,
                       'input': {k: v for k, v in b2.items() if k not in ('kind', 'group')},
                       'observed': {k: impl.get(k) for k in ('err', 'msg', 'cells', 'outcomes', 'cues', 'attrs')},
                       'expected': {k: model.get(k) for k in ('err', 'cells', 'outcomes', 'cues', 'n_events')},
                       'python': 'events = %r\nfreq = %r  # third column of the event file (None: no column)\n'
                                 '# write events (+freq) to an event file and call %s with form %r, alpha=%s betas=(%s,%s) lambda=%s, '
                                 'events_per_temporary_file=%s, n_jobs=%s, remove_duplicates=%r'
                                 % (b2['events'], b2['freq'], learner, form, b2['alpha'], b2['beta1'], b2['beta2'], b2['lambda'],
                                    b2.get('per_file'), b2.get('n_jobs'), {'error': None, 'keep': False}.get(b2['policy'])),
                       'theorem_or_stream': 'stream forms: learn/%s form=%s vs Lean learner model on parse(render(events)) (C07.forms_agree)' % (learner, form),
                       'shrink_steps': steps, 'shrunk_from_events': len(b['events'])})
    rep.extra['failures_total'] = len(failures) + len(lfail)


def replay(rep, pool, driver, rp):
    c = rp['input']
    if c.get('kind') in KINDS:
        probs, impl, model = evaluate(pool, driver, c)
        rep.case(c, stream='replay')
        if probs:
            rep.violation(dict(rp, what=probs[0], observed={k: impl.get(k) for k in ('err', 'events', 'count')}))
