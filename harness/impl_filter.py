"""
Implementation ops for C10: the real `pyndl.preprocess.filter_event_file`.

op `filter_file`
    events | lines : the input.  `events` = [[cues], [outcomes]] pairs written by
                     the harness' own writer `impl.write_event_file` (header
                     `cues\\toutcomes`); `lines` = raw lines (header first),
                     written verbatim with '\\n' after each (after all but the
                     last when `final_newline` is false).
    cues, outcomes : {"keep": [..]|None, "remove": [..]|None, "map": [[k, v]..]|None}
    n_jobs, chunksize, passes (default 1: how often the same filter is applied,
                     each pass reading the previous pass' output file)
    containers     : {"keep_cues"|"keep_outcomes"|"remove_cues"|"remove_outcomes":
                      "list"|"tuple"|"set"|"frozenset"|"dict_keys"} (default list) and
                     {"cue_map"|"outcome_map": "dict"|"defaultdict"|"defaultdict_factory"|"ordereddict"}
                     (default dict): the Python type the argument is handed over as.  The
                     defaultdict variants carry their own default factory (`str`, resp. one
                     that returns 'DEFAULT-FACTORY-VALUE'): the documented meaning of a map
                     is "removes all cues that do not have a key", whatever the mapping type.
    verbose        : pass verbose=True (output captured in memory)
  returns {'input_lines', 'passes': [lines of the output after each pass],
           'terminated': every output file is '' or ends with '\\n',
           'file_unchanged'} or {'err': class}.
The files are read back with gzip directly (never with pyndl's reader).
"""
import collections
import contextlib
import gzip
import io
import os
import shutil
import tempfile

from pyndl import preprocess

import impl

WORK = os.getcwd()


def _read_text(path):
    with gzip.open(path, 'rt', encoding='utf-8', newline='') as f:   # newline='': no translation
        return f.read()


def _lines(text):
    """lines without their '\\n'; a final unterminated line counts"""
    if text == '':
        return []
    ls = text.split('\n')
    if ls[-1] == '':
        ls.pop()
    return ls


def _factory_value():
    return 'DEFAULT-FACTORY-VALUE'


def container(kind, items):
    """the token list `items` as the requested Python collection type"""
    items = list(items)
    if kind in (None, 'list'):
        return items
    if kind == 'tuple':
        return tuple(items)
    if kind == 'set':
        return set(items)
    if kind == 'frozenset':
        return frozenset(items)
    if kind == 'dict_keys':
        return dict.fromkeys(items).keys()
    raise RuntimeError('bad container %r' % (kind,))


def mapping(kind, pairs):
    """the key/value pairs as the requested mapping type"""
    d = {k: v for k, v in pairs}
    if kind in (None, 'dict'):
        return d
    if kind == 'defaultdict':
        return collections.defaultdict(str, d)
    if kind == 'defaultdict_factory':
        return collections.defaultdict(_factory_value, d)
    if kind == 'ordereddict':
        return collections.OrderedDict(d)
    raise RuntimeError('bad mapping %r' % (kind,))


def _side_kwargs(side, which, containers=None):
    side = side or {}
    containers = containers or {}
    kw = {}
    if side.get('keep') is not None:
        kw['keep_' + which] = container(containers.get('keep_' + which), side['keep'])
    if side.get('remove') is not None:
        kw['remove_' + which] = container(containers.get('remove_' + which), side['remove'])
    if side.get('map') is not None:
        kw[which[:-1] + '_map'] = mapping(containers.get(which[:-1] + '_map'), side['map'])
    return kw


def op_filter_file(t):
    root = tempfile.mkdtemp(prefix='filter-', dir=WORK)
    try:
        src = os.path.join(root, 'in.tab.gz')
        if t.get('events') is not None:
            impl.write_event_file(src, [(list(c), list(o)) for c, o in t['events']])
        else:
            text = '\n'.join(t['lines'])
            if t['lines'] and t.get('final_newline', True):
                text += '\n'
            with gzip.open(src, 'wt', encoding='utf-8', newline='\n') as f:
                f.write(text)
        before = impl.sha(src)
        res = {'input_lines': _lines(_read_text(src)), 'passes': [], 'terminated': True}
        cur = src
        try:
            for k in range(int(t.get('passes', 1))):
                dst = os.path.join(root, 'out%d.tab.gz' % k)
                # the arguments are built anew for every pass (a dict view / mapping object is not
                # shared between two calls)
                kw = {}
                kw.update(_side_kwargs(t.get('cues'), 'cues', t.get('containers')))
                kw.update(_side_kwargs(t.get('outcomes'), 'outcomes', t.get('containers')))
                if t.get('verbose'):
                    kw['verbose'] = True          # X1
                with contextlib.redirect_stdout(io.StringIO()):
                    preprocess.filter_event_file(cur, dst, n_jobs=int(t.get('n_jobs', 1)),
                                                 chunksize=int(t.get('chunksize', 100000)), **kw)
                text = _read_text(dst)
                if text and not text.endswith('\n'):
                    res['terminated'] = False
                res['passes'].append(_lines(text))
                cur = dst
        except Exception as e:  # noqa
            r = impl.err(e)
            r['input_lines'] = res['input_lines']
            r['passes_done'] = len(res['passes'])
            res = r
        res['file_unchanged'] = (impl.sha(src) == before)
        return res
    finally:
        shutil.rmtree(root, ignore_errors=True)


OPS = {'filter_file': op_filter_file}
