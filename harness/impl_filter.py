"""
Implementation ops for C10: the real `pyndl.preprocess.filter_event_file`.

op `filter_file`
    events | lines : the input.  `events` = [[cues], [outcomes]] pairs written by
                     the harness' own writer `impl.write_event_file` (header
                     `cues\\toutcomes`); `lines` = raw lines (header first),
                     written verbatim with '\\n' after each (after all but the
                     last when `final_newline` is false).
    cues, outcomes : {"keep": [..]|None, "remove": [..]|None, "map": [[k, v]..]|None}
    n_jobs, chunksize, passes (default 1: how often the same filter is applied,
                     each pass reading the previous pass' output file)
  returns {'input_lines', 'passes': [lines of the output after each pass],
           'terminated': every output file is '' or ends with '\\n',
           'file_unchanged'} or {'err': class}.
The files are read back with gzip directly (never with pyndl's reader).
"""
import gzip
import os
import shutil
import tempfile

from pyndl import preprocess

import impl

WORK = os.getcwd()


def _read_text(path):
    with gzip.open(path, 'rt', encoding='utf-8', newline='') as f:   # newline='': no translation
        return f.read()


def _lines(text):
    """lines without their '\\n'; a final unterminated line counts"""
    if text == '':
        return []
    ls = text.split('\n')
    if ls[-1] == '':
        ls.pop()
    return ls


def _side_kwargs(side, which):
    side = side or {}
    kw = {}
    if side.get('keep') is not None:
        kw['keep_' + which] = list(side['keep'])
    if side.get('remove') is not None:
        kw['remove_' + which] = list(side['remove'])
    if side.get('map') is not None:
        kw[which[:-1] + '_map'] = {k: v for k, v in side['map']}
    return kw


def op_filter_file(t):
    root = tempfile.mkdtemp(prefix='filter-', dir=WORK)
    try:
        src = os.path.join(root, 'in.tab.gz')
        if t.get('events') is not None:
            impl.write_event_file(src, [(list(c), list(o)) for c, o in t['events']])
        else:
            text = '\n'.join(t['lines'])
            if t['lines'] and t.get('final_newline', True):
                text += '\n'
            with gzip.open(src, 'wt', encoding='utf-8', newline='\n') as f:
                f.write(text)
        before = impl.sha(src)
        res = {'input_lines': _lines(_read_text(src)), 'passes': [], 'terminated': True}
        kw = {}
        kw.update(_side_kwargs(t.get('cues'), 'cues'))
        kw.update(_side_kwargs(t.get('outcomes'), 'outcomes'))
        cur = src
        try:
            for k in range(int(t.get('passes', 1))):
                dst = os.path.join(root, 'out%d.tab.gz' % k)
                preprocess.filter_event_file(cur, dst, n_jobs=int(t.get('n_jobs', 1)),
                                             chunksize=int(t.get('chunksize', 100000)), **kw)
                text = _read_text(dst)
                if text and not text.endswith('\n'):
                    res['terminated'] = False
                res['passes'].append(_lines(text))
                cur = dst
        except Exception as e:  # noqa
            r = impl.err(e)
            r['input_lines'] = res['input_lines']
            r['passes_done'] = len(res['passes'])
            res = r
        res['file_unchanged'] = (impl.sha(src) == before)
        return res
    finally:
        shutil.rmtree(root, ignore_errors=True)


OPS = {'filter_file': op_filter_file}
