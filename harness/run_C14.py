"""
C14 — Widrow-Hoff with unit vectors reproduces Rescorla-Wagner learning.
Lean (PyndlProps/C14.lean): onehot_sum, wh_r2b_onehot_eq_rw,
wh_b2r_onehot_eq_rw, wh_r2r_onehot_eq_rw (+ the counter-example showing that
outcomes must be unique within an event).
Correspondence: wh.wh in all flavours (one-hot cue and/or outcome tables with
shuffled rows and extra unused dimensions; no table = binary/binary) against
ndl.ndl(alpha=1, betas=(eta, eta), lambda=1) on the SAME event file
(implementation vs implementation), after renaming vector dimensions to names;
both also against the Lean models (whModel, ndlModel). Multi-cue events,
repeated cues with remove_duplicates=False on both sides, outcomes unique
within an event.
"""
from fractions import Fraction

import gen
import learners as L
import whgen
from common import rng, frac

TIMEOUT = 120
CUES = ['a', 'b', 'c', 'd', 'ä']
OUTS = ['x', 'y', 'z', 'ö']


def run(rep, pool, driver, tier):
    r = rng('C14')
    quick = tier == 'quick'
    groups = []
    for i in range(25 if quick else 300):
        n = r.randint(1, 6)
        keep = r.random() < 0.4
        es = []
        for _ in range(n):
            kc = r.randint(1, 4)
            cs = [r.choice(CUES) for _ in range(kc)] if keep else r.sample(CUES, kc)
            es.append([cs, r.sample(OUTS, r.randint(1, 3))])
        policy = 'keep' if keep else r.choice(['error', 'dedup'])
        eta = r.choice(whgen.ETAS)
        cfg = dict(n_jobs=r.choice([1, 2, 4]), per_job=r.choice([1, 2, 10]), per_file=r.choice([2, 10000000]))
        for flavour in ('r2r', 'b2r', 'r2b', 'b2b'):
            t = dict(cfg, op='wh', flavour=flavour, events=es, eta=eta, policy=policy)
            if flavour in ('r2r', 'r2b'):
                t['cue_vectors'] = whgen.table(r, CUES, len(CUES) + r.randint(0, 3), onehot=True, prefix='cd')
            if flavour in ('r2r', 'b2r'):
                t['outcome_vectors'] = whgen.table(r, OUTS, len(OUTS) + r.randint(0, 5), onehot=True, prefix='od')
            # chunk sizes that divide one dimension of the weight matrix but not the other (the row
            # partition must follow the ROW dimension only: seeded changes C08_a, C14_a)
            n_out_names = len({o for _, os_ in es for o in os_})
            dims = [len(t[k]['dims']) for k in ('cue_vectors', 'outcome_vectors') if k in t] + [n_out_names, len(CUES)]
            if r.random() < 0.6:
                d = r.choice(dims)
                t['per_job'] = r.choice([x for x in (d, max(1, d // 2), d + 1, max(1, d - 1)) if x >= 1])
            ndl_case = dict(cfg, per_job=t['per_job'], events=es, alpha='1', beta1=eta, beta2=eta, **{'lambda': '1'}, policy=policy)
            groups.append((t, ndl_case))
    wh_impl = pool.map([t for t, _ in groups])
    ndl_impl = pool.map([L.impl_task(c, 'ndl_openmp') for _, c in groups])
    wh_model = driver.ask([whgen.model_request(t) if t['flavour'] != 'b2b' else L.model_request(c, 'ndl_openmp') for t, c in groups])
    ndl_model = driver.ask([L.model_request(c, 'ndl_openmp') for _, c in groups])
    for (t, c), wi, ni, wm, nm in zip(groups, wh_impl, ndl_impl, wh_model, ndl_model):
        rep.case({k: v for k, v in t.items() if k != 'op'}, nontrivial=True, stream='onehot_' + t['flavour'])
        rep.count('policy:' + t['policy'])
        prob = L.compare(ni, nm)
        if prob:
            prob = 'ndl.ndl vs Lean model: ' + prob
        elif 'err' in wi:
            prob = 'wh.wh raised %s %s' % (wi['err'], wi.get('msg', ''))
        else:
            if t['flavour'] != 'b2b':
                d = whgen.compare(wi, wm)
                if d:
                    prob = 'wh.wh vs Lean whModel: ' + d
            if prob is None:
                ch = t.get('cue_vectors', {}).get('hot')
                oh = t.get('outcome_vectors', {}).get('hot')
                inv_c = {v: k for k, v in ch.items()} if ch else None
                inv_o = {v: k for k, v in oh.items()} if oh else None
                ren = {}
                for o, cu, v in wi['cells']:
                    ro = inv_o.get(o) if inv_o else o
                    rc = inv_c.get(cu) if inv_c else cu
                    if ro is None or rc is None:
                        if frac(v) != 0:
                            prob = 'weight on an unused one-hot dimension (%r, %r) = %s' % (o, cu, v)
                        continue
                    ren[(ro, rc)] = frac(v)
                nd = gen.cells_dict(ni['cells'])
                for k in set(ren) | set(nd):
                    if ren.get(k, Fraction(0)) != nd.get(k, Fraction(0)):
                        prob = 'wh (%s, one-hot) weight %r = %s, ndl(alpha=1, betas=(eta,eta), lambda=1) = %s' % (
                            t['flavour'], k, float(ren.get(k, 0)), float(nd.get(k, 0)))
                        break
        if prob:
            rep.violation({'what': prob, 'input': t, 'observed': wi.get('cells', wi.get('err')), 'expected': ni.get('cells', ni.get('err')),
                           'theorem_or_stream': 'C14 wh_%s_onehot_eq_rw: wh.wh vs ndl.ndl on the same file' % t['flavour']})
        elif len(t['events']) >= 2:
            rep.sample({'flavour': t['flavour'], 'events': t['events'][:3], 'eta': t['eta'], 'policy': t['policy'],
                        'wh_cells': wi['cells'][:3], 'ndl_cells': ni['cells'][:3]})
