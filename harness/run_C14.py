"""
C14 — Widrow-Hoff with unit vectors reproduces Rescorla-Wagner learning.
Lean (PyndlProps/C14.lean): onehot_sum, wh_r2b_onehot_eq_rw,
wh_b2r_onehot_eq_rw, wh_r2r_onehot_eq_rw (+ the counter-example showing that
outcomes must be unique within an event).
Correspondence: wh.wh in all flavours (one-hot cue and/or outcome tables with
shuffled rows and extra unused dimensions; no table = binary/binary) against
ndl.ndl(alpha=1, betas=(eta, eta), lambda=1) on the SAME event file
(implementation vs implementation), after renaming vector dimensions to names;
both also against the Lean models (whModel, ndlModel). Multi-cue events,
repeated cues with remove_duplicates=False on both sides, outcomes unique
within an event.  Stream many_chunks_<flavour>: 23..38 events with
events_per_temporary_file in {2, 3} (11..15 chunk files).  Streams onehot_numpy /
onehot_dict_wh: method='numpy' and dict_wh (single-cue/single-outcome events,
one-hot tables) against ndl.ndl on the same events; both are also compared with
THEIR OWN Lean models (whNumpyModel / dictWhModel, driver ops wh_numpy / dict_wh;
C14 wh_numpy_onehot_eq_ndl, dict_wh_onehot_eq_ndl) besides whModel.
"""
from fractions import Fraction

import gen
import learners as L
import whgen
from common import rng, frac, close

TIMEOUT = 120
CUES = ['a', 'b', 'c', 'd', 'ä']
OUTS = ['x', 'y', 'z', 'ö']
# duplicate policies for method='numpy' / dict_wh (remove_duplicates None / False / True)
METHOD_POLICIES = ['error', 'keep', 'dedup']


def judge(t, wi, ni, wm, nm):
    """None, or the first disagreement of one group: ndl.ndl vs ndlModel, wh vs whModel, wh (renamed) vs ndl.ndl.
    wh vs ndl is compared exactly when the model values need at most learners.EXACT_BITS bits, otherwise with the
    2^-30 relative tolerance of common.close"""
    exact = max(wm.get('bits', 0), nm.get('bits', 0)) <= L.EXACT_BITS
    prob = L.compare(ni, nm)
    if prob:
        prob = 'ndl.ndl vs Lean model: ' + prob
    elif 'err' in wi:
        prob = 'wh.wh raised %s %s' % (wi['err'], wi.get('msg', ''))
    else:
        if t['flavour'] != 'b2b':
            d = whgen.compare(wi, wm)
            if d:
                prob = 'wh.wh vs Lean whModel: ' + d
        if prob is None:
            ch = t.get('cue_vectors', {}).get('hot')
            oh = t.get('outcome_vectors', {}).get('hot')
            inv_c = {v: k for k, v in ch.items()} if ch else None
            inv_o = {v: k for k, v in oh.items()} if oh else None
            ren = {}
            for o, cu, v in wi['cells']:
                ro = inv_o.get(o) if inv_o else o
                rc = inv_c.get(cu) if inv_c else cu
                if ro is None or rc is None:
                    if frac(v) != 0:
                        prob = 'weight on an unused one-hot dimension (%r, %r) = %s' % (o, cu, v)
                    continue
                ren[(ro, rc)] = frac(v)
            nd = gen.cells_dict(ni['cells'])
            for k in set(ren) | set(nd):
                if not close(ren.get(k, Fraction(0)), nd.get(k, Fraction(0)), exact):
                    prob = 'wh (%s, one-hot) weight %r = %s, ndl(alpha=1, betas=(eta,eta), lambda=1) = %s' % (
                        t['flavour'], k, float(ren.get(k, 0)), float(nd.get(k, 0)))
                    break
    return prob


def ndl_case_of(t):
    """the Rescorla-Wagner call on the same events: alpha=1, betas=(eta, eta), lambda=1, same configuration"""
    return dict(n_jobs=t['n_jobs'], per_job=t['per_job'], per_file=t['per_file'], events=t['events'], alpha='1',
                beta1=t['eta'], beta2=t['eta'], **{'lambda': '1'}, policy=t['policy'])


def evaluate(pool, driver, t):
    c = ndl_case_of(t)
    wi = pool.map([t])[0]
    ni = pool.map([L.impl_task(c, 'ndl_openmp')])[0]
    nm = driver.ask([L.model_request(c, 'ndl_openmp')])[0]
    wm = driver.ask([whgen.model_request(t)])[0] if t['flavour'] != 'b2b' else nm
    return judge(t, wi, ni, wm, nm), wi, ni


def run(rep, pool, driver, tier):
    r = rng('C14')
    quick = tier == 'quick'
    groups = []
    for i in range(25 if quick else 300):
        n = r.randint(1, 6)
        keep = r.random() < 0.4
        es = []
        for _ in range(n):
            kc = r.randint(1, 4)
            cs = [r.choice(CUES) for _ in range(kc)] if keep else r.sample(CUES, kc)
            es.append([cs, r.sample(OUTS, r.randint(1, 3))])
        policy = 'keep' if keep else r.choice(['error', 'dedup'])
        eta = r.choice(whgen.ETAS)
        cfg = dict(n_jobs=r.choice([1, 2, 4]), per_job=r.choice([1, 2, 10]), per_file=r.choice([2, 10000000]))
        for flavour in ('r2r', 'b2r', 'r2b', 'b2b'):
            t = dict(cfg, op='wh', flavour=flavour, events=es, eta=eta, policy=policy)
            if flavour in ('r2r', 'r2b'):
                t['cue_vectors'] = whgen.table(r, CUES, len(CUES) + r.randint(0, 3), onehot=True, prefix='cd')
            if flavour in ('r2r', 'b2r'):
                t['outcome_vectors'] = whgen.table(r, OUTS, len(OUTS) + r.randint(0, 5), onehot=True, prefix='od')
            # chunk sizes that divide one dimension of the weight matrix but not the other (the row
            # partition must follow the ROW dimension only: seeded changes C08_a, C14_a)
            n_out_names = len({o for _, os_ in es for o in os_})
            dims = [len(t[k]['dims']) for k in ('cue_vectors', 'outcome_vectors') if k in t] + [n_out_names, len(CUES)]
            if r.random() < 0.6:
                d = r.choice(dims)
                t['per_job'] = r.choice([x for x in (d, max(1, d // 2), d + 1, max(1, d - 1)) if x >= 1])
            ndl_case = dict(cfg, per_job=t['per_job'], events=es, alpha='1', beta1=eta, beta2=eta, **{'lambda': '1'}, policy=policy)
            groups.append((t, ndl_case))
    # >= 11 chunk files (audit X7): wh.wh sorts its chunk file names at three places of its own; the same
    # file goes to ndl.ndl (its sort is C04's).  eta 1/2 keeps up to 38 events in the exact domain.
    r_mc = rng('C14/many_chunks')
    for i in range(1 if quick else 12):
        per_file = r_mc.choice([2, 3])
        n = r_mc.randint(23, 30) if per_file == 2 else r_mc.randint(31, 38)
        keep = r_mc.random() < 0.4
        es = []
        for _ in range(n):
            kc = r_mc.randint(1, 3)
            cs = [r_mc.choice(CUES) for _ in range(kc)] if keep else r_mc.sample(CUES, kc)
            es.append([cs, r_mc.sample(OUTS, r_mc.randint(1, 2))])
        policy = 'keep' if keep else r_mc.choice(['error', 'dedup'])
        eta = r_mc.choice(['1/2', '1/4', '1/8'])
        cfg = dict(n_jobs=r_mc.choice([1, 2, 4]), per_job=r_mc.choice([1, 2, 3, 10]), per_file=per_file)
        for flavour in ('r2r', 'b2r', 'r2b', 'b2b'):
            t = dict(cfg, op='wh', flavour=flavour, events=es, eta=eta, policy=policy, _stream='many_chunks_' + flavour, _long=True)
            if flavour in ('r2r', 'r2b'):
                t['cue_vectors'] = whgen.table(r_mc, CUES, len(CUES) + r_mc.randint(0, 2), onehot=True, prefix='cd')
            if flavour in ('r2r', 'b2r'):
                t['outcome_vectors'] = whgen.table(r_mc, OUTS, len(OUTS) + r_mc.randint(0, 2), onehot=True, prefix='od')
            groups.append((t, ndl_case_of(t)))
    # "forall flavours and methods": method='numpy' and dict_wh (real-to-real only, exactly one cue and one
    # outcome per event) with one-hot tables against ndl.ndl on the same events
    r_m = rng('C14/methods')
    for i in range(10 if quick else 120):
        n = r_m.randint(1, 6)
        es = [[[r_m.choice(CUES)], [r_m.choice(OUTS)]] for _ in range(n)]
        policy = r_m.choice(METHOD_POLICIES)
        eta = r_m.choice(whgen.ETAS)
        cfg = dict(n_jobs=r_m.choice([1, 2, 4]), per_job=r_m.choice([1, 2, 10]), per_file=r_m.choice([2, 10000000]))
        for method in ('numpy', 'dict_wh'):
            t = dict(cfg, op='wh', flavour='r2r', method=method, events=es, eta=eta, policy=policy, _stream='onehot_' + method)
            t['cue_vectors'] = whgen.table(r_m, CUES, len(CUES) + r_m.randint(0, 3), onehot=True, prefix='cd')
            t['outcome_vectors'] = whgen.table(r_m, OUTS, len(OUTS) + r_m.randint(0, 5), onehot=True, prefix='od')
            if method == 'dict_wh':
                t['make_data_array'] = r_m.random() < 0.5
                t['events_form'] = r_m.choice(['path', 'list', 'generator'])
            groups.append((t, ndl_case_of(t)))
    wh_impl = pool.map([t for t, _ in groups])
    ndl_impl = pool.map([L.impl_task(c, 'ndl_openmp') for _, c in groups])
    wh_model = driver.ask([whgen.model_request(t) if t['flavour'] != 'b2b' else L.model_request(c, 'ndl_openmp') for t, c in groups])
    ndl_model = driver.ask([L.model_request(c, 'ndl_openmp') for _, c in groups])
    py_idx = [i for i, (t, _) in enumerate(groups) if t.get('method')]
    py_model = dict(zip(py_idx, driver.ask([whgen.py_model_request(groups[i][0]) for i in py_idx])))
    for i in py_idx:
        t = groups[i][0]
        pm = py_model[i]
        rep.count('py_model:%s:%s' % (t['method'], pm.get('err', 'Returned')))
        d = whgen.compare_py(wh_impl[i], pm)
        if d:
            rep.violation({'what': d, 'input': t, 'observed': wh_impl[i].get('cells', wh_impl[i].get('err')),
                           'expected': pm.get('cells', pm.get('err')),
                           'theorem_or_stream': 'C14 %s: %s with one-hot tables vs its own Lean model' % (
                               'wh_numpy_onehot_eq_ndl' if t['method'] == 'numpy' else 'dict_wh_onehot_eq_ndl',
                               "wh.wh(method='numpy')" if t['method'] == 'numpy' else 'wh.dict_wh')})
    for (t, c), wi, ni, wm, nm in zip(groups, wh_impl, ndl_impl, wh_model, ndl_model):
        rep.case({k: v for k, v in t.items() if k != 'op'}, nontrivial=True, stream=t.get('_stream', 'onehot_' + t['flavour']))
        rep.count('policy:' + t['policy'])
        prob = judge(t, wi, ni, wm, nm)
        if t.get('method'):
            rep.count('method:%s:policy:%s' % (t['method'], t['policy']))
            if t['method'] == 'dict_wh':
                rep.count('dict_wh:make_data_array:%s' % t['make_data_array'])
                rep.count('dict_wh:events_form:' + t['events_form'])
        if t.get('_long'):
            rep.count('chunk_files:%d' % whgen.n_chunk_files(len(t['events']), t['per_file']))
            rep.count('many_chunks_domain:' + ('exact' if max(wm.get('bits', 0), nm.get('bits', 0)) <= 49 else 'tolerance'))
            alt = driver.ask([L.model_request(dict(c, events=whgen.lexsorted_events(t['events'], t['per_file'])), 'ndl_openmp')])[0]
            rep.count('many_chunks_sees_lexsort:' + ('yes' if alt.get('cells') != nm.get('cells') else 'no'))
        if prob and t.get('_long'):
            small, steps = whgen.shrink_events(t, lambda x: evaluate(pool, driver, x)[0] is not None, budget=30)
            p2, wi2, ni2 = evaluate(pool, driver, small)
            if p2 is None:
                small, p2, wi2, ni2 = t, prob, wi, ni
            rep.violation({'what': p2, 'input': small, 'observed': wi2.get('cells', wi2.get('err')), 'expected': ni2.get('cells', ni2.get('err')),
                           'python': whgen.python_snippet(small) if t['flavour'] != 'b2b' else None,
                           'chunk_files': whgen.n_chunk_files(len(small['events']), small['per_file']),
                           'shrunk_from_events': len(t['events']), 'shrink_steps': steps,
                           'theorem_or_stream': 'C14 wh_%s_onehot_eq_ndl: wh.wh vs ndl.ndl on the same file, >= 11 chunk files' % t['flavour']})
        elif prob:
            rep.violation({'what': prob, 'input': t, 'observed': wi.get('cells', wi.get('err')), 'expected': ni.get('cells', ni.get('err')),
                           'theorem_or_stream': 'C14 wh_%s_onehot_eq_rw: %s vs ndl.ndl on the same file' % (
                               t['flavour'], {'numpy': "wh.wh(method='numpy')", 'dict_wh': 'wh.dict_wh'}.get(t.get('method'), 'wh.wh'))})
        elif len(t['events']) >= 2:
            rep.sample({'flavour': t['flavour'], 'events': t['events'][:3], 'eta': t['eta'], 'policy': t['policy'],
                        'wh_cells': wi['cells'][:3], 'ndl_cells': ni['cells'][:3]})
