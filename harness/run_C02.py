"""
C02 — parallel learning is independent of the schedule and always terminates.
Lean (PyndlProps/C02.lean): sliceList_partition, ompParts_partition,
parts_disjoint, footprint_disjoint, schedule_independent_threading/_openmp
(every interleaving), any_two_schedules_agree, queue_exactly_once,
queue_bounded, queue_progress.
Correspondence: (i) real ndl.ndl across n_jobs x n_outcomes_per_job x method x
PYTHONHASHSEED (separate worker pools per hash seed) vs the Lean model,
exact; (ii) exactly-once probe (one single-cue event, alpha*beta = 1/2: 0.5
once, 0.75 twice, 0 never) on 1..200 outcomes, and three identical events in
TWO chunk files (events_per_temporary_file=2) for 11/20/65 outcomes x 7/16/64
threads x chunk sizes 1/3/10: every row trained exactly three times (value
taken from the model: 7/8); (i') half of the configurations continue from
initial weights with 5..25 outcome rows the file never mentions (all memory
layouts): ndl.ndl rebuilds the list of rows to train from old + new outcomes,
and those rows must be trained on every event too; (iii) trace validation: the
history of the shared work queue (logging Queue + kernel proxy, schedule
shaken by random sleeps) is replayed through the Lean transition system and
the hypotheses of schedule_independent are checked on it (row sets disjoint
and covering, every call gets the complete file list); (iv) slice_list and the
model partitioners on every (n, chunk); OpenMP oversubscribed (64 threads).
"""
import gen
import learners as L
import pool as poolmod
from common import rng, Fraction

WORKERS = 6
TIMEOUT = 120
TRUSTED = ['OpenMP runtime scheduling is not observable from Python: covered by the theorem under the '
           'data-race-free => sequentially-consistent assumption (footprint_disjoint) plus result comparison',
           'threading.Lock is a mutex; every started thread is eventually scheduled']


def run(rep, pool, driver, tier):
    r = rng('C02')
    quick = tier == 'quick'
    pools = {None: pool}
    for hs in (['0', '12345'] if quick else ['0', '1', '12345', '987654321']):
        pools[hs] = poolmod.ImplPool(pool.scratch, n=4, timeout=TIMEOUT, env_extra={'PYTHONHASHSEED': hs})
    try:
        _configs(rep, pools, driver, r, quick)
        _probe(rep, pools, driver, r, quick)
        _traces(rep, pool, driver, r, quick)
        _partitions(rep, pool, driver, quick)
    finally:
        for k, p in pools.items():
            if k is not None:
                p.close()


def _configs(rep, pools, driver, r, quick):
    cases = []
    for i in range(8 if quick else 24):
        es = gen.events(r, r.randint(2, 9), dup=r.choice([0.0, 0.3]), late=(i % 2 == 0))
        n_out = len({o for _, os_ in gen.file_norm(es) for o in os_})
        base = dict(gen.params(r), events=es, policy='dedup' if gen.has_dup(es) else 'error', stream='configs')
        if i % 2 == 1:
            # continuation: ndl.ndl rebuilds the list of outcome rows to train from the OLD outcomes (rows
            # of `weights`) plus the new ones of the file; 5..25 rows that the file never mentions, with
            # non-zero weights on the file's cues, must be trained (as absent outcomes) on every event
            base['stream'] = 'configs_continue'
        njs = [1, 2, 3, 7, 16, 64]
        pjs = list(range(1, n_out + 3))
        if i % 2 == 1:
            # between n_out + 5 and n_out + 25 rows: chunk sizes around the default 10 and up to more than all rows
            pjs = sorted({1, 2, 3, 10, 11, 26, n_out + 27})
        combos = [(nj, pj, m) for nj in njs for pj in pjs for m in ('ndl_threading', 'ndl_openmp')]
        for j, (nj, pj, m) in enumerate(r.sample(combos, min(len(combos), 10)) if quick else combos):
            if i % 2 == 1 and j % 5 == 0:
                base = dict(base, init_lw=_extra_rows(r, es))      # new initial weights every five configurations
            cases.append((dict(base, n_jobs=nj, per_job=pj, per_file=r.choice([2, 5, 10000000])), m,
                          r.choice(list(pools))))
    _run_cases(rep, pools, driver, cases)


def _extra_rows(r, es):
    """initial weights (LW form of learners.model_request) whose rows are 5..25 outcomes that do not occur in
    the events, sometimes also a few that do; columns: the cues of the events (shuffled), sometimes one more"""
    file_cues = sorted({c for cs, _ in es for c in cs})
    file_outs = sorted({o for _, os_ in gen.file_norm(es) for o in os_})
    outs = ['X%d' % k for k in range(r.randint(5, 25))] + r.sample(file_outs, r.randint(0, min(2, len(file_outs))))
    cues = r.sample(file_cues, len(file_cues)) + (['Q'] if r.random() < 0.3 else [])
    r.shuffle(outs)
    vals = ['%d/8' % r.choice([-8, -5, -3, -1, 1, 2, 3, 4, 6, 8]) if r.random() < 0.85 else '0/1'
            for _ in outs for _ in cues]
    return {'outcomes': outs, 'cues': cues, 'vals': vals, 'layout': r.choice(['c', 'c', 'f', 'transposed', 'slice'])}


def _shrink_init(pool, driver, case, m, budget=40):
    """drop rows, then columns, of the initial weights while implementation and model still disagree"""
    steps = 0
    cur = case
    for axis in ('outcomes', 'cues'):
        i = 0
        while i < len(cur['init_lw'][axis]) and steps < budget:
            lw = cur['init_lw']
            if len(lw[axis]) <= 1:
                break
            no, nc = len(lw['outcomes']), len(lw['cues'])
            keep = [(a, b) for a in range(no) for b in range(nc) if (a if axis == 'outcomes' else b) != i]
            lw2 = dict(lw, vals=[lw['vals'][a * nc + b] for a, b in keep], layout='c',
                       **{axis: lw[axis][:i] + lw[axis][i + 1:]})
            steps += 1
            c2 = dict(cur, init_lw=lw2)
            if L.evaluate(pool, driver, c2, m)[0] is not None:
                cur = c2
            else:
                i += 1
    return cur, steps


def _probe(rep, pools, driver, r, quick):
    cases = []
    ks = [1, 2, 3, 5, 10, 11, 64, 65, 200] if quick else list(range(1, 41)) + [63, 64, 65, 100, 127, 128, 129, 200]
    for k in ks:
        outs = ['o%d' % i for i in range(k)]
        es = [[['a'], outs]]
        for nj, pj in ([(1, 1), (3, k), (64, max(1, k - 1)), (7, k + 1), (16, 10)] if quick else
                       [(nj, pj) for nj in (1, 2, 5, 64) for pj in (1, 2, max(1, k - 1), k, k + 1, 10)]):
            for m in ('ndl_threading', 'ndl_openmp'):
                c = dict(alpha='1', beta1='1/2', beta2='1/4', **{'lambda': '1'}, events=es, policy='error',
                         n_jobs=nj, per_job=pj, per_file=10000000, stream='exactly_once_probe')
                cases.append((c, m, None))
    # several chunk files x many work items x many threads: OpenMP opens one parallel region per chunk
    # file, the threading workers walk the file list inside every work item.  Three identical events
    # with events_per_temporary_file=2 give two chunk files (2 + 1 events); every present row must have
    # been trained exactly three times (the value is taken from the Lean model, and must be one value)
    ks2 = [11, 20, 65] if quick else [11, 12, 20, 21, 33, 64, 65, 130]
    for k in ks2:
        outs = ['o%d' % i for i in range(k)]
        es = [[['a'], outs]] * 3
        for nj in (7, 16, 64):
            for pj in ((1, 3, 10) if quick else (1, 2, 3, 10, max(1, k - 1))):
                for m in ('ndl_threading', 'ndl_openmp'):
                    c = dict(alpha='1', beta1='1/2', beta2='1/4', **{'lambda': '1'}, events=[[list(cs), list(os_)] for cs, os_ in es],
                             policy='error', n_jobs=nj, per_job=pj, per_file=2, stream='exactly_once_probe_multi_file')
                    cases.append((c, m, None))
    _run_cases(rep, pools, driver, cases, probe=True)


def _run_cases(rep, pools, driver, cases, probe=False):
    by_pool = {}
    for i, (c, m, hs) in enumerate(cases):
        by_pool.setdefault(hs, []).append(i)
    impls = [None] * len(cases)
    for hs, idxs in by_pool.items():
        res = pools[hs].map([L.impl_task(cases[i][0], cases[i][1]) for i in idxs])
        for i, x in zip(idxs, res):
            impls[i] = x
    models = driver.ask([L.model_request(c, m) for c, m, _ in cases])
    shrunk = 0
    for (c, m, hs), impl, model in zip(cases, impls, models):
        rep.case(dict({'events': c['events'], 'cfg': [c['n_jobs'], c['per_job'], c['per_file'], m, hs]},
                      **({'init': c['init_lw']} if c.get('init_lw') is not None else {})),
                 nontrivial=True, stream=c['stream'])
        rep.count('method:' + m)
        rep.count('n_jobs:%d' % c['n_jobs'])
        rep.count('hashseed:%s' % hs)
        if c['stream'] == 'exactly_once_probe_multi_file':
            rep.count('probe_multi_file:k=%d' % len(c['events'][0][1]))
            rep.count('probe_multi_file:n_jobs=%d' % c['n_jobs'])
            rep.count('probe_multi_file:parts=%s' % (lambda p: '2-4' if p <= 4 else '5-10' if p <= 10 else '11-30' if p <= 30 else '31+')(
                -(-len(c['events'][0][1]) // c['per_job'])))
        if c.get('init_lw') is not None:
            extra = [o for o in c['init_lw']['outcomes'] if o not in {x for _, os_ in gen.file_norm(c['events']) for x in os_}]
            rep.count('continue_extra_rows:%s' % ('5-10' if len(extra) <= 10 else '11-18' if len(extra) <= 18 else '19-25'))
            rep.count('continue_layout:' + c['init_lw'].get('layout', 'c'))
            rep.count('continue_parts:%s' % (lambda p: '1' if p == 1 else '2-4' if p <= 4 else '5-10' if p <= 10 else '11+')(
                -(-len(model.get('outcomes', [])) // c['per_job'])))
            if 'err' not in model:
                # how many of the rows the file never mentions does the model move (they are trained as absent outcomes)
                lw = c['init_lw']
                init = {(o, cu): Fraction(lw['vals'][i * len(lw['cues']) + j]) for i, o in enumerate(lw['outcomes'])
                        for j, cu in enumerate(lw['cues'])}
                mc = L.model_cells(model)
                moved = {o for o in extra if any(mc.get((o, cu), Fraction(0)) != init[(o, cu)] for cu in lw['cues'])}
                rep.count('continue_extra_rows_moved_by_model', len(moved))
                rep.count('continue_extra_rows_total', len(extra))
        d = L.compare(impl, model)
        if d is None and probe and 'err' not in impl:
            vals = {k: v for k, v in gen.cells_dict(impl['cells']).items()}
            n_out = len(c['events'][0][1])
            if c['stream'] == 'exactly_once_probe_multi_file':
                mvals = sorted(set(L.model_cells(model).values()))
                want = mvals[0] if len(mvals) == 1 else None     # 7/8 by the model's arithmetic, never typed in here
                rep.count('probe_multi_file:model_value=%s' % want)
            else:
                want = Fraction(1, 2)
            bad = [k for k, v in vals.items() if v != want]
            if want is None:
                d = 'HARNESS: the Lean model does not give one value to all rows of the multi-file probe: %r' % mvals[:4]
            elif bad or len(vals) != n_out:
                d = 'exactly-once probe: %d of %d rows are %s; offending %r' % (
                    len(vals) - len(bad), n_out, float(want), [(k, float(vals[k])) for k in bad[:3]])
        if d is not None:
            steps = 0
            if not probe and shrunk < 3 and L.compare(impl, model) is not None and impl.get('err') != 'Timeout':
                # greedy shrink (events, tokens, configuration) in the pool of the same hash seed
                shrunk += 1
                small, steps = L.shrink(pools[hs], driver, c, m, budget=40)
                if small.get('init_lw') is not None:
                    small, steps2 = _shrink_init(pools[hs], driver, small, m)
                    steps += steps2
                d2, impl2, model2 = L.evaluate(pools[hs], driver, small, m)
                if d2 is not None:
                    c, d, impl, model = small, d2, impl2, model2
            rep.violation({'what': d, 'learner': m, 'input': c, 'hashseed': hs, 'shrink_steps': steps,
                           'observed': {k: impl.get(k) for k in ('err', 'msg')} if 'err' in impl else impl.get('cells', [])[:10],
                           'expected': model.get('err') or model.get('cells', [])[:10],
                           'python': L.python_snippet(c, m),
                           'theorem_or_stream': 'C02 schedule_independent: real %s vs Lean model under (n_jobs, chunk) = (%d, %d)'
                                                % (m, c['n_jobs'], c['per_job'])})
        elif len(c['events']) >= 2:
            rep.sample({'cfg': [c['n_jobs'], c['per_job'], c['per_file'], m, hs], 'events': c['events'][:3],
                        'cells': impl.get('cells', [])[:3]})


def _traces(rep, pool, driver, r, quick):
    tasks = []
    for i in range(12 if quick else 150):
        n_out = r.randint(1, 12)
        outs = ['o%d' % k for k in range(n_out)]
        es = [[r.sample(gen.CUES, r.randint(1, 3)), r.sample(outs, r.randint(1, n_out))] for _ in range(r.randint(1, 5))]
        es[0][1] = outs
        tasks.append(dict(gen.params(r), op='trace_threading', events=es, policy='error',
                          n_jobs=r.choice([1, 2, 3, 5, 8, 20]), per_job=r.randint(1, n_out + 1),
                          per_file=r.choice([2, 10000000]), jitter_seed=r.randint(0, 10 ** 6)))
    impls = pool.map(tasks)
    reqs = []
    for t, res in zip(tasks, impls):
        reqs.append({'op': 'queue_trace', 'parts': len(res.get('parts', [])), 'threads': t['n_jobs'],
                     'trace': [[a[0], a[1]] for a in res.get('trace', [])]})
    replies = driver.ask(reqs)
    validated = 0
    for t, res, rp in zip(tasks, impls, replies):
        rep.case({'trace': res.get('trace'), 'cfg': [t['n_jobs'], t['per_job']]}, nontrivial=len(res.get('trace', [])) > 3,
                 stream='queue_trace')
        problems = []
        if 'err' in res:
            problems.append('traced run raised/timed out: %s %s' % (res['err'], res.get('msg', '')))
        else:
            parts = res['parts']
            if not rp['accepted']:
                problems.append('work-queue history rejected by the Lean transition system at step %d: %r'
                                % (rp['first_rejected'], res['trace'][rp['first_rejected']]))
            elif not rp['final']:
                problems.append('history accepted but not final (a worker never left the loop)')
            elif rp['taken'] != list(range(len(parts))):
                problems.append('parts handed out %r, enqueued 0..%d' % (rp['taken'], len(parts) - 1))
            takes = [a for a in res['trace'] if a[0] == 'take']
            if [a[2] for a in takes] != rp.get('taken', [a[2] for a in takes]):
                problems.append('take order differs from FIFO order')
            if len(res['trace']) > 2 * len(parts) + t['n_jobs']:
                problems.append('history longer than the bound 2*parts+threads')
            rows = [x for c in res['calls'] for x in c['rows']]
            n_rows = len(res['outcomes'])
            if sorted(rows) != list(range(n_rows)):
                problems.append('kernel calls received rows %r: not a partition of 0..%d' % (sorted(rows), n_rows - 1))
            if len({c['n_files'] for c in res['calls']}) > 1:
                problems.append('kernel calls received different file lists')
            validated += 1
        rep.count('trace_len:%s' % ('<=5' if len(res.get('trace', [])) <= 5 else '6-20' if len(res.get('trace', [])) <= 20 else '>20'))
        if res.get('threads_seen', 0) > len(res.get('parts', [])):
            rep.count('traces_more_threads_than_parts')
        if problems:
            rep.violation({'what': problems[0], 'input': t, 'observed': {'trace': res.get('trace'), 'calls': res.get('calls')},
                           'expected': 'a run of the Lean work-queue transition system (PyndlModel/Queue.lean)',
                           'theorem_or_stream': 'C02 queue_exactly_once / ValidThreading hypotheses on the observed history'})
        else:
            rep.sample({'trace': res['trace'][:12], 'parts': res['parts'][:4], 'threads': t['n_jobs']})
    rep.extra['traces_validated_against_impl'] = validated


def _partitions(rep, pool, driver, quick):
    combos = [(n, c) for n in range(0, 14 if quick else 40) for c in range(1, 16 if quick else 45)]
    impls = pool.map([{'op': 'slice_list', 'n': n, 'chunk': c} for n, c in combos])
    models = driver.ask([{'op': 'partition', 'n': n, 'chunk': c} for n, c in combos])
    for (n, c), impl, model in zip(combos, impls, models):
        rep.case({'partition': [n, c]}, nontrivial=n > c, stream='partition')
        if impl.get('parts') != model['slice_list']:
            rep.violation({'what': 'slice_list(range(%d), %d) = %r, model %r' % (n, c, impl.get('parts', impl), model['slice_list']),
                           'input': {'n': n, 'chunk': c}, 'python': 'from pyndl.ndl import slice_list; print(slice_list(list(range(%d)), %d))' % (n, c),
                           'theorem_or_stream': 'C02 sliceList_partition'})
        # omp_parts: `ompParts32` (the 32-bit bounds the learner model `ndlCore` runs); omp_parts_unbounded: `ompParts`
        # (the subject of ompParts_partition; equal for n + chunk < 2^32: ompParts32_eq)
        if model['slice_list'] != model['omp_parts'] or model['omp_parts'] != model['omp_parts_unbounded']:
            rep.violation({'what': 'model partitioners disagree for (%d, %d): sliceList %r, ompParts32 %r, ompParts %r' % (
                               n, c, model['slice_list'], model['omp_parts'], model['omp_parts_unbounded']),
                           'input': {'n': n, 'chunk': c},
                           'theorem_or_stream': 'C02 ompParts_partition / ompParts32_eq'}, found_input=False)
    z = pool.map([{'op': 'slice_list', 'n': 5, 'chunk': 0}])[0]
    if z.get('err') != 'Raised:Value':
        rep.violation({'what': 'slice_list with len_sublists=0 should raise ValueError, got %r' % z,
                       'input': {'n': 5, 'chunk': 0}, 'theorem_or_stream': 'C02 guard len_sublists >= 1'})
