"""C08/C14/C03 implementation ops: pyndl.wh.wh (three vector flavours, openmp / numpy), dict_wh, chains"""
import os

import numpy as np
import xarray as xr

import impl
from impl import fl, POLICY, CallDir, write_event_file, da_to_result, dict_to_result, snapshot
from pyndl import wh


def _table(t, kind):
    if t is None:
        return None
    vals = np.ascontiguousarray(np.array([[fl(v) for v in row] for row in t['rows']], dtype=np.float64))
    if kind == 'cue':
        return xr.DataArray(vals, dims=('cues', 'cue_vector_dimensions'),
                            coords={'cues': t['names'], 'cue_vector_dimensions': t['dims']})
    return xr.DataArray(vals, dims=('outcomes', 'outcome_vector_dimensions'),
                        coords={'outcomes': t['names'], 'outcome_vector_dimensions': t['dims']})


def _init(t, flavour):
    if t is None:
        return None
    dims = {'r2r': ('outcome_vector_dimensions', 'cue_vector_dimensions'),
            'b2r': ('outcome_vector_dimensions', 'cues'),
            'r2b': ('outcomes', 'cue_vector_dimensions'),
            'b2b': ('outcomes', 'cues')}[flavour]
    vals = np.array([fl(v) for v in t['vals']], dtype=np.float64).reshape((len(t['rows']), len(t['cols'])))
    return xr.DataArray(vals, dims=dims, coords={dims[0]: t['rows'], dims[1]: t['cols']})


def op_wh(t):
    """one call, or a chain of calls (pieces), of wh.wh / dict_wh for one flavour"""
    cd = CallDir()
    try:
        flavour = t['flavour']
        ct = _table(t.get('cue_vectors'), 'cue')
        ot = _table(t.get('outcome_vectors'), 'out')
        tabs_before = [snapshot(x) for x in (ct, ot)]
        w = _init(t.get('init'), flavour)
        pieces = t.get('pieces') or [t['events']]
        flags = []
        method = t.get('method', 'openmp')
        for k, evs in enumerate(pieces):
            path = os.path.join(cd.inp, 'events_%d.tab.gz' % k)
            write_event_file(path, [(list(c), list(o)) for c, o in evs])
            snap = snapshot(w)
            kw = dict(n_jobs=int(t.get('n_jobs', 2)), n_outcomes_per_job=int(t.get('per_job', 10)),
                      remove_duplicates=POLICY[t['policy']],
                      events_per_temporary_file=int(t.get('per_file', 10000000)))
            try:
                if method == 'dict_wh':
                    # events_form: the path, or the events themselves as a list / a generator of (cues, outcomes);
                    # make_data_array applies to the LAST piece only (dict_wh cannot continue from a DataArray)
                    form = t.get('events_form', 'path')
                    arg = path
                    if form == 'list':
                        arg = [(list(c), list(o)) for c, o in evs]
                    elif form == 'generator':
                        arg = ((list(c), list(o)) for c, o in evs)
                    elif form != 'path':
                        raise RuntimeError('bad events_form')
                    w2 = wh.dict_wh(arg, fl(t['eta']), ct, ot, weights=w, remove_duplicates=POLICY[t['policy']],
                                    make_data_array=bool(t.get('make_data_array', False)) and k == len(pieces) - 1)
                elif flavour == 'r2b' and t.get('betas_direct'):
                    w2 = wh._wh_real_to_binary(path, (fl(t['beta1']), fl(t['beta2'])), fl(t['lambda']), ct,
                                               method=method, weights=w, **kw)
                else:
                    w2 = wh.wh(path, fl(t['eta']), cue_vectors=ct, outcome_vectors=ot, method=method, weights=w, **kw)
            except AssertionError as e:
                return {'err': 'Raised:Assertion', 'msg': str(e)[:100], 'failed_piece': k}
            except Exception as e:  # noqa
                r = impl.err(e)
                r['failed_piece'] = k
                return r
            flags.append(snapshot(w) == snap)
            w = w2
        res = da_to_result(w) if isinstance(w, xr.DataArray) else dict_to_result(w)
        res['rows'], res['cols'] = res.pop('outcomes'), res.pop('cues')
        res['attrs'] = {k: str(v) for k, v in w.attrs.items()}
        res['result_type'] = type(w).__name__
        res['inputs_unmodified'] = flags
        res['tables_unmodified'] = [snapshot(x) for x in (ct, ot)] == tabs_before
        res['leftovers'] = cd.leftovers()
        return res
    finally:
        cd.close()


OPS = {'wh': op_wh}
