"""
C10 — event filtering is an order-preserving per-event map independent of parallelism.
Correspondence: the real `pyndl.preprocess.filter_event_file` (constructor
`JobFilter`, per-line `job`, `Pool.imap` with every n_jobs in 1..8 and
chunksize in {1,2,7,100000}) is run on gzip event files written by the harness'
own writer; the output file is read back with gzip directly, split into lines
and compared IN ORDER and exactly with the Lean model `Filter.filterEventFile`
(proved in PyndlProps/C10.lean: imap_eq_map / chunk_independent, filter_order,
filter_sublist, drop_iff_no_cue, keep_eq_remove_compl, map_id_eq_keep,
keep_idem, remove_idem, the constructor's error table).  The four algebraic
laws are additionally run as implementation-vs-implementation pairs (keep S vs
remove complement, identity map vs keep, filter twice vs once), the same file
under all chunk sizes x several process counts, malformed lines (1 or 3 columns,
blank line) and chunksize 0 as exception classes, files without a final newline,
header-only and empty files.
"""
import json

from common import rng

ASSUMPTIONS = [
    'a line of the model is a line of the text-mode file object without its newline (universal-newline iteration of '
    'gzip text files is trusted); tokens containing U+000D are excluded (known finding F11 of C07)',
    'multiprocessing.Pool.imap yields results in submission order for every n_jobs (trusted; sampled for n_jobs 1..8)',
    'the malformed-line stream puts ONE malformed line into a file (0 hangs in 3000 such calls); files with MANY '
    'malformed lines make filter_event_file hang about once in 300 calls with n_jobs >= 2 (Pool.__exit__ -> terminate() '
    'kills a worker that holds the result queue lock while further exceptions are in flight) - reported to the lead, '
    'not part of this campaign',
    'keep_*/remove_* are given as list, tuple, set, frozenset or dict key view of str (documented: "sequence of str"), '
    '*_map as dict, OrderedDict or defaultdict with a default factory of its own (documented: "dict"; "removes all cues '
    'that do not have a key"); a one-shot iterator is not a sequence and not generated; a str given as keep_cues would be '
    'used with substring `in`; not part of the property',
]
TRUSTED = [
    'CPython multiprocessing.Pool (imap order, chunking by islice, ValueError for chunksize < 1), gzip, UTF-8 codec',
]

WORKERS = 8
TIMEOUT = 30          # a call takes < 1 s; a hang is the observation `Timeout`

CUES = ['a', 'b', 'c', 'd', 'ä', '雪']
OUTS = ['x', 'y', 'z', 'ö']
EXTRA = ['q', 'ab', 'X', 'é ', '']          # names that never / rarely occur, incl. the empty token
CHUNKS = [1, 2, 7, 100000]
HEADER = 'cues\toutcomes'
# the Python types the rule arguments are handed over as (impl_filter.container / mapping).  The
# constructor treats the four keep_/remove_ arguments differently (three are copied into a set, keep_cues
# is stored as given), so the type is drawn per argument.
CONTAINERS = ['list', 'tuple', 'set', 'frozenset', 'dict_keys']
CONTAINERS_OF = {'keep_cues': ['list', 'tuple', 'set', 'frozenset'], 'keep_outcomes': CONTAINERS,
                 'remove_cues': CONTAINERS, 'remove_outcomes': CONTAINERS}
MAPPINGS = ['dict', 'defaultdict', 'defaultdict_factory', 'ordereddict']


# --------------------------------------------------------------------------
# generators
# --------------------------------------------------------------------------

def gen_events(r, n, ca=CUES, oa=OUTS, empty_tok=0.0):
    es = []
    kc = r.choice([1, 2, 3, 5])
    for _ in range(n):
        cs = [r.choice(ca) for _ in range(r.randint(1, kc))]
        os_ = [r.choice(oa) for _ in range(r.randint(0, 3))]
        if empty_tok and r.random() < empty_tok:
            cs.insert(r.randint(0, len(cs)), '')
        if empty_tok and r.random() < empty_tok:
            os_.insert(r.randint(0, len(os_)), '')
        if empty_tok and r.random() < empty_tok / 2:
            cs = []
        es.append([cs, os_])
    return es


def gen_set(r, alphabet, extra=True):
    k = r.choice([0, 1, 1, 2, 2, 3, len(alphabet)])
    s = r.sample(alphabet, min(k, len(alphabet)))
    if extra and r.random() < 0.3:
        s.append(r.choice(EXTRA))
    if r.random() < 0.15 and s:
        s.append(r.choice(s))                # a repeated element
    r.shuffle(s)
    return s


def gen_map(r, alphabet):
    keys = r.sample(alphabet, r.randint(0, len(alphabet)))
    if r.random() < 0.2:
        keys.append(r.choice(EXTRA))
    keys = list(dict.fromkeys(keys))
    m = []
    for k in keys:
        p = r.random()
        if p < 0.4:
            v = k
        elif p < 0.65:
            v = r.choice(alphabet)           # several names onto one
        elif p < 0.8:
            v = r.choice(['N', 'ñ', 'long-name'])
        elif p < 0.95:
            v = ''                           # mapped to '' = dropped
        else:
            v = 'u_v'                        # a value that contains the token separator
        m.append([k, v])
    return m


def gen_side(r, alphabet, kind=None):
    kind = kind or r.choice(['all', 'keep', 'remove', 'map'])
    if kind == 'all':
        return {}
    if kind == 'keep':
        return {'keep': gen_set(r, alphabet)}
    if kind == 'remove':
        return {'remove': gen_set(r, alphabet)}
    return {'map': gen_map(r, alphabet)}


def gen_containers(r):
    c = {k: r.choice(v) for k, v in CONTAINERS_OF.items()}
    c['cue_map'] = r.choice(MAPPINGS)
    c['outcome_map'] = r.choice(MAPPINGS)
    return c


def used_containers(t):
    """[(argument name, type)] of the rule arguments a task really passes"""
    out = []
    cont = t.get('containers') or {}
    for sk in ('cues', 'outcomes'):
        side = t.get(sk) or {}
        for rk in ('keep', 'remove'):
            if side.get(rk) is not None:
                out.append(('%s_%s' % (rk, sk), cont.get('%s_%s' % (rk, sk), 'list')))
        if side.get('map') is not None:
            out.append((sk[:-1] + '_map', cont.get(sk[:-1] + '_map', 'dict')))
    return out


def side_kind(side):
    side = side or {}
    given = [k for k in ('keep', 'remove', 'map') if side.get(k) is not None]
    return '+'.join(given) if given else 'all'


def gen_n(r, tier, i):
    if i % 9 == 0:
        return r.randint(100, 300)
    if i % 9 == 1:
        return r.choice([0, 0, 1, 2])
    return r.randint(1, 40)


def to_lines(events):
    """what the harness' writer produces (cross-checked against the file read back)"""
    return [HEADER] + ['_'.join(c) + '\t' + '_'.join(o) for c, o in events]


def complement(s, universe):
    return [t for t in universe if t not in s]


def cases(tier):
    r = rng('C10')
    big = tier != 'quick'
    out = []
    # (1) model correspondence: all rule kinds on both sides
    kinds = ['all', 'keep', 'remove', 'map']
    grid = [(a, b) for a in kinds for b in kinds]
    n_main = 480 if not big else 4000
    for i in range(n_main):
        kc, ko = grid[i % 16]
        et = 0.15 if i % 5 == 0 else 0.0
        ca = CUES[:r.choice([2, 3, 6])]
        oa = OUTS[:r.choice([1, 2, 4])]
        es = gen_events(r, gen_n(r, tier, i), ca, oa, empty_tok=et)
        out.append({'kind': 'model', 'stream': 'rules', 'events': es,
                    'cues': gen_side(r, ca + ([''] if et else []), kc),
                    'outcomes': gen_side(r, oa + ([''] if et else []), ko),
                    'n_jobs': r.randint(1, 8), 'chunksize': r.choice(CHUNKS),
                    'passes': 2 if i % 4 == 0 else 1})
    # (2) the constructor's error table: all 8 x 8 given/not-given combinations
    for mask in range(64):
        def side(bits, alphabet):
            s = {}
            if bits & 1:
                s['keep'] = gen_set(r, alphabet)
            if bits & 2:
                s['remove'] = gen_set(r, alphabet)
            if bits & 4:
                s['map'] = gen_map(r, alphabet)
            return s
        if tier == 'quick' and mask % 2 and r.random() < 0.3:
            continue
        out.append({'kind': 'model', 'stream': 'constructor', 'events': gen_events(r, r.randint(0, 6)),
                    'cues': side(mask & 7, CUES), 'outcomes': side(mask >> 3, OUTS),
                    'n_jobs': r.randint(1, 3), 'chunksize': r.choice(CHUNKS), 'passes': 1})
    # (3) malformed lines, chunksize 0, raw files
    for i in range(40 if not big else 300):
        es = gen_events(r, r.randint(0, 30))
        lines = to_lines(es)
        bad = r.choice(['a_b', 'a\tx\t1', '', 'a\tx\t', '\ta\tx', 'no-tab-at-all', 'ä\t雪\tö'])
        pos = r.randint(1, len(lines))
        lines.insert(pos, bad)
        out.append({'kind': 'model', 'stream': 'malformed', 'lines': lines,
                    'cues': gen_side(r, CUES), 'outcomes': gen_side(r, OUTS),
                    'n_jobs': r.randint(1, 8), 'chunksize': r.choice(CHUNKS), 'passes': 1})
    for i in range(6 if not big else 30):
        out.append({'kind': 'model', 'stream': 'chunksize0', 'events': gen_events(r, r.randint(0, 5)),
                    'cues': gen_side(r, CUES), 'outcomes': gen_side(r, OUTS),
                    'n_jobs': r.randint(1, 4), 'chunksize': 0, 'passes': 1})
    for i in range(16 if not big else 80):
        es = gen_events(r, r.choice([0, 0, 1, 3, 12]))
        lines = to_lines(es)
        shape = i % 4
        if shape == 0:
            lines = []                                   # empty file: no header at all
        elif shape == 1:
            lines = [r.choice([HEADER, 'anything', 'a\tb\tc', ''])] + lines[1:]   # header is copied, never parsed
        c = {'kind': 'model', 'stream': 'raw', 'lines': lines, 'final_newline': shape != 2 or not lines,
             'cues': gen_side(r, CUES), 'outcomes': gen_side(r, OUTS),
             'n_jobs': r.randint(1, 8), 'chunksize': r.choice(CHUNKS), 'passes': 1}
        if lines == ['']:
            c['final_newline'] = True
        out.append(c)
    # (4) the algebraic laws, implementation vs implementation
    laws = ['keep_vs_remove', 'map_id_vs_keep', 'keep_twice', 'remove_twice']
    for i in range(160 if not big else 1600):
        law = laws[i % 4]
        et = 0.15 if i % 3 == 0 and law != 'map_id_vs_keep' else 0.0
        es = gen_events(r, gen_n(r, tier, i + 2), empty_tok=et)
        # the universe the complement is taken in contains every token that can occur, always incl. ''
        # (an empty field splits to [''])
        uc = CUES + EXTRA[:3] + ['']
        uo = OUTS + EXTRA[:3] + ['']
        where = r.choice(['cues', 'outcomes', 'both'])
        sc = [t for t in gen_set(r, uc, extra=False) if law != 'map_id_vs_keep' or t != '']
        so = [t for t in gen_set(r, uo, extra=False) if law != 'map_id_vs_keep' or t != '']
        out.append({'kind': 'law', 'stream': 'law:' + law, 'law': law, 'events': es, 'where': where,
                    'S_cues': sc, 'S_outcomes': so, 'U_cues': uc, 'U_outcomes': uo,
                    # twice-laws: the other side must be idempotent as well (no map)
                    'other': gen_side(r, OUTS if where == 'cues' else CUES,
                                      r.choice(['all', 'keep', 'remove']) if law.endswith('twice') else None)
                    if where != 'both' else {},
                    'par': [[r.randint(1, 8), r.choice(CHUNKS)], [r.randint(1, 8), r.choice(CHUNKS)]]})
    # (5) one file under every chunk size and several process counts
    for i in range(6 if not big else 40):
        es = gen_events(r, r.choice([5, 17, 60, 300]))
        out.append({'kind': 'sweep', 'stream': 'sweep', 'events': es,
                    'cues': gen_side(r, CUES, r.choice(['keep', 'remove', 'map'])), 'outcomes': gen_side(r, OUTS),
                    'par': [[nj, ch] for ch in CHUNKS for nj in ([1, 3, 8] if not big else [1, 2, 3, 5, 8])]})
    # argument types and verbose=True (X1, a quarter of the cases): drawn from a stream of their own, so
    # the cases above are what they were; the model knows neither, the result must not depend on them
    rc = rng('C10/containers')
    for c in out:
        c['containers'] = gen_containers(rc)
        if rc.random() < 0.25:
            c['verbose'] = True
    return out


# --------------------------------------------------------------------------
# evaluation
# --------------------------------------------------------------------------

def law_runs(c):
    """the implementation runs a law case consists of: [(cues, outcomes, passes)], twice?"""
    law, where = c['law'], c['where']

    def sides(rule_of):
        cu = rule_of(c['S_cues'], c['U_cues']) if where in ('cues', 'both') else None
        ou = rule_of(c['S_outcomes'], c['U_outcomes']) if where in ('outcomes', 'both') else None
        if cu is None:
            cu = c['other']
        if ou is None:
            ou = c['other']
        return cu, ou
    if law == 'keep_vs_remove':
        return [sides(lambda s, u: {'keep': s}) + (1,), sides(lambda s, u: {'remove': complement(s, u)}) + (1,)]
    if law == 'map_id_vs_keep':
        return [sides(lambda s, u: {'map': [[t, t] for t in s]}) + (1,), sides(lambda s, u: {'keep': s}) + (1,)]
    if law == 'keep_twice':
        # the other side must be idempotent too: keep / remove / all only
        return [sides(lambda s, u: {'keep': s}) + (2,)]
    if law == 'remove_twice':
        return [sides(lambda s, u: {'remove': s}) + (2,)]
    raise RuntimeError(law)


def impl_tasks(c):
    base = {'op': 'filter_file'}
    if c.get('containers'):
        base['containers'] = c['containers']
    if c.get('verbose'):
        base['verbose'] = True
    if c.get('events') is not None:
        base['events'] = c['events']
    else:
        base['lines'] = c['lines']
        base['final_newline'] = c.get('final_newline', True)
    if c['kind'] == 'model':
        return [dict(base, cues=c['cues'], outcomes=c['outcomes'], n_jobs=c['n_jobs'],
                     chunksize=c['chunksize'], passes=c.get('passes', 1))]
    if c['kind'] == 'sweep':
        return [dict(base, cues=c['cues'], outcomes=c['outcomes'], n_jobs=nj, chunksize=ch, passes=1)
                for nj, ch in c['par']]
    runs = law_runs(c)
    return [dict(base, cues=cu, outcomes=ou, n_jobs=c['par'][k % 2][0], chunksize=c['par'][k % 2][1], passes=p)
            for k, (cu, ou, p) in enumerate(runs)]


def input_lines(c):
    return to_lines(c['events']) if c.get('events') is not None else list(c['lines'])


def model_passes(driver, reqs):
    """reqs: [(lines, cues, outcomes, chunksize, passes)] -> [{'passes': [...]} | {'err', 'passes_done'}]"""
    state = [{'passes': [], 'cur': list(l)} for l, _, _, _, _ in reqs]
    for k in range(max([p for *_, p in reqs] + [0])):
        idx = [i for i, q in enumerate(reqs) if q[4] > k and 'err' not in state[i]]
        rs = driver.ask([{'op': 'filter', 'lines': state[i]['cur'], 'cues': reqs[i][1] or {},
                          'outcomes': reqs[i][2] or {}, 'chunksize': reqs[i][3]} for i in idx])
        for i, m in zip(idx, rs):
            if 'err' in m:
                state[i] = {'err': m['err'], 'passes_done': k}
            else:
                state[i]['passes'].append(m['lines'])
                state[i]['cur'] = m['lines']
    for s in state:
        s.pop('cur', None)
    return state


def diff_lines(a, b):
    if a == b:
        return None
    for i, (x, y) in enumerate(zip(a, b)):
        if x != y:
            return 'line %d: %r vs %r' % (i, x, y)
    return 'length %d vs %d (first extra line %r)' % (len(a), len(b), (a + b)[min(len(a), len(b))])


def compare_model(t, impl, model, lines):
    """impl result of one task against the model's prediction; None = agree"""
    if impl.get('err') in ('Timeout', 'WorkerDied', 'HarnessError'):
        return 'implementation: %s %s' % (impl['err'], impl.get('msg', ''))
    if impl.get('input_lines') != lines:
        return 'harness: the input file read back with gzip is not what was meant to be written'
    if not impl.get('file_unchanged', True):
        return 'the input file was modified'
    if 'err' in model:
        if impl.get('err') != model['err']:
            return 'model predicts %s, implementation %s' % (model['err'], impl.get('err', 'returned'))
        if impl.get('passes_done') != model['passes_done']:
            return 'model raises in pass %d, implementation in pass %s' % (model['passes_done'], impl.get('passes_done'))
        return None
    if 'err' in impl:
        return 'model predicts a file, implementation %s (%s)' % (impl['err'], impl.get('msg', '')[:100])
    for k, (a, b) in enumerate(zip(impl['passes'], model['passes'])):
        d = diff_lines(a, b)
        if d:
            return 'pass %d, implementation vs model: %s' % (k + 1, d)
    exp_term = not (len(lines) == 1 and not t.get('final_newline', True))
    if impl.get('terminated') != exp_term:
        return 'an output line is not terminated by a newline'
    return None


def evaluate(pool, driver, cs):
    """-> per case (description of the disagreement | None, impl results, model results)"""
    tasks, owner = [], []
    for ci, c in enumerate(cs):
        for t in impl_tasks(c):
            tasks.append(t)
            owner.append(ci)
    impls = pool.map(tasks)
    reqs = []
    for t, ci in zip(tasks, owner):
        reqs.append((input_lines(cs[ci]), t['cues'], t['outcomes'], t['chunksize'], t['passes']))
    models = model_passes(driver, reqs)
    per = [[] for _ in cs]
    for t, ci, im, mo in zip(tasks, owner, impls, models):
        per[ci].append((t, im, mo))
    out = []
    for c, runs in zip(cs, per):
        lines = input_lines(c)
        d = None
        for t, im, mo in runs:
            d = compare_model(t, im, mo, lines)
            if d:
                d = '[n_jobs=%s chunksize=%s cues=%s outcomes=%s] %s' % (
                    t['n_jobs'], t['chunksize'], side_kind(t['cues']), side_kind(t['outcomes']), d)
                break
        if d is None and c['kind'] in ('law', 'sweep'):
            d = law_diff(c, [im for _, im, _ in runs])
        out.append((d, [im for _, im, _ in runs], [mo for _, _, mo in runs]))
    return out


def law_diff(c, ims):
    """the implementation-vs-implementation comparison of a law / sweep case"""
    if any('err' in im for im in ims):
        return None            # the error behaviour was compared with the model already
    if c['kind'] == 'sweep':
        for (nj, ch), im in zip(c['par'], ims):
            d = diff_lines(ims[0]['passes'][0], im['passes'][0])
            if d:
                return 'n_jobs=%d chunksize=%d differs from n_jobs=%d chunksize=%d: %s' % (
                    nj, ch, c['par'][0][0], c['par'][0][1], d)
        return None
    if c['law'] in ('keep_vs_remove', 'map_id_vs_keep'):
        d = diff_lines(ims[0]['passes'][0], ims[1]['passes'][0])
        return d and 'law %s (implementation vs implementation): %s' % (c['law'], d)
    d = diff_lines(ims[0]['passes'][0], ims[0]['passes'][1])
    return d and 'law %s (once vs twice, implementation): %s' % (c['law'], d)


# --------------------------------------------------------------------------
# shrinking
# --------------------------------------------------------------------------

def _without(xs, i, k):
    return xs[:i] + xs[i + k:]


def candidates(c):
    """smaller variants of a case, most aggressive first"""
    out = []
    key = 'events' if c.get('events') is not None else 'lines'
    xs = c[key]
    lo = 0 if key == 'events' else 1          # keep the header of a raw file
    n = len(xs) - lo
    k = n
    while k >= 1:
        for i in range(lo, len(xs), k):
            if k < n or n == 1:
                out.append(dict(c, **{key: _without(xs, i, k)}))
        k //= 2
    if key == 'events':
        for i, (cu, ou) in enumerate(xs):
            for j in range(len(cu)):
                if len(cu) > 1:
                    out.append(dict(c, events=xs[:i] + [[_without(cu, j, 1), ou]] + xs[i + 1:]))
            for j in range(len(ou)):
                out.append(dict(c, events=xs[:i] + [[cu, _without(ou, j, 1)]] + xs[i + 1:]))
    if c['kind'] in ('model', 'sweep'):
        for sk in ('cues', 'outcomes'):
            side = c.get(sk) or {}
            for rk in ('keep', 'remove', 'map'):
                v = side.get(rk)
                if v:
                    for j in range(len(v)):
                        out.append(dict(c, **{sk: dict(side, **{rk: _without(v, j, 1)})}))
            if len([k for k in side if side[k] is not None]) == 1 and c.get('stream') != 'constructor':
                out.append(dict(c, **{sk: {}}))
    if c.get('containers'):
        out.append(dict(c, containers={}))
        for k in sorted(c['containers']):
            if c['containers'][k] not in ('list', 'dict'):
                out.append(dict(c, containers={kk: v for kk, v in c['containers'].items() if kk != k}))
    if c.get('verbose'):
        out.append({k: v for k, v in c.items() if k != 'verbose'})
    if c['kind'] == 'model':
        if c['n_jobs'] != 1:
            out.append(dict(c, n_jobs=1))
        if c['chunksize'] not in (100000, 0):
            out.append(dict(c, chunksize=100000))
        if c.get('passes', 1) > 1:
            out.append(dict(c, passes=1))
    if c['kind'] == 'sweep' and len(c['par']) > 2:
        for j in range(1, len(c['par'])):
            out.append(dict(c, par=[c['par'][0], c['par'][j]]))
    if c['kind'] == 'law':
        for sk in ('S_cues', 'S_outcomes'):
            for j in range(len(c[sk])):
                out.append(dict(c, **{sk: _without(c[sk], j, 1)}))
        if c['other']:
            out.append(dict(c, other={}))
        if c['par'] != [[1, 100000], [1, 100000]]:
            out.append(dict(c, par=[[1, 100000], [1, 100000]]))
    return out


def shrink(pool, driver, c, budget=40, timeout_ok=False):
    """greedy: first failing candidate of each round; a candidate that merely timed out is not
    accepted unless the original failure was a timeout (hangs are rare and not reproducible)"""
    steps = 0
    while budget > 0:
        cands = candidates(c)[:48]
        if not cands:
            break
        res = evaluate(pool, driver, cands)
        budget -= 1
        for cand, (d, _, _) in zip(cands, res):
            if d and not d.startswith('harness:') and (timeout_ok or 'implementation: Timeout' not in d):
                c = cand
                steps += 1
                break
        else:
            break
    return c, steps


def python_snippet(c):
    ts = impl_tasks(c)
    lines = input_lines(c)
    text = '\n'.join(lines) + ('\n' if lines and c.get('final_newline', True) else '')
    src = ['import gzip', 'from pyndl.preprocess import filter_event_file',
           "with gzip.open('in.tab.gz', 'wt', encoding='utf-8', newline='\\n') as f:",
           '    f.write(%r)' % text]
    cont = c.get('containers') or {}
    wrap = {'list': '%s', 'tuple': 'tuple(%s)', 'set': 'set(%s)', 'frozenset': 'frozenset(%s)',
            'dict_keys': 'dict.fromkeys(%s).keys()', 'dict': '%s', 'defaultdict': 'collections.defaultdict(str, %s)',
            'defaultdict_factory': "collections.defaultdict(lambda: 'DEFAULT-FACTORY-VALUE', %s)",
            'ordereddict': 'collections.OrderedDict(%s)'}
    if any(v.startswith(('defaultdict', 'ordered')) for v in cont.values()):
        src.insert(0, 'import collections')
    for k, t in enumerate(ts):
        kw = []
        for sk in ('cues', 'outcomes'):
            side = t.get(sk) or {}
            for rk in ('keep', 'remove'):
                if side.get(rk) is not None:
                    kw.append('%s_%s=%s' % (rk, sk, wrap[cont.get('%s_%s' % (rk, sk), 'list')] % repr(side[rk])))
            if side.get('map') is not None:
                kw.append('%s_map=%s' % (sk[:-1], wrap[cont.get(sk[:-1] + '_map', 'dict')] % repr({a: b for a, b in side['map']})))
        if t.get('verbose'):
            kw.append('verbose=True')
        cur = 'in.tab.gz'
        for p in range(t['passes']):
            dst = 'out%d_%d.tab.gz' % (k, p)
            src.append('filter_event_file(%r, %r, n_jobs=%d, chunksize=%d%s)' % (
                cur, dst, t['n_jobs'], t['chunksize'], ''.join(', ' + x for x in kw)))
            src.append("print(gzip.open(%r, 'rt', encoding='utf-8', newline='').read().split('\\n'))" % dst)
            cur = dst
    return '\n'.join(src)


def public(c):
    return {k: v for k, v in c.items() if not k.startswith('_')}


def report_failure(rep, pool, driver, c, d):
    small, steps = shrink(pool, driver, c, timeout_ok='implementation: Timeout' in d)
    d2, ims, mos = evaluate(pool, driver, [small])[0]
    theorem = {'model': 'correspondence filter_event_file vs Lean Filter.filterEventFile (C10.filter_order, drop_iff_no_cue, '
                        'chunk_independent, constructor_table)',
               'sweep': 'C10.chunk_independent / imap_eq_map (same file, different n_jobs / chunksize)',
               'law': 'C10.%s' % {'keep_vs_remove': 'keep_eq_remove_compl', 'map_id_vs_keep': 'map_id_eq_keep',
                                   'keep_twice': 'keep_idem', 'remove_twice': 'remove_idem'}.get(small.get('law'), '')}
    rep.violation({'what': d2 or d, 'input': public(small),
                   'observed': [{k: im.get(k) for k in ('err', 'cls', 'msg', 'passes', 'passes_done', 'terminated')
                                 if k in im} for im in ims],
                   'expected': mos,
                   'python': python_snippet(small),
                   'theorem_or_stream': theorem[small['kind']] + ' / stream ' + small.get('stream', ''),
                   'shrunk_from_events': len(c.get('events') if c.get('events') is not None else c['lines']),
                   'shrink_steps': steps})


def bucket(n):
    return '0' if n == 0 else '1-5' if n <= 5 else '6-40' if n <= 40 else '41-99' if n < 100 else '100-300'


def run(rep, pool, driver, tier):
    cs = cases(tier)
    res = evaluate(pool, driver, cs)
    failures = []
    secs = sorted((im.get('_seconds', 0), c['stream'], im.get('err', 'Returned'))
                  for c, (_, ims, _) in zip(cs, res) for im in ims)
    rep.extra['slowest_impl_calls'] = secs[-3:]
    rep.extra['impl_timeouts'] = sum(1 for s in secs if s[2] == 'Timeout')
    for c, (d, ims, mos) in zip(cs, res):
        lines = input_lines(c)
        n_ev = max(0, len(lines) - 1)
        m0 = mos[0]
        changed = 'err' in m0 or m0['passes'][0] != lines
        rep.case(public(c), nontrivial=changed and n_ev >= 1, stream=c['stream'])
        rep.count('events:' + bucket(n_ev))
        for t, mo in zip(impl_tasks(c), mos):
            rep.count('rule_cues:' + side_kind(t['cues']))
            rep.count('rule_outcomes:' + side_kind(t['outcomes']))
            rep.count('n_jobs:%d' % t['n_jobs'])
            rep.count('chunksize:%d' % t['chunksize'])
            rep.count('verbose:%s' % bool(t.get('verbose')))
            for arg, typ in used_containers(t):
                rep.count('container:%s:%s' % (arg, typ))
            rep.count('impl_calls', t['passes'])
            if 0 < t['chunksize'] < n_ev:
                rep.count('more_than_one_chunk')
            rep.count('outcome:' + (mo.get('err') or 'Returned'))
            if 'err' not in mo:
                out = mo['passes'][0]
                if len(out) < len(lines):
                    rep.count('runs_with_dropped_events')
                if any(l.endswith('\t') for l in out[1:]):
                    rep.count('runs_with_kept_outcomeless_events')
                if any(ord(ch) > 127 for l in out[1:] for ch in l):
                    rep.count('runs_with_non_ascii_output')
        if d:
            failures.append((c, d))
        elif n_ev >= 3 and 'err' not in m0 and changed:
            t = impl_tasks(c)[0]
            rep.sample({'stream': c['stream'], 'cues': t['cues'], 'outcomes': t['outcomes'],
                        'n_jobs': t['n_jobs'], 'chunksize': t['chunksize'],
                        'input_lines': lines[:6], 'impl_output': ims[0]['passes'][0][:6],
                        'model_output': m0['passes'][0][:6], 'n_events': n_ev})
    for c, d in failures[:4]:
        report_failure(rep, pool, driver, c, d)
    rep.extra['failures_total'] = len(failures)


def replay(rep, pool, driver, rp):
    c = rp['input']
    d, ims, mos = evaluate(pool, driver, [c])[0]
    rep.case(public(c), stream='replay')
    if d:
        rep.violation({'what': d, 'input': public(c), 'observed': [im.get('passes', im.get('err')) for im in ims],
                       'expected': mos, 'python': python_snippet(c),
                       'theorem_or_stream': rp.get('theorem_or_stream', 'replay')})


if __name__ == '__main__':
    print(json.dumps(cases('quick')[:3], ensure_ascii=False, indent=1))
