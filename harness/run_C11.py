"""
C11 — counting is exact and independent of the number of processes.
Correspondence: the real count.cues_outcomes (event files, with and without a frequency
column, 0-200 lines) and count.words_symbols (corpus files incl. empty ones) for
n_jobs in 1..32 and lower_case in {False, True} against the Lean model Pyndl.Text
(cuesOutcomes / wordsSymbols: strided jobs `islice(start=k, step=n_jobs)` merged with
Counter addition, incl. the nn = -1 empty-slice case) AND against the model's direct
one-pass count; Counters are compared as sorted item lists. Theorems: PyndlProps/C11.lean
(stride_perm, strided_sum, n_events_exact, cue/outcome/word_counts_exact).
"""
import textgen as T
from common import rng

TRUSTED = [
    "str.split(), str.strip() and str.lower() are Python-supplied: the implementation op returns, per line, "
    "[w.strip() for w in line.split()] and a table x -> x.lower(); the model strips the punctuation set itself, "
    "counts and strides",
    'multiprocessing.Pool.starmap returns every job result, in order',
    'gzip and the UTF-8 codec are identity; universal-newline line iteration is modelled and sampled',
    'the harness own writer of event and corpus files (textgen.build_content, impl_text._write_raw)',
]
ASSUMPTIONS = [
    'a frequency column holds a canonical non-negative decimal',
    'n_jobs in 1..32',
]
WORKERS = 8
TIMEOUT = 120

NAMES = ['a', 'b', 'c', 'd', 'e', 'f', 'g', 'h', '\xe4', 'e\u0301', '\U0001f600', 'x y', '#', '1', '\u2028k', 'B', 'b ']
WORDS = ['Hello', 'hello', 'HELLO', 'world', 'World!', '"quoted"', '(paren)', 'a.b', '...', '!?', 'x', '\u0130stanbul', 'STRASSE', 'Stra\xdfe', '\u03a3\u039f\u03a6\u039f\u03a3', 'e\u0301t\xe9', '\U00010400\U00010428', 'na\xefve', '*star*', '~tilde^', 'end.', ',comma', 'semi;', 'co:lon', '/slash/', '@at', "it's", '\u96ea', '-dash-', '#tag', '1,000', '']
SEPS = [' ', ' ', ' ', '  ', '\t', ' \t ', '\xa0', '\u2028', '\u3000', '\x0b', '\x1c', '\u2009', '\x85']


def ev_task(c):
    return {'op': 'text_file', 'content': ev_content(c), 'compression': 'gzip', 'read': False,
            'count_jobs': c['n_jobs'], '_timeout': 120}


def ev_request(c):
    return {'op': 'text_parse', 'content': T.cps(ev_content(c)), 'count_jobs': c['n_jobs']}


def ev_content(c):
    return T.build_content(c['rows'], header=c.get('header', 'cues\toutcomes'), eol='\n', final_eol=c.get('final_eol', True))


def co_model(m):
    if 'err' in m:
        return {'err': m['err']}
    return {'n_events': m['n_events'], 'cues': T.counter_uncps(m['cues']), 'outcomes': T.counter_uncps(m['outcomes'])}


def diff_co(impl, model, who):
    if 'err' in model:
        if impl.get('err') == model['err']:
            return None
        return '%s predicts %s, cues_outcomes %s' % (who, model['err'], impl.get('err', 'returned'))
    if 'err' in impl:
        return '%s predicts a result, cues_outcomes %s (%s)' % (who, impl['err'], impl.get('msg', '')[:100])
    for k in ('n_events', 'cues', 'outcomes'):
        if impl[k] != model[k]:
            if k == 'n_events':
                return 'n_events: cues_outcomes %r, %s %r' % (impl[k], who, model[k])
            a, b = dict(map(tuple, impl[k])), dict(map(tuple, model[k]))
            key = sorted(x for x in set(a) | set(b) if a.get(x) != b.get(x))[0]
            return '%s[%r]: cues_outcomes %r, %s %r' % (k, key, a.get(key, 0), who, b.get(key, 0))
    return None


def judge_ev(c, impl, model):
    probs = []
    ic = impl.get('count', {'err': 'missing'})
    if c['n_jobs'] == 0:
        # outside "n_jobs >= 1": the direct count is not what the call computes; the strided model (and the
        # code) must raise ValueError (C11.zero_jobs_raises)
        d = diff_co(ic, co_model(model['count']), 'strided model')
        return [d] if d else []
    for who, key in (('direct count (model)', 'direct'), ('strided model', 'count')):
        d = diff_co(ic, co_model(model[key]), who)
        if d:
            probs.append(d)
    if model['count'] != model['direct'] and sorted_co(model['count']) != sorted_co(model['direct']):
        probs.append('MODEL contradicts theorem strided_sum: strided and direct model counts differ')
    return probs


def sorted_co(m):
    return co_model(m)


def ws_task(c):
    return {'op': 'text_words', 'content': ws_content(c), 'n_jobs': c['n_jobs'], 'lower_case': c['lower_case'],
            '_timeout': 120}


def ws_content(c):
    s = c['eol'].join(c['lines'])
    if c['lines'] and c['final_eol']:
        s += c['eol']
    return s


def ws_request(c, impl):
    return {'op': 'text_words', 'lines': [[T.cps(w) for w in l] for l in impl['lines']],
            'lower': None if impl.get('lower') is None else [[T.cps(a), T.cps(b)] for a, b in impl['lower']],
            'n_jobs': c['n_jobs'], 'content': T.cps(ws_content(c))}


def ws_model(m):
    if 'err' in m:
        return {'err': m['err']}
    return {'words': T.counter_uncps(m['words']), 'symbols': T.counter_uncps(m['symbols'])}


def judge_ws(c, impl, model):
    probs = []
    if model.get('n_lines') != impl.get('n_lines'):
        probs.append('line iteration: Python yields %r lines, model %r' % (impl.get('n_lines'), model.get('n_lines')))
    if c['n_jobs'] == 0:
        m = ws_model(model['strided'])
        if m.get('err') != impl.get('err'):
            probs.append('n_jobs=0: strided model %s, words_symbols %s' % (m.get('err', 'returns'), impl.get('err', 'returns')))
        return probs
    for who, key in (('direct count (model)', 'direct'), ('strided model', 'strided')):
        m = ws_model(model[key])
        if 'err' in m:
            probs.append('%s: %s (the model strip of the punctuation set disagrees with the supplied table)' % (who, m['err']))
            continue
        if 'err' in impl:
            probs.append('%s predicts a result, words_symbols %s (%s)' % (who, impl['err'], impl.get('msg', '')[:100]))
            continue
        for k in ('words', 'symbols'):
            if impl[k] != m[k]:
                a, b = dict(map(tuple, impl[k])), dict(map(tuple, m[k]))
                key2 = sorted(x for x in set(a) | set(b) if a.get(x) != b.get(x))[0]
                probs.append('%s[%r]: words_symbols %r, %s %r' % (k, key2, a.get(key2, 0), who, b.get(key2, 0)))
                break
    if ws_model(model['strided']) != ws_model(model['direct']):
        probs.append('MODEL contradicts theorem word_counts_exact: strided and direct model counts differ')
    return probs


def evaluate(pool, driver, c):
    if c['kind'] == 'ev':
        impl = pool.map([ev_task(c)])[0]
        model = driver.ask([ev_request(c)])[0]
        return judge_ev(c, impl, model), impl, model
    impl = pool.map([ws_task(c)])[0]
    if 'lines' not in impl:
        return ['implementation op failed: %r' % impl], impl, {}
    model = driver.ask([ws_request(c, impl)])[0]
    return judge_ws(c, impl, model), impl, model


def gen_ev(r, n_cases):
    out = []
    sizes = [0, 0, 1, 2, 3, 4, 5, 7, 10, 17, 33, 64, 100, 150, 200]
    for i in range(n_cases):
        n = r.choice(sizes)
        names = r.sample(NAMES, r.randint(2, len(NAMES)))
        mode = r.choice(['none', 'freq', 'freq', 'mixed'])
        rows = []
        for _ in range(n):
            cs = [r.choice(names) for _ in range(r.randint(1, 4))]
            os_ = [r.choice(names) for _ in range(r.randint(0, 3))]
            f = None if mode == 'none' or (mode == 'mixed' and r.random() < 0.5) else r.choice([0, 0, 1, 1, 2, 3, 4, 5])
            rows.append([cs, os_, f])
        if r.random() < 0.04 and rows:
            rows[r.randrange(len(rows))][2] = r.choice(['x', '', T.ONECOL])
        if r.random() < 0.06 and rows:
            # a frequency cell in another spelling int() accepts / rejects (ASCII only here; model Text.pyInt)
            rows[r.randrange(len(rows))][2] = r.choice(['-1', '+2', ' 1 ', '1_0', '007', '\t3', '1__0', '_1', '1 0', '-0'])
        out.append({'kind': 'ev', 'stream': 'event_file', 'rows': rows, 'n_jobs': (i % 33),   # 0 (ValueError) .. 32
                    'final_eol': r.random() < 0.85, 'mode': mode})
    return out


def gen_ws(r, n_cases):
    out = []
    sizes = [0, 0, 1, 1, 2, 3, 5, 8, 20, 50, 120, 200]
    for i in range(n_cases):
        n = r.choice(sizes)
        vocab = r.sample(WORDS, r.randint(3, 14))
        lines = []
        for _ in range(n):
            k = r.choice([0, 1, 2, 3, 5, 9])
            s = r.choice(['', '', ' ', '\t'])
            for _ in range(k):
                s += r.choice(vocab) + r.choice(SEPS)
            lines.append(s)
        # n_jobs and lower_case are drawn independently (a parity-coupled schedule once hid the
        # n_jobs=1 x lower_case=True corner: seeded change C11_a)
        out.append({'kind': 'ws', 'stream': 'corpus_file', 'lines': lines,
                    'n_jobs': ((i * 7) % 33) if i % 3 else r.choice([1, 1, 2, 3]),     # 0 (ValueError) .. 32
                    'lower_case': r.random() < 0.5, 'eol': '\n' if r.random() < 0.9 else r.choice(['\r\n', '\r']),
                    'final_eol': r.random() < 0.8})
    return out


def snippet(c):
    if c['kind'] == 'ev':
        return '\n'.join(["import os, tempfile, gzip", "from pyndl import count, io",
                          "content = %r" % ev_content(c),
                          "p = os.path.join(tempfile.mkdtemp(), 'events.tab.gz')",
                          "with gzip.open(p, 'wb') as f: f.write(content.encode('utf-8'))",
                          "print(count.cues_outcomes(p, n_jobs=%d))" % c['n_jobs'],
                          "print('direct:', count.cues_outcomes(p, n_jobs=1))"])
    return '\n'.join(["import os, tempfile", "from pyndl import count",
                      "content = %r" % ws_content(c),
                      "p = os.path.join(tempfile.mkdtemp(), 'corpus.txt')",
                      "with open(p, 'wb') as f: f.write(content.encode('utf-8'))",
                      "print(count.words_symbols(p, n_jobs=%d, lower_case=%r))" % (c['n_jobs'], c['lower_case'])])


def shrink(pool, driver, c):
    def fails(x):
        return bool(evaluate(pool, driver, x)[0])
    if c['kind'] == 'ev':
        return T.shrink_rows(c, 'rows', fails, budget=160, simplify=[('n_jobs', 1), ('n_jobs', 2), ('n_jobs', 3), ('final_eol', True)])
    return T.shrink_lines(c, 'lines', fails, budget=160,
                          simplify=[('n_jobs', 1), ('n_jobs', 2), ('n_jobs', 3), ('lower_case', False), ('eol', '\n'), ('final_eol', True)])


def run(rep, pool, driver, tier):
    r = rng('C11')
    quick = tier == 'quick'
    evs = gen_ev(r, 160 if quick else 1600)
    wss = gen_ws(r, 128 if quick else 1280)
    failures = []
    # event files
    impls = pool.map([ev_task(c) for c in evs])
    models = driver.ask([ev_request(c) for c in evs])
    for c, impl, model in zip(evs, impls, models):
        probs = judge_ev(c, impl, model)
        n = len(c['rows'])
        rep.case(c, nontrivial=n >= 1, stream='event_file')
        rep.count('event_file:n_jobs=%d' % c['n_jobs'])
        rep.count('event_file:lines=%s' % ('0' if n == 0 else '1-5' if n <= 5 else '6-33' if n <= 33 else '34-200'))
        rep.count('event_file:freq_column=%s' % c['mode'])
        rep.count('event_file:outcome=%s' % (model['direct'].get('err') or 'Returned'))
        if c['n_jobs'] > n:
            rep.count('event_file:more_jobs_than_lines')
        if any(x[2] == 0 for x in c['rows']):
            rep.count('event_file:has_frequency_0')
        if probs:
            failures.append((c, probs))
        elif n >= 3 and 'err' not in model['direct'] and 'n_events' in impl.get('count', {}):
            rep.sample({'stream': 'event_file', 'lines': n, 'n_jobs': c['n_jobs'], 'first_rows': c['rows'][:3],
                        'n_events': impl['count']['n_events'], 'cues': impl['count']['cues'][:5]}, limit=2)
    # corpus files
    impls = pool.map([ws_task(c) for c in wss])
    bad = [i for i, im in enumerate(impls) if 'lines' not in im]
    for i in bad:
        failures.append((wss[i], ['implementation op failed: %r' % impls[i]]))
    good = [i for i in range(len(wss)) if i not in set(bad)]
    models = driver.ask([ws_request(wss[i], impls[i]) for i in good])
    for i, model in zip(good, models):
        c, impl = wss[i], impls[i]
        probs = judge_ws(c, impl, model)
        n = len(c['lines'])
        rep.case(c, nontrivial=n >= 1, stream='corpus_file')
        rep.count('corpus_file:n_jobs=%d' % c['n_jobs'])
        rep.count('corpus_file:lines=%s' % ('0' if n == 0 else '1-5' if n <= 5 else '6-50' if n <= 50 else '51-200'))
        rep.count('corpus_file:lower_case=%s' % c['lower_case'])
        rep.count('corpus_file:eol=%r' % c['eol'])
        if c['n_jobs'] > impl.get('n_lines', 0):
            rep.count('corpus_file:more_jobs_than_lines')
        if probs:
            failures.append((c, probs))
        elif n >= 2 and impl.get('words'):
            rep.sample({'stream': 'corpus_file', 'lines': c['lines'][:2], 'n_jobs': c['n_jobs'],
                        'lower_case': c['lower_case'], 'words': impl['words'][:6], 'symbols': impl['symbols'][:6]}, limit=4)
    for c, probs in failures[:3]:
        small, steps = shrink(pool, driver, c)
        p2, impl2, model2 = evaluate(pool, driver, small)
        if not p2:
            small, p2 = c, probs
            _, impl2, model2 = evaluate(pool, driver, c)
        if c['kind'] == 'ev':
            obs = impl2.get('count')
            exp = co_model(model2['direct']) if model2 else None
        else:
            obs = {k: impl2.get(k) for k in ('err', 'msg', 'words', 'symbols', 'n_lines')}
            exp = ws_model(model2['direct']) if model2 else None
        rep.violation({'what': p2[0], 'all': p2[:4], 'input': small, 'observed': obs, 'expected': exp,
                       'python': snippet(small),
                       'theorem_or_stream': 'stream %s: count.%s vs Pyndl.Text direct and strided count (C11.strided_sum)'
                                            % (c['stream'], 'cues_outcomes' if c['kind'] == 'ev' else 'words_symbols'),
                       'shrink_steps': steps, 'shrunk_from': len(c.get('rows', c.get('lines')))})
    rep.extra['failures_total'] = len(failures)


def replay(rep, pool, driver, rp):
    c = rp['input']
    probs, impl, _ = evaluate(pool, driver, c)
    rep.case(c, stream='replay')
    if probs:
        rep.violation(dict(rp, what=probs[0]))
