"""
C20 — band sampling returns a valid sub-table; frequency tables persist exactly.
Correspondence: the real `pyndl.preprocess.bandsample` (with
`pyndl.preprocess.random` replaced, inside the pool worker, by a shim whose
`Random(seed).shuffle` applies a permutation chosen by the harness) against the
Lean model `Pyndl.Band.bandsampleShuffled` evaluated over exact rationals on the
same shuffled order.  Stream `band_exact`: `sum(freq)/sample_size` is a dyadic
rational small enough that every float operation of the walk is exact, so the
returned Counter must equal the model's sample EXACTLY (no tolerance).  Stream
`band_pred`: any other step; only the property's predicates (sub-table with the
original frequencies, all freq >= cutoff, size <= sample_size when all retained
frequencies are > 0, argument Counter unchanged, returns within the deadline)
are evaluated on the implementation's result; agreement with the rational model
is counted but not required (a float accumulator may break a tie differently).
Stream `band_rational`: each `band_pred` case is run once more through the same
real code with `fractions.Fraction` frequencies and cutoff, which makes the walk
the exact rational walk; if the code accepts Fractions the result must equal the
model's sample exactly (a refusal is counted, not alarmed).
Stream `counter_io`: `load_counter(save_counter(c))` must equal `c` (as a dict,
types included) and the model's `loadCounter (saveCounter c)` for Counters whose
keys are free of TAB/LF/CR (Unicode keys, the empty key, inner and surrounding
spaces, other Unicode line separators); the order of the lines in the file is
not compared.  Stream `counter_raw`: hand-built files — well-formed ones must
load to their content, files with a repeated key must raise ValueError.
"""
import json
from fractions import Fraction

from common import rng

TIMEOUT = 60
BAND_DEADLINE = 60   # bandsample takes milliseconds; the deadline only has to tell a hang from a loaded machine
SHRINK_DEADLINE = 6

TRUSTED = [
    'random.Random.shuffle: replaced by an arbitrary permutation (theorems quantify over every permutation; the differential run fixes one per case through a shim installed in the worker)',
    'IEEE-754: exact comparison only in stream band_exact (dyadic step, all partial sums < 2^53 ulps); elsewhere only the predicates are evaluated on the implementation result',
    'text I/O (utf-8 codec, universal newlines), str.format of int, int() on the canonical decimal spelling',
]
ASSUMPTIONS = [
    'sample_size >= 1 (sample_size = 0 raises ZeroDivisionError; modelled and compared)',
    'band_size: all retained frequencies > 0 (with total 0 the step is 0 and every word is picked)',
    'load_save: keys without TAB/LF/CR, keys pairwise distinct; counts are Python ints',
    'population keys are unique (it is a dict); seed stays None (seeding raises NotImplementedError)',
]


# ---------------------------------------------------------------------------
# generators
# ---------------------------------------------------------------------------

WORD_CHARS = 'abcdefghijklmnopqrstuvwxyzäöüßéñ漢字'


def _words(r, n):
    out, seen = [], set()
    i = 0
    while len(out) < n:
        if r.random() < 0.15:
            w = ''.join(r.choice(WORD_CHARS) for _ in range(r.randint(1, 6)))
        else:
            w = 'w%d' % i
        i += 1
        if w not in seen:
            seen.add(w)
            out.append(w)
    return out


def _freqs(r, n, shape):
    if n == 0:
        return []
    if shape == 'zipf':
        c = r.choice([10, 100, 1000, 50000, 1000000])
        s = r.choice([0.7, 1.0, 1.3, 2.0])
        fs = [int(c / (k + 1) ** s) + r.choice([0, 0, 1]) for k in range(n)]
    elif shape == 'dominant':
        fs = [r.randint(1, 9) for _ in range(n)]
        fs[r.randrange(n)] = r.choice([10 ** 3, 10 ** 5, 10 ** 7, 10 ** 9])
    elif shape == 'equal':
        k = r.choice([1, 2, 5, 7, 64])
        fs = [k] * n
    elif shape == 'few_values':
        vals = r.choice([[1, 2], [1, 2, 3, 5], [5, 6], [1, 100], [4, 8, 16]])
        fs = [r.choice(vals) for _ in range(n)]
    elif shape == 'geometric':
        fs = [2 ** r.randint(0, 20) for _ in range(n)]
    elif shape == 'with_zero':
        fs = [r.choice([0, 0, 1, 2, 3, 10]) for _ in range(n)]
    else:  # uniform
        hi = r.choice([3, 10, 1000])
        fs = [r.randint(1, hi) for _ in range(n)]
    r.shuffle(fs)
    return fs


SHAPES = ['zipf', 'zipf', 'dominant', 'dominant', 'equal', 'few_values', 'geometric', 'with_zero', 'uniform']


def _size(r, i, tier):
    k = i % 10
    if k == 0:
        return r.choice([0, 1, 1, 2])
    if k <= 4:
        return r.randint(2, 12)
    if k <= 7:
        return r.randint(13, 120)
    return r.randint(121, 2000) if (tier == 'thorough' or i % 20 == 8) else r.randint(121, 500)


def _odd_part(n):
    while n % 2 == 0:
        n //= 2
    return n


def band_case(r, i, tier, want_exact):
    n = _size(r, i, tier)
    shape = r.choice(SHAPES)
    words = _words(r, n)
    fs = _freqs(r, n, shape)
    srt = sorted(fs)
    pick = r.random()
    if pick < 0.25:
        cutoff = None                                  # default (5)
    elif pick < 0.45:
        cutoff = r.choice([0, 1, 2])
    elif pick < 0.7 and srt:
        cutoff = srt[r.randrange(len(srt))] + r.choice([0, 0, 1])
    elif pick < 0.8 and srt:
        cutoff = srt[-1] + r.choice([0, 1])            # keeps only the top / nothing
    elif pick < 0.9:
        cutoff = Fraction(r.choice([1, 3, 5, 9, 11]), 2)   # x.5 : exact float
    else:
        cutoff = r.choice([-1, 3, 5, 10])
    cval = Fraction(5) if cutoff is None else Fraction(cutoff)
    kept = [f for f in fs if f >= cval]
    total = sum(kept)
    nk = len(kept)
    q = r.random()
    if q < 0.03:
        size = 0
    elif q < 0.06:
        size = -r.choice([1, 1, 2, 7, 100])      # outside "sample_size >= 1": the code returns every retained word
    elif q < 0.2:
        size = 1
    elif q < 0.6:
        size = r.randint(1, max(1, nk))
    elif q < 0.75:
        size = max(1, nk + r.choice([-1, 0, 1]))
    elif q < 0.9:
        size = nk + r.randint(1, 50)
    else:
        size = r.choice([50, 1000, 50000])
    if want_exact and size > 0:
        if r.random() < 0.5:
            # power-of-two size
            size = 1 << max(0, min(size.bit_length() - 1 + r.choice([0, 1]), 20))
        else:
            # keep the size, make the total divisible by its odd part by raising one retained word
            odd = _odd_part(size)
            idx = [k for k, f in enumerate(fs) if f >= cval]
            if idx and odd > 1:
                k = max(idx, key=lambda j: fs[j]) if r.random() < 0.5 else r.choice(idx)
                fs[k] += (-total) % odd
    rank = list(range(n))
    if r.random() < 0.9:
        r.shuffle(rank)
    c = {'population': [[w, f] for w, f in zip(words, fs)], 'rank': rank, 'sample_size': size, 'shape': shape}
    if cutoff is not None:
        c['cutoff'] = '%d/%d' % (cval.numerator, cval.denominator)
    return c


def cutoff_of(c):
    return Fraction(c['cutoff']) if 'cutoff' in c else Fraction(5)


def is_exact(c):
    """step dyadic and every partial sum of the walk representable"""
    cv = cutoff_of(c)
    kept = [f for _, f in c['population'] if f >= cv]
    size = c['sample_size']
    if size <= 0:
        return True
    total = sum(kept)
    step = Fraction(total, size)
    d = step.denominator
    if d & (d - 1):
        return False
    return (total + step) * d * 2 < 2 ** 53


def band_task(c, deadline=BAND_DEADLINE):
    t = {'op': 'bandsample', 'population': c['population'], 'rank': c['rank'],
         'sample_size': c['sample_size'], '_timeout': deadline}
    if 'cutoff' in c:
        t['cutoff'] = c['cutoff']
    if c.get('fraction'):
        t['fraction'] = True
    if c.get('verbose'):
        t['verbose'] = True          # X1: same walk with the `if verbose:` blocks executed
    return t


def band_request(c):
    order = sorted(range(len(c['population'])), key=lambda k: c['rank'][k])
    pop = [[c['population'][k][0], '%d/1' % c['population'][k][1]] for k in order]
    cv = cutoff_of(c)
    return {'op': 'bandsample', 'population': pop, 'cutoff': '%d/%d' % (cv.numerator, cv.denominator),
            'sample_size': c['sample_size']}


def band_check(c, impl, model):
    """list of problems (empty = property held and, in the exact stream, impl = model)"""
    probs = []
    pop = {w: f for w, f in c['population']}
    cv = cutoff_of(c)
    if impl.get('err') == 'Timeout':
        return ['bandsample did not return within %ss (termination)' % impl.get('seconds')]
    if impl.get('err') in ('WorkerDied', 'HarnessError'):
        return ['worker failure: %s %s' % (impl.get('err'), impl.get('msg'))]
    if impl.get('arg_unchanged') is False:
        probs.append('the population argument was modified')
    if 'err' in model:
        if impl.get('err') != model['err']:
            probs.append('model predicts %s (%s), implementation: %s'
                         % (model['err'], model.get('cls'), impl.get('err') or 'Returned'))
        return probs
    if 'err' in impl:
        probs.append('implementation raised %s (%s: %s), model returns a sample'
                     % (impl['err'], impl.get('cls'), impl.get('msg')))
        return probs
    if impl.get('type') != 'Counter':
        probs.append('result is a %s, not a Counter' % impl.get('type'))
    sample = {w: Fraction(f) for w, f in impl['sample']}
    for w, f in sample.items():
        if w not in pop:
            probs.append('returned word %r is not in the population' % w)
        elif pop[w] != f:
            probs.append('returned word %r has frequency %s, population says %s' % (w, f, pop[w]))
        if f < cv:
            probs.append('returned word %r has frequency %s below the cutoff %s' % (w, f, cv))
    kept = [f for f in pop.values() if f >= cv]
    if all(f > 0 for f in kept) and c['sample_size'] >= 1 and len(sample) > c['sample_size']:
        probs.append('sample has %d words, sample_size is %d' % (len(sample), c['sample_size']))
    if is_exact(c) or c.get('fraction'):
        msample = {w: Fraction(f) for w, f in model['sample']}
        if msample != sample:
            extra = sorted(set(sample) - set(msample))[:5]
            missing = sorted(set(msample) - set(sample))[:5]
            probs.append(('rational stream' if c.get('fraction') else 'exact stream') + ': returned Counter differs from the model sample '
                         '(only impl: %r, only model: %r, sizes %d vs %d)'
                         % (extra, missing, len(sample), len(msample)))
    return probs[:6]


def band_eval(pool, driver, cases, deadline=BAND_DEADLINE, batch=None, max_timeouts=3):
    """both sides on every case; with `batch`, the implementation side runs in batches and the
    campaign stops after the batch in which the `max_timeouts`-th deadline expired (a hanging
    implementation would otherwise cost deadline x cases); returns results for the cases that ran"""
    impls = []
    if batch is None:
        impls = pool.map([band_task(c, deadline) for c in cases])
    else:
        timeouts = 0
        for lo in range(0, len(cases), batch):
            part = pool.map([band_task(c, deadline) for c in cases[lo:lo + batch]])
            impls.extend(part)
            timeouts += sum(1 for i in part if i.get('err') == 'Timeout')
            if timeouts >= max_timeouts:
                break
    cases = cases[:len(impls)]
    models = driver.ask([band_request(c) for c in cases])
    return [(band_check(c, i, m), i, m) for c, i, m in zip(cases, impls, models)]


def kind_of(msg):
    for key, kind in (('did not return', 'timeout'), ('argument was modified', 'arg'), ('model predicts', 'error'),
                      ('implementation raised', 'raised'), ('not in the population', 'sub'),
                      ('population says', 'sub'), ('below the cutoff', 'cutoff'), ('sample_size is', 'size'),
                      ('exact stream', 'exact'), ('rational stream', 'rational')):
        if key in msg:
            return kind
    return 'other'


def _norm_rank(rank):
    order = sorted(range(len(rank)), key=lambda k: rank[k])
    out = [0] * len(rank)
    for pos, k in enumerate(order):
        out[k] = pos
    return out


def band_shrink(pool, driver, case, rounds=40, hanging=False, kind=None):
    """parallel greedy shrinking: each round proposes a batch of smaller cases and keeps the smallest failing one"""
    cur = dict(case, rank=_norm_rank(case['rank']))
    evals = 0
    cap, deadline = (24, 4) if hanging else (192, SHRINK_DEADLINE)
    if hanging:
        rounds = min(rounds, 14)
    for _ in range(rounds):
        pop, rank = cur['population'], cur['rank']
        n = len(pop)
        cands = []

        def without(idxs):
            keep = [k for k in range(n) if k not in idxs]
            return dict(cur, population=[pop[k] for k in keep], rank=_norm_rank([rank[k] for k in keep]))

        if n > 1:
            for parts in ((2, 4, 8) if hanging else (2, 4, 8, 16, 32, 64)):
                if n >= parts:
                    sz = n // parts
                    for p in range(parts):
                        cand = without(set(range(p * sz, (p + 1) * sz if p < parts - 1 else n)))
                        cands.append(cand)
                        if parts <= 8 and cur['sample_size'] > 1:
                            # shrink the requested size along with the population
                            scaled = max(1, cur['sample_size'] * len(cand['population']) // n)
                            cands.append(dict(cand, sample_size=scaled))
            if n <= (8 if hanging else 64):
                for k in range(n):
                    cands.append(without({k}))
        if rank != list(range(n)):
            cands.append(dict(cur, rank=list(range(n))))
        if cur['sample_size'] > 1:
            cands.append(dict(cur, sample_size=cur['sample_size'] // 2))
            cands.append(dict(cur, sample_size=cur['sample_size'] - 1))
        if n <= 12:
            for k in range(n):
                w, f = pop[k]
                for nf in {f // 2, f - 1, 1}:
                    if 0 <= nf < f:
                        cands.append(dict(cur, population=pop[:k] + [[w, nf]] + pop[k + 1:]))
        if 'cutoff' in cur and cur['cutoff'] not in ('0/1', '1/1'):
            cands.append(dict(cur, cutoff='1/1'))
            cands.append(dict(cur, cutoff='0/1'))
        if cur.get('verbose'):
            cands.append({k: v for k, v in cur.items() if k != 'verbose'})
        if not cands:
            break
        cands = cands[:cap]
        res = band_eval(pool, driver, cands, deadline)
        evals += len(cands)
        # a candidate counts only if it fails in the same way (a hang must stay a hang)
        failing = [c for c, (p, _, _) in zip(cands, res) if p and (kind is None or any(kind_of(m) == kind for m in p))]
        if not failing:
            break
        cur = min(failing, key=lambda c: (len(c['population']), sum(f for _, f in c['population']), c['sample_size']))
    return cur, evals


def band_snippet(c):
    return '\n'.join([
        "import collections",
        "from fractions import Fraction",
        "from pyndl import preprocess",
        "items = %r" % [(w, f) for w, f in c['population']],
        "rank = dict(zip([w for w, _ in items], %r))" % (c['rank'],),
        "class R:",
        "    def shuffle(self, lst): lst.sort(key=lambda e: rank[e[0]])",
        "class M:",
        "    def Random(self, seed=None): return R()",
        "preprocess.random = M()   # the permutation the harness chose for rand.shuffle",
        "population = collections.Counter(dict(items))" if not c.get('fraction') else
        "population = collections.Counter({w: Fraction(f) for w, f in items})   # exact rational walk",
        ("cutoff = Fraction(%r)" if c.get('fraction') else
         "cutoff = Fraction(%r); cutoff = int(cutoff) if cutoff.denominator == 1 else float(cutoff)") % str(cutoff_of(c)),
        "print(preprocess.bandsample(population, %d, cutoff=cutoff%s))" % (c['sample_size'], ', verbose=True' if c.get('verbose') else ''),
    ])


# ---------------------------------------------------------------------------
# counter files
# ---------------------------------------------------------------------------

KEY_ALPHABET = list('abcxyzABC019 _#-.,;:\'"\\/|\u00e4\u00f6\u00fc\u00df\u00e9\u00f1\u6f22\u5b57\U0001f642') + [
    '\u0301', '\x0b', '\x0c', '\x1c', '\x1e', '\x85', '\u2028', '\u2029', '\u00a0', '\u3000', '\ufeff']
SPECIAL_KEYS = ['', ' ', '  ', ' a', 'a ', ' a ', 'a b', ' a b ', 'key', 'freq', '0', '-1', '#', '\u00fc', '\u6f22\u5b57',
                '\u2028', '\x0b', '\x0c', '\x85', '\u00a0', 'a\u00a0b', '\x1c', 'A', 'a', 'None', '\ufeff',
                '\u3000a\u3000']


def _key(r):
    q = r.random()
    if q < 0.3:
        return r.choice(SPECIAL_KEYS)
    if q < 0.6:
        return ''.join(r.choice('abcdefgh') for _ in range(r.randint(1, 4)))
    return ''.join(r.choice(KEY_ALPHABET) for _ in range(r.randint(0, 6)))


def _count(r):
    q = r.random()
    if q < 0.6:
        return r.randint(1, 5)
    if q < 0.8:
        return r.randint(6, 100000)
    if q < 0.9:
        return r.choice([0, -1, -7, -100])
    return r.choice([10 ** 9, 10 ** 15, 2 ** 40 + 1])


def counter_case(r, i, tier):
    n = r.choice([0, 1, 2, 3, 5, 8, 20]) if i % 6 else r.randint(21, 150 if tier == 'quick' else 1500)
    items, seen = [], set()
    tries = 0
    while len(items) < n and tries < 20 * n + 20:
        tries += 1
        k = _key(r)
        if k in seen:
            continue
        seen.add(k)
        items.append([k, _count(r)])
    if i % 3 == 0 and '' not in seen:
        items.insert(r.randint(0, len(items)), ['', _count(r)])
    c = {'items': items}
    if i % 9 == 4:
        c['header'] = r.choice(['word\tcount\n', 'k\tv\n', '\n', 'key\tfreq\textra\n', 'ключ\tчастота\n'])
    return c


def counter_task(c):
    t = {'op': 'counter_io', 'items': c['items'], '_timeout': 30}
    if 'header' in c:
        t['header'] = c['header']
    return t


def counter_check(c, impl, model):
    probs = []
    orig = {k: n for k, n in c['items']}
    if impl.get('err') == 'Timeout':
        return ['save/load did not return within the deadline']
    if impl.get('err') in ('WorkerDied', 'HarnessError'):
        return ['worker failure: %s %s' % (impl.get('err'), impl.get('msg'))]
    if 'err' in impl:
        probs.append('%s_counter raised %s (%s: %s) for a counter with TAB/LF/CR-free distinct keys'
                     % (impl.get('stage'), impl['err'], impl.get('cls'), impl.get('msg')))
    else:
        loaded = impl['loaded']
        ld = {k: n for k, n in loaded}
        if len(ld) != len(loaded):
            probs.append('loaded counter lists a key twice')
        if ld != orig:
            diff = sorted(set(map(repr, ld.items())) ^ set(map(repr, orig.items())))[:6]
            probs.append('load_counter(save_counter(c)) != c; differing items: %s' % diff)
        if impl.get('type') != 'Counter':
            probs.append('loaded object is a %s' % impl.get('type'))
        if impl.get('value_types') not in ([], ['int']):
            probs.append('loaded counts have types %s' % impl.get('value_types'))
        if 'err' in model:
            probs.append('model predicts %s, implementation returned' % model['err'])
        elif sorted(map(tuple, model['loaded'])) != sorted(map(tuple, loaded)):
            probs.append('model loadCounter(saveCounter c) differs from the implementation result')
    if impl.get('arg_unchanged') is False:
        probs.append('save_counter modified its argument')
    if impl.get('file_unchanged_by_load') is False:
        probs.append('load_counter modified the file')
    if impl.get('dir') not in (None, ['counter.tab']):
        probs.append('extra files next to the counter file: %r' % impl.get('dir'))
    return probs[:6]


def _decode(model):
    """the driver sends strings as code-point arrays (see PyndlDriver/OpsBand.lean jCodes)"""
    m = dict(model)
    if 'text' in m:
        m['text'] = ''.join(map(chr, m['text']))
    if 'loaded' in m:
        m['loaded'] = [[''.join(map(chr, k)), n] for k, n in m['loaded']]
    return m


def counter_eval(pool, driver, cases):
    impls = pool.map([counter_task(c) for c in cases])
    models = [_decode(m) for m in driver.ask([counter_task(c) for c in cases])]
    return [(counter_check(c, i, m), i, m) for c, i, m in zip(cases, impls, models)]


def counter_shrink(pool, driver, case, rounds=30):
    cur = dict(case)
    evals = 0
    for _ in range(rounds):
        items = cur['items']
        n = len(items)
        cands = []
        if n > 1:
            for parts in (2, 4, 8):
                if n >= parts:
                    sz = n // parts
                    for p in range(parts):
                        lo, hi = p * sz, ((p + 1) * sz if p < parts - 1 else n)
                        cands.append(dict(cur, items=items[:lo] + items[hi:]))
            if n <= 30:
                for k in range(n):
                    cands.append(dict(cur, items=items[:k] + items[k + 1:]))
        if 'header' in cur:
            cands.append({k: v for k, v in cur.items() if k != 'header'})
        if n <= 6:
            for k in range(n):
                key, cnt = items[k]
                for j in range(len(key)):
                    nk = key[:j] + key[j + 1:]
                    if all(nk != o for o, _ in items):
                        cands.append(dict(cur, items=items[:k] + [[nk, cnt]] + items[k + 1:]))
                if cnt != 1:
                    cands.append(dict(cur, items=items[:k] + [[key, 1]] + items[k + 1:]))
        if not cands:
            break
        cands = cands[:96]
        res = counter_eval(pool, driver, cands)
        evals += len(cands)
        failing = [c for c, (p, _, _) in zip(cands, res) if p]
        if not failing:
            break
        cur = min(failing, key=lambda c: (len(c['items']), sum(len(k) for k, _ in c['items']), 'header' in c))
    return cur, evals


def counter_snippet(c):
    hdr = (', header=%r' % c['header']) if 'header' in c else ''
    return '\n'.join([
        "import collections, os, tempfile",
        "from pyndl import count",
        "c = collections.Counter(); [c.__setitem__(k, n) for k, n in %r]" % [(k, n) for k, n in c['items']],
        "p = os.path.join(tempfile.mkdtemp(), 'counter.tab')",
        "count.save_counter(c, p%s)" % hdr,
        "l = count.load_counter(p)",
        "print(dict(l) == dict(c), dict(l), dict(c))",
    ])


def raw_cases(r, tier):
    """(text, expectation) — expectation 'content' (must load to exactly these items), 'ValueError' or None (informational)"""
    out = []
    for i in range(100 if tier == 'quick' else 1000):
        c = counter_case(r, i, tier)
        items = c['items'][:12]
        r.shuffle(items)
        lines = ['%s\t%d\n' % (k, n) for k, n in items]
        hdr = 'key\tfreq\n'
        kind = i % 5
        if kind in (0, 1):
            out.append((hdr + ''.join(lines), 'content', items))
        elif kind == 2 and items:
            dup = r.choice(items)
            pos = r.randint(0, len(lines))
            lines2 = lines[:pos] + ['%s\t%d\n' % (dup[0], r.choice([dup[1], 1, 99]))] + lines[pos:]
            out.append((hdr + ''.join(lines2), 'ValueError', None))
        elif kind == 3:
            # malformed in some other way: informational only
            bad = r.choice(['a\n', 'a\tb\t1\n', 'a\t\n', 'a\tx\n', '\n', 'a\r\t1\n', 'a\t1'])
            pos = r.randint(0, len(lines))
            out.append((hdr + ''.join(lines[:pos] + [bad] + lines[pos:]), None, None))
        else:
            out.append((hdr, 'content', []))
    return out


# ---------------------------------------------------------------------------
# campaign
# ---------------------------------------------------------------------------

def _bucket(n):
    return '0' if n == 0 else '1' if n == 1 else '2-12' if n <= 12 else '13-120' if n <= 120 else '121-2000'


def run(rep, pool, driver, tier):
    r = rng('C20')
    n_band = 2500 if tier == 'quick' else 30000
    cases = [band_case(r, i, tier, want_exact=(i % 3 != 2)) for i in range(n_band)]
    # fixed corner cases
    cases += [
        {'population': [], 'rank': [], 'sample_size': 1, 'shape': 'corner'},
        {'population': [['a', 7]], 'rank': [0], 'sample_size': 1, 'shape': 'corner'},
        {'population': [['a', 7]], 'rank': [0], 'sample_size': 4, 'cutoff': '7/1', 'shape': 'corner'},
        {'population': [['a', 7]], 'rank': [0], 'sample_size': 4, 'cutoff': '8/1', 'shape': 'corner'},
        {'population': [['a', 1], ['b', 1], ['c', 1], ['d', 1]], 'rank': [3, 1, 0, 2], 'sample_size': 4,
         'cutoff': '1/1', 'shape': 'corner'},
        {'population': [['a', 1], ['b', 1], ['c', 1], ['d', 1]], 'rank': [3, 1, 0, 2], 'sample_size': 8,
         'cutoff': '1/1', 'shape': 'corner'},
        {'population': [['a', 1], ['b', 1], ['c', 2], ['d', 1000]], 'rank': [0, 1, 2, 3], 'sample_size': 4,
         'cutoff': '1/1', 'shape': 'corner'},
        {'population': [['a', 0], ['b', 0]], 'rank': [1, 0], 'sample_size': 1, 'cutoff': '0/1', 'shape': 'corner'},
        {'population': [['a', 3], ['b', 5]], 'rank': [1, 0], 'sample_size': 0, 'cutoff': '0/1', 'shape': 'corner'},
    ]
    # X1: `verbose=True` for about a quarter of the calls (own random stream: the cases above stay the
    # same); the model knows no verbose flag, so the result must be the one of verbose=False
    rv = rng('C20/verbose')
    for c in cases:
        if rv.random() < 0.25:
            c['verbose'] = True
    res = band_eval(pool, driver, cases, batch=120)
    if len(res) < len(cases):
        rep.count('band_cases_skipped_after_timeouts', len(cases) - len(res))
    failures = []
    for c, (probs, impl, model) in zip(cases, res):
        n = len(c['population'])
        exact = is_exact(c)
        stream = 'band_exact' if exact else 'band_pred'
        rep.case({'pop': c['population'], 'rank': c['rank'], 'size': c['sample_size'], 'cutoff': c.get('cutoff')},
                 nontrivial=n >= 2, stream=stream)
        rep.count('band_shape:' + c['shape'])
        rep.count('band_population:' + _bucket(n))
        rep.count('band_cutoff:' + ('default' if 'cutoff' not in c else 'given'))
        rep.count('band_verbose:%s' % bool(c.get('verbose')))
        if 'err' in model:
            rep.count('band_model_outcome:' + model['err'])
        else:
            rep.count('band_model_outcome:Returned')
            k, f = len(model['sample']), model['filtered']
            rep.count('band_retained:' + _bucket(f))
            rep.count('band_sample_vs_size:' + ('empty' if k == 0 else 'full' if k == c['sample_size'] else
                                                'below' if k < c['sample_size'] else 'above(total=0)'))
            if c['sample_size'] > f:
                rep.count('band_size_exceeds_population')
            if model['picks'] >= 2:
                rep.count('band_two_or_more_picks')
            if not exact and 'sample' in impl:
                same = {w: Fraction(x) for w, x in impl['sample']} == {w: Fraction(x) for w, x in model['sample']}
                rep.count('band_pred_float_equals_rational' if same else 'band_pred_float_differs_from_rational(tie)')
        if impl.get('shuffle_calls') not in (None, 1) and 'err' not in impl:
            rep.count('band_shuffle_calls_not_1')
        if probs:
            failures.append((c, probs, impl, model))
        elif n >= 4 and 'sample' in model and len(model['sample']) >= 2 and exact:
            rep.sample({'stream': stream, 'population': c['population'][:8], 'n_words': n, 'sample_size': c['sample_size'],
                        'cutoff': c.get('cutoff', 'default 5'), 'model_sample': model['sample'][:6],
                        'impl_sample': impl['sample'][:6]}, limit=3)
    # outside the exact float domain: the same real code on fractions.Fraction frequencies performs the
    # exact rational walk and must then equal the model exactly (if it accepts Fractions at all)
    ratio = [c for c, (_, impl, model) in zip(cases, res) if not is_exact(c) and 'sample' in model]
    rimpl = pool.map([dict(band_task(c), fraction=True) for c in ratio])
    rmodel = driver.ask([band_request(c) for c in ratio])
    for c, impl, model in zip(ratio, rimpl, rmodel):
        rep.case({'pop': c['population'], 'rank': c['rank'], 'size': c['sample_size'], 'cutoff': c.get('cutoff'),
                  'fraction': True}, nontrivial=len(c['population']) >= 2, stream='band_rational')
        if 'sample' not in impl:
            rep.count('band_rational_unsupported_or_failed:%s' % impl.get('err'))
            continue
        same = {w: Fraction(x) for w, x in impl['sample']} == {w: Fraction(x) for w, x in model['sample']}
        rep.count('band_rational_equals_model' if same else 'band_rational_differs_from_model')
        if not same:
            failures.append((dict(c, fraction=True), ['rational stream: bandsample on Fraction frequencies differs from the '
                                                      'model sample (%d vs %d words)' % (len(impl['sample']), len(model['sample']))],
                             impl, model))
    rep.extra['band_failures_total'] = len(failures)
    # one representative per distinct first problem, at most 4 shrinks
    seen = set()
    for c, probs, impl, model in failures:
        key = kind_of(probs[0])
        if key in seen or len(seen) >= 4:
            continue
        seen.add(key)
        small, evals = band_shrink(pool, driver, c, hanging=(key == 'timeout'), kind=key)
        (p2, impl2, model2), = band_eval(pool, driver, [small], SHRINK_DEADLINE)
        rep.violation({'what': p2 or probs, 'input': {k: v for k, v in small.items() if k != 'shape'},
                       'stream': 'band_rational' if small.get('fraction') else 'band_exact' if is_exact(small) else 'band_pred',
                       'observed': {k: impl2.get(k) for k in ('err', 'cls', 'msg', 'sample', 'arg_unchanged', 'seconds')
                                    if k in impl2},
                       'expected': {k: model2.get(k) for k in ('err', 'sample') if k in model2},
                       'python': band_snippet(small),
                       'theorem_or_stream': 'C20 band_sub / band_cutoff / band_size / band_terminates / band_pure; '
                                            'correspondence bandsample vs Pyndl.Band.bandsampleShuffled',
                       'shrunk_from_words': len(c['population']), 'shrink_evaluations': evals})

    # ---- counter files
    n_ctr = 800 if tier == 'quick' else 8000
    ccases = [counter_case(r, i, tier) for i in range(n_ctr)]
    ccases += [{'items': [['', 5], ['a', 2]]}, {'items': [[' a ', 1], ['a', 1], ['a ', 1], [' a', 1]]},
               {'items': [['a', 1], ['b', 2], ['c', 2], ['d', 3]]}, {'items': []}, {'items': [['', 0]]},
               {'items': [['\u2028', 1], ['\x85', 2], ['\x0c', 3], ['x\x0by', 4]]}]
    cres = counter_eval(pool, driver, ccases)
    cfail = []
    for c, (probs, impl, model) in zip(ccases, cres):
        keys = [k for k, _ in c['items']]
        rep.case({'items': c['items'], 'header': c.get('header')}, nontrivial=len(keys) >= 2, stream='counter_io')
        rep.count('counter_size:' + _bucket(len(keys)))
        if '' in keys:
            rep.count('counter_has_empty_key')
        if any(k != k.strip() for k in keys):
            rep.count('counter_has_key_with_surrounding_whitespace')
        if any(not k.isascii() for k in keys):
            rep.count('counter_has_non_ascii_key')
        if len({n for _, n in c['items']}) < len(keys):
            rep.count('counter_has_tied_counts')
        if any(n <= 0 for _, n in c['items']):
            rep.count('counter_has_nonpositive_count')
        if 'header' in c:
            rep.count('counter_custom_header')
        if 'text' in impl and 'text' in model:
            rep.count('counter_file_text_equals_model' if impl['text'] == model['text']
                      else 'counter_file_text_differs_from_model(not required)')
        if probs:
            cfail.append((c, probs, impl, model))
        elif len(keys) >= 3 and '' in keys:
            rep.sample({'stream': 'counter_io', 'items': c['items'][:6], 'file_text': impl.get('text', '')[:80],
                        'loaded': impl.get('loaded', [])[:6], 'model_loaded': model.get('loaded', [])[:6]}, limit=4)
    rep.extra['counter_failures_total'] = len(cfail)
    seen = set()
    for c, probs, impl, model in cfail:
        key = ' '.join(probs[0].split(' ')[0:3])
        if key in seen or len(seen) >= 3:
            continue
        seen.add(key)
        small, evals = counter_shrink(pool, driver, c)
        (p2, impl2, model2), = counter_eval(pool, driver, [small])
        rep.violation({'what': p2 or probs, 'input': small,
                       'observed': {k: impl2.get(k) for k in ('err', 'cls', 'msg', 'stage', 'text', 'loaded') if k in impl2},
                       'expected': {k: model2.get(k) for k in ('err', 'text', 'loaded') if k in model2},
                       'python': counter_snippet(small),
                       'theorem_or_stream': 'C20 load_save; correspondence save_counter/load_counter vs '
                                            'Pyndl.Band.saveCounter/loadCounter',
                       'shrunk_from_items': len(c['items']), 'shrink_evaluations': evals})

    # ---- raw files
    raws = raw_cases(r, tier)
    rimpl = pool.map([{'op': 'counter_load', 'text': t, '_timeout': 30} for t, _, _ in raws])
    rmodel = [_decode(m) for m in driver.ask([{'op': 'counter_load', 'text': t} for t, _, _ in raws])]
    nviol = 0
    for (text, expect, items), impl, model in zip(raws, rimpl, rmodel):
        rep.case({'text': text}, nontrivial=text.count('\n') >= 3, stream='counter_raw')
        got = impl.get('err') or 'Returned'
        mgot = model.get('err') or 'Returned'
        rep.count('raw_expect:%s' % expect)
        rep.count('raw_impl_eq_model' if (got == mgot and impl.get('loaded') == model.get('loaded'))
                  else 'raw_impl_ne_model(%s)' % ('informational' if expect is None else 'checked'))
        prob = None
        if expect == 'content':
            want = [[k, n] for k, n in items]
            if impl.get('loaded') != want:
                prob = 'a well-formed counter file did not load to its content: %s' % (impl.get('loaded') if 'loaded' in impl else got)
            elif model.get('loaded') != want:
                prob = 'model loadCounter disagrees on a well-formed file: %s' % json.dumps(model)[:200]
        elif expect == 'ValueError':
            if got != 'Raised:Value':
                prob = 'a counter file with a repeated key was accepted (%s)' % got
            elif mgot != 'Raised:Value':
                prob = 'model accepts a file with a repeated key'
        if prob and nviol < 2:
            nviol += 1
            rep.violation({'what': prob, 'input': {'file_text': text},
                           'observed': {k: impl.get(k) for k in ('err', 'cls', 'msg', 'loaded') if k in impl},
                           'expected': 'ValueError' if expect == 'ValueError' else {'loaded': items},
                           'python': "from pyndl import count\nopen('c.tab','wb').write(%r)\nprint(count.load_counter('c.tab'))"
                                     % text.encode('utf-8'),
                           'theorem_or_stream': 'C20 counter_raw: load_counter vs Pyndl.Band.loadCounter'})
