"""
C16 — run metadata is truthful, accumulates per call and survives netCDF.
Real chains of 1-4 learner calls (ndl.ndl threading/openmp; dict_ndl with
DataArray hand-over and make_data_array=True; wh.wh real_to_real / cue_vectors
only / outcome_vectors only; dict_wh), the weights object handed from call to
call, different event files (different lengths), parameters and methods, labels
incl. non-ASCII and the empty-string outcome.  After EVERY call the attrs of the
returned weights are compared with the Lean model `Pyndl.Attrs.runOps`
(PyndlModel/Attrs.lean; theorems entries_count, entries_count_mixed,
split_join, reports_call, pad_strip in PyndlProps/C16.lean): same key set; for
event_path, number_events, alpha, betas, lambda, function, method the list of
entries (Python `split(' | ')` + `rstrip(' ')` vs the model's `splitBar` +
`rstrip`) must be equal, entry by entry, and - where the width is predictable
(every learner but dict_ndl, whose width contains the repr of a defaultdict) -
also the padded entry; for date, cpu_time, wall_time, hostname, username and the
version keys only the NUMBER of entries.  Independently of the model the
property predicate itself is evaluated: k entries per key after k calls,
number_events entry i = number of events of file i, event_path entry i = the
path passed to call i.
netCDF: `save_load` steps (`to_netcdf` then `xr.open_dataarray(...).load()`,
file closed) at random chain positions: values bit-identical, dims, coordinate
labels (order and type), attrs and name identical before/after; the next call
is run from BOTH the loaded and the never-saved object: values bit-identical,
entry lists identical.  netCDF4/HDF5/xarray are NOT modelled in Lean (the model
takes the round trip to be the identity, theorem save_load_identity): this
clause of C16 is decided ONLY by this differential run.
Truthfulness THROUGH THE LEARNER MODEL: for the leading ndl.ndl calls of every
chain (save_load steps in between are the identity in the model) the driver op
`ndl_chain_meta` runs `ndlChainMeta` (PyndlProofs/AttrsNdl.lean, the subject of
`ndl_chain_reports`; driver copy `ndlChainMetaD`, proved equal in
PyndlProofs/DriverBridge.lean) on the EVENTS of the files and the parameters of
the calls: `number_events` is then the count the learner model `ndlCall`
returns, not a string computed here; every entry of every exact key is compared
with the real attrs as for `attrs_chain` (problems prefixed `ndl_chain_meta:`).
Stream `mixed_keysets` (dict_wh / dict_ndl chains over WeightDicts, the only
way the public API mixes the two key sets) is compared with the model only: a
key first written by call j >= 3 has k-j+2 entries in code and model alike
(PyndlProps/C16.lean late_key_counterexample).
"""
import ast
import copy
from fractions import Fraction

import gen
from common import rng

TIMEOUT = 120

TRUSTED = [
    "Python's str() of floats, ints and tuples, len() of str and socket.gethostname()/getpass.getuser() are Python-supplied: "
    "the harness hands the model the strings str(alpha), str(betas), str(lambda_), str(method), str(number of events), the path "
    "passed, hostname and username; the model only pads, joins, splits and strips them",
    "partial: netCDF4/HDF5/xarray serialisation is not modelled; 'to_netcdf then open_dataarray().load() is the identity on "
    "values, coords, dims, attrs' and 'learning continues identically from the loaded weights' are decided only by this "
    "differential run (save_load steps), not by a theorem",
    "str.split(' | ') and str.rstrip(' ') on the Python side are tied to the model's splitBar/rstrip only by the per-entry comparison",
    "date, cpu_time, wall_time, hostname, username and version attributes are compared by number of entries only",
    "dict_ndl: the padding width contains len(repr(defaultdict)) and is not predicted; its entries are compared stripped",
    "ndl.ndl with generator input reports the path of its temporary spool file; that entry is compared by position only",
]
ASSUMPTIONS = [
    "no supplied value contains the character '|' (hypothesis of split_join / entries_count) or ends in a space (pad_strip); "
    "the generators respect this",
    "entries_count (k entries for every key present) is stated for chains within one key set; for mixed chains see "
    "entries_count_mixed / entries_late and the recorded late_key_counterexample",
]

EXACT = ('event_path', 'number_events', 'alpha', 'betas', 'lambda', 'function', 'method')
FILE_NAMES = ['e.tab.gz', 'ev1.tab.gz', 'events_two.tab.gz', 'ä-雪.tab.gz', 'my events.tab.gz',
              'a-rather-long-event-file-name-0123456789.tab.gz', 'x.gz', 'Ereignisse(3).tab.gz']
ALPHAS = ['0.5', '0.25', '0.1', '0.01', '1e-05', '0.125', '1', '0.30000000000000004']
BETAS = ['0.5', '0.25', '0.1', '0.2', '0.125', '1', '0.001']
LAMBDAS = ['1.0', '1', '2.0', '0.5', '1.5', '100.0']
ETAS = ['0.25', '0.5', '0.125', '0.1', '0.01', '1e-05', '1']
VEC = ['0', '1', '1/2', '1/4', '-1', '3/4', '-1/2']


def lit(s):
    return ast.literal_eval(s)


def fl_alpha(r):
    """dict_ndl needs a float alpha (an int is taken for a dict)"""
    return r.choice([a for a in ALPHAS if isinstance(lit(a), float)])


def make_files(r, k, cues, outs, single=False, empty_out=0.2):
    names = r.sample(FILE_NAMES, k)
    lens = r.sample(range(1, 13), k)
    files = []
    for name, n in zip(names, lens):
        es = []
        for _ in range(n):
            if single:
                es.append([[r.choice(cues)], [r.choice(outs)]])
            else:
                e = gen.event(r, cues=cues, outs=outs, max_cues=min(3, len(cues)), max_outs=min(2, len(outs)),
                              empty_out=empty_out)
                es.append(e)
        f = {'name': name, 'events': es}
        if r.random() < 0.3:
            # a third (frequency) column 0..3, zeros included, never all zero: the file then MEANS n_meant(f) events,
            # and that is what number_events must report
            f['freq'] = gen.freqs(r, n)
        files.append(f)
    return files


def n_meant(f):
    """the number of events a file means: its lines, each repeated by its frequency (if it has that column)"""
    return len(f['events']) if f.get('freq') is None else sum(f['freq'])


PER_FILE = [None, None, 2, 2, 3]     # events_per_temporary_file of ndl.ndl / wh.wh: None = not passed (10000000)


def table(r, labels, dims):
    return {'labels': list(labels), 'dims': list(dims),
            'vals': [[r.choice(VEC) for _ in dims] for _ in labels]}


def with_saves(r, steps, p=0.4):
    """insert save_load after DataArray-producing calls"""
    out = []
    for s in steps:
        out.append(s)
        produces_da = s['learner'] not in ('dict_ndl', 'dict_wh') or s.get('make_data_array')
        if produces_da and r.random() < p:
            out.append({'kind': 'save_load'})
    return out


def chain_rw(r, k):
    files = make_files(r, k, gen.CUES, gen.OUTS)
    steps = []
    kinds = [r.choice(['ndl', 'ndl', 'dict_ndl']) for _ in range(k)]
    for i in range(k):
        b1 = r.choice(BETAS)
        b2 = r.choice(BETAS)
        if kinds[i] == 'ndl':
            s = {'kind': 'call', 'learner': 'ndl', 'file': i, 'alpha': r.choice(ALPHAS), 'beta1': b1, 'beta2': b2,
                 'lambda': r.choice(LAMBDAS), 'method': r.choice(['threading', 'openmp']),
                 'n_jobs': r.choice([1, 2, 3]), 'per_job': r.choice([1, 2, 10]),
                 'form': 'generator' if r.random() < 0.08 else 'path'}
            if s['form'] == 'path' and r.random() < 0.3:
                s['form'] = 'pathobj'       # a pathlib.Path: the event_path entry must be str(path)
            s['per_file'] = r.choice(PER_FILE)
        else:
            nxt_dict = i + 1 < k and kinds[i + 1] == 'dict_ndl'
            s = {'kind': 'call', 'learner': 'dict_ndl', 'file': i, 'alpha': fl_alpha(r), 'beta1': b1, 'beta2': b2,
                 'lambda': r.choice(LAMBDAS), 'form': r.choice(['path', 'path', 'list', 'generator']),
                 'make_data_array': not (nxt_dict and r.random() < 0.5)}
        steps.append(s)
    return {'stream': 'rw', 'files': files, 'steps': with_saves(r, steps), 'uniform': True,
            'relative_paths': r.random() < 0.5}


def chain_wh(r, k, flavour):
    cues = r.sample(gen.CUES, 4)
    outs = r.sample(gen.OUTS, 3)
    empty = r.random() < 0.5
    single = flavour == 'wh_r2r' and r.random() < 0.5
    case = {'stream': flavour, 'uniform': True, 'relative_paths': r.random() < 0.5}
    ev_cues, ev_outs = cues, outs
    if flavour in ('wh_r2r', 'wh_r2b'):
        case['cue_vectors'] = table(r, cues, ['d0', 'd1'] if r.random() < 0.6 else ['d0', 'd1', 'dä'])
    else:
        ev_cues = gen.CUES
    if flavour in ('wh_r2r', 'wh_b2r'):
        labels = outs + ([''] if empty else [])
        case['outcome_vectors'] = table(r, labels, ['o0', 'o1', 'o2'] if r.random() < 0.6 else ['o0', 'ö1'])
        empty_out = 0.2 if empty else 0.0
    else:
        ev_outs = gen.OUTS
        empty_out = 0.2
    case['files'] = make_files(r, k, ev_cues, ev_outs, single=single, empty_out=empty_out)
    steps = []
    for i in range(k):
        methods = ['openmp', 'numpy'] if single else ['openmp']
        steps.append({'kind': 'call', 'learner': flavour, 'file': i, 'eta': r.choice(ETAS),
                      'method': r.choice(methods), 'n_jobs': r.choice([1, 2]), 'per_file': r.choice(PER_FILE)})
    case['steps'] = with_saves(r, steps)
    return case


def chain_dict_wh(r, k):
    cues = r.sample(gen.CUES, 3)
    outs = r.sample(gen.OUTS, 2)
    case = {'stream': 'dict_wh', 'uniform': True, 'relative_paths': r.random() < 0.5,
            'cue_vectors': table(r, cues, ['d0', 'd1']), 'outcome_vectors': table(r, outs, ['o0', 'o1']),
            'files': make_files(r, k, cues, outs, single=True)}
    steps = [{'kind': 'call', 'learner': 'dict_wh', 'file': i, 'eta': r.choice(ETAS),
              'form': r.choice(['path', 'list']), 'make_data_array': (i == k - 1 and r.random() < 0.6)}
             for i in range(k)]
    case['steps'] = with_saves(r, steps, p=0.7)
    return case


def chain_mixed(r, pattern):
    cues = ['d0', 'd1', 'a']
    outs = ['o0', 'o1', 'x']
    case = {'stream': 'mixed_keysets', 'uniform': False, 'relative_paths': r.random() < 0.5,
            'cue_vectors': table(r, ['a', 'b'], ['d0', 'd1']), 'outcome_vectors': table(r, ['x', 'y'], ['o0', 'o1'])}
    whf = make_files(r, len(pattern), ['a', 'b'], ['x', 'y'], single=True)
    ndf = make_files(r, len(pattern), cues, outs)
    files, steps = [], []
    for i, l in enumerate(pattern):
        if l == 'dict_wh':
            files.append(whf[i])
            steps.append({'kind': 'call', 'learner': 'dict_wh', 'file': i, 'eta': r.choice(ETAS),
                          'form': 'path', 'make_data_array': False})
        else:
            f = dict(ndf[i])
            f['name'] = whf[i]['name']
            files.append(f)
            steps.append({'kind': 'call', 'learner': 'dict_ndl', 'file': i, 'alpha': fl_alpha(r),
                          'beta1': r.choice(BETAS), 'beta2': r.choice(BETAS), 'lambda': r.choice(LAMBDAS),
                          'form': 'path', 'make_data_array': False})
    case['files'] = files
    case['steps'] = steps
    return case


def cases(tier):
    r = rng('C16')
    q = tier == 'quick'
    out = []
    for i in range(40 if q else 900):
        out.append(chain_rw(r, [1, 2, 3, 4][i % 4] if i < 8 else r.choice([2, 3, 3, 4, 4])))
    for flavour, n in (('wh_r2r', 12 if q else 300), ('wh_b2r', 6 if q else 120), ('wh_r2b', 6 if q else 120)):
        for i in range(n):
            out.append(chain_wh(r, r.choice([1, 2, 3, 4]), flavour))
    for i in range(5 if q else 90):
        out.append(chain_dict_wh(r, r.choice([1, 2, 3])))
    pats = [['dict_wh', 'dict_wh', 'dict_ndl'], ['dict_ndl', 'dict_wh'], ['dict_wh', 'dict_ndl', 'dict_wh'],
            ['dict_ndl', 'dict_wh', 'dict_ndl', 'dict_wh'], ['dict_wh', 'dict_wh', 'dict_wh', 'dict_ndl']]
    for i in range(5 if q else 60):
        out.append(chain_mixed(r, pats[i % len(pats)]))
    return out


def impl_task(case):
    t = {'op': 'attrs_chain', 'files': case['files'], 'steps': case['steps'],
         'relative_paths': case.get('relative_paths', False), '_timeout': TIMEOUT}
    for k in ('cue_vectors', 'outcome_vectors'):
        if case.get(k) is not None:
            t[k] = case[k]
    return t


def model_request(case, impl):
    """the strings each call supplied, as Python prints them"""
    ops = []
    isteps = impl.get('steps', [])
    for si, s in enumerate(case['steps']):
        if s['kind'] == 'save_load':
            ops.append({'kind': 'save_load'})
            continue
        ist = isteps[si] if si < len(isteps) else {}
        l = s['learner']
        n = n_meant(case['files'][s['file']])
        o = {'kind': 'call', 'learner': l, 'number_events': str(n),
             'path': ist.get('passed_path') if s.get('form', 'path') in ('path', 'pathobj') else None,
             'method': str(s.get('method'))}
        if l in ('ndl', 'dict_ndl'):
            a = lit(s['alpha'])
            o['alpha_scalar'] = isinstance(a, (int, float))
            o['alpha_repr'] = str(a)
            o['betas'] = str((lit(s['beta1']), lit(s['beta2'])))
            o['lambda'] = str(lit(s['lambda']))
        elif l == 'wh_r2b':
            e = lit(s['eta'])
            o['betas'] = str((e, e))      # wh.py:141
            o['lambda'] = str(1.0)        # wh.py:140
        else:
            o['lambda'] = str(lit(s['eta']))
        ops.append(o)
    return {'op': 'attrs_chain', 'hostname': impl.get('hostname', ''), 'username': impl.get('username', ''),
            'ops': ops}


def ndl_prefix(case):
    """indices of the steps that form the leading run of ndl.ndl calls (save_load steps in between included)"""
    idx = []
    for si, s in enumerate(case['steps']):
        if s['kind'] == 'save_load':
            if idx:
                idx.append(si)
            continue
        if s['learner'] != 'ndl':
            break
        idx.append(si)
    while idx and case['steps'][idx[-1]]['kind'] == 'save_load':
        idx.pop()
    return idx


def _q(s):
    f = Fraction(lit(s))
    return '%d/%d' % (f.numerator, f.denominator)


def ndl_meta_request(case, impl):
    """driver op ndl_chain_meta for the leading ndl.ndl calls: the EVENTS each file means and the numbers /
    str() forms each call got; None when the chain does not start with ndl.ndl"""
    idx = ndl_prefix(case)
    if not idx:
        return None
    isteps = impl.get('steps', [])
    runs = []
    for si in idx:
        s = case['steps'][si]
        if s['kind'] == 'save_load':
            continue
        ist = isteps[si] if si < len(isteps) else {}
        f = case['files'][s['file']]
        a = lit(s['alpha'])
        runs.append({'path': (ist.get('passed_path') or '') if s.get('form', 'path') in ('path', 'pathobj') else '',
                     'events': gen.file_norm(gen.expand(f['events'], f.get('freq'))),
                     'policy': 'error', 'method': s['method'], 'per_job': int(s.get('per_job', 10)),
                     'per_file': 10000000 if s.get('per_file') is None else int(s['per_file']),
                     'alpha': _q(s['alpha']), 'beta1': _q(s['beta1']), 'beta2': _q(s['beta2']), 'lambda': _q(s['lambda']),
                     'alpha_repr': str(a), 'betas': str((lit(s['beta1']), lit(s['beta2']))),
                     'lambda_repr': str(lit(s['lambda']))})
    return {'op': 'ndl_chain_meta', 'hostname': impl.get('hostname', ''), 'username': impl.get('username', ''), 'runs': runs}


def compare_ndl_meta(case, impl, meta):
    """the real attrs of the leading ndl.ndl calls against `ndlChainMeta` (count from the learner model)"""
    idx = ndl_prefix(case)
    if meta is None or not idx or 'err' in impl:
        return []
    steps = [None] * (idx[-1] + 1)
    runs = iter(meta['steps'])
    probs = []
    cut = idx[-1] + 1
    for si in idx:
        if case['steps'][si]['kind'] == 'save_load':
            continue
        m = next(runs)
        if m is not None and 'err' in m:
            ist = impl['steps'][si] if si < len(impl['steps']) else {}
            if ist.get('err') != m['err']:
                probs.append((si, 'ndlChainMeta predicts %s, implementation %s' % (m['err'], ist.get('err', 'returned'))))
            cut = si
            break
        if m is not None:
            m = {k: v for k, v in m.items() if k != 'n_events'}
        steps[si] = m
    sub = dict(case, steps=case['steps'][:cut])
    probs += compare(sub, dict(impl, steps=impl['steps'][:cut]), {'steps': steps[:cut]}) if cut else []
    return [(si, 'ndl_chain_meta: ' + d) for si, d in probs if not d.startswith('netCDF') and 'loaded weights' not in d]


def unpredictable_width(step):
    return step['learner'] == 'dict_ndl' or (step['learner'] == 'ndl' and step.get('form') == 'generator')


def compare(case, impl, model):
    """list of (step index, description) disagreements; empty = agree"""
    probs = []
    if 'err' in impl:
        return [(0, 'implementation task failed: %s %s' % (impl['err'], impl.get('msg', '')))]
    isteps = impl['steps']
    call_steps = []          # the call steps so far (for per-slot facts)
    for si, s in enumerate(case['steps']):
        if si >= len(isteps):
            probs.append((si, 'implementation stopped before step %d' % si))
            break
        ist = isteps[si]
        if 'err' in ist:
            probs.append((si, 'model predicts a result, implementation raised %s: %s' % (ist.get('cls'), ist.get('msg', '')[:200])))
            break
        if s['kind'] == 'save_load':
            if 'skipped' in ist:
                continue
            rp = ist['save_load']
            for k in ('values_bit_identical', 'dims_equal', 'coords_equal', 'attrs_equal', 'name_equal'):
                if not rp.get(k):
                    probs.append((si, 'netCDF round trip is not the identity: %s is False (%s)' % (k, rp.get('detail'))))
            continue
        call_steps.append(s)
        k = len(call_steps)
        a = ist['attrs']
        m = model['steps'][si]
        if m is None:
            probs.append((si, 'model has no attrs'))
            continue
        if set(a) != set(m):
            probs.append((si, 'attribute keys differ: only in implementation %r, only in model %r'
                          % (sorted(set(a) - set(m)), sorted(set(m) - set(a)))))
        for key in sorted(set(a) & set(m)):
            if not isinstance(a[key], str):
                probs.append((si, 'attribute %s is not a str' % key))
                continue
            raw = a[key].split(' | ')
            ent = [e.rstrip(' ') for e in raw]
            ment = m[key]['entries']
            mraw = m[key]['stored'].split(' | ')
            if len(ent) != len(ment):
                probs.append((si, '%s has %d entries after %d calls, model %d: %r' % (key, len(ent), k, len(ment), a[key][:200])))
                continue
            if case.get('uniform') and len(ent) != k:
                probs.append((si, 'PROPERTY: %s has %d entries after %d calls' % (key, len(ent), k)))
            if key not in EXACT:
                continue
            aligned = len(ent) == k
            for j in range(len(ent)):
                cs = call_steps[j] if aligned else None
                if cs is not None and key == 'event_path' and cs['learner'] == 'ndl' and cs.get('form') == 'generator':
                    continue
                if ent[j] != ment[j]:
                    probs.append((si, '%s entry %d is %r, model %r' % (key, j, ent[j], ment[j])))
                elif cs is not None and not unpredictable_width(cs) and len(mraw) == len(raw) and raw[j] != mraw[j]:
                    probs.append((si, '%s entry %d padded to %d, model %d (width rule)' % (key, j, len(raw[j]), len(mraw[j]))))
        # the property predicate itself, without the model
        if case.get('uniform'):
            ne = [e.rstrip(' ') for e in str(a.get('number_events', '')).split(' | ')]
            want = [str(n_meant(case['files'][cs['file']])) for cs in call_steps]
            if ne != want:
                probs.append((si, 'PROPERTY: number_events entries %r, events in the files %r' % (ne, want)))
            if s.get('form', 'path') in ('path', 'pathobj'):
                ep = str(a.get('event_path', '')).split(' | ')[-1].rstrip(' ')
                if ep != ist.get('passed_path'):
                    probs.append((si, 'PROPERTY: event_path entry %r, path passed %r' % (ep, ist.get('passed_path'))))
        if 'continued' in ist:
            c = ist['continued']
            if not c.get('values_bit_identical'):
                probs.append((si, 'learning from the loaded weights differs from learning from the unsaved weights: %r' % (c.get('first_diff'),)))
            if not c.get('entries_identical'):
                probs.append((si, 'attrs after continuing from the loaded weights differ: %r' % (c.get('entry_diff'),)))
    # earliest step first; within a step the width-rule remarks last
    probs.sort(key=lambda p: (p[0], '(width rule)' in p[1]))
    return probs


def compare_all(case, impl, model, meta):
    probs = compare(case, impl, model) + compare_ndl_meta(case, impl, meta)
    probs.sort(key=lambda p: (p[0], '(width rule)' in p[1]))
    return probs


def evaluate(pool, driver, case):
    impl = pool.map([impl_task(case)])[0]
    model = driver.ask([model_request(case, impl)])[0]
    mq = ndl_meta_request(case, impl)
    meta = driver.ask([mq])[0] if mq is not None else None
    return compare_all(case, impl, model, meta), impl, model


def shrink(pool, driver, case, first_bad, budget=14):
    """greedy: cut behind the failing step, drop save_loads and earlier calls, shorten files"""
    cur = copy.deepcopy(case)
    cur['steps'] = cur['steps'][:first_bad + 1]
    used = 0

    def still(c):
        nonlocal used
        used += 1
        p, _, _ = evaluate(pool, driver, c)
        return bool(p)

    if not still(cur):
        return copy.deepcopy(case), used
    changed = True
    while changed and used < budget:
        changed = False
        for i in range(len(cur['steps']) - 1, -1, -1):
            if used >= budget or len(cur['steps']) <= 1:
                break
            c = copy.deepcopy(cur)
            del c['steps'][i]
            if not any(s['kind'] == 'call' for s in c['steps']):
                continue
            if still(c):
                cur = c
                changed = True
        for fi in range(len(cur['files'])):
            if used >= budget or len(cur['files'][fi]['events']) <= 1:
                continue
            for keep in (1, 2, 4):
                if used >= budget or keep >= len(cur['files'][fi]['events']):
                    break
                c = copy.deepcopy(cur)
                c['files'][fi]['events'] = c['files'][fi]['events'][:keep]
                if c['files'][fi].get('freq') is not None:
                    fr = c['files'][fi]['freq'][:keep]
                    c['files'][fi]['freq'] = fr if any(fr) else [1] + fr[1:]
                if still(c):
                    cur = c
                    changed = True
                    break
        for fi in range(len(cur['files'])):
            if used < budget and cur['files'][fi].get('freq') is not None:
                c = copy.deepcopy(cur)
                del c['files'][fi]['freq']
                if still(c):
                    cur = c
                    changed = True
        for i, st in enumerate(cur['steps']):
            for k, v in (('per_file', None), ('form', 'path')):
                if used < budget and st.get('kind') == 'call' and st.get(k) not in (None, v) and (k != 'form' or st[k] == 'pathobj'):
                    c = copy.deepcopy(cur)
                    c['steps'][i][k] = v
                    if still(c):
                        cur = c
                        changed = True
    # drop files no call refers to any more
    used_files = sorted({s['file'] for s in cur['steps'] if s['kind'] == 'call'})
    remap = {old: new for new, old in enumerate(used_files)}
    cur['files'] = [cur['files'][i] for i in used_files]
    for s in cur['steps']:
        if s['kind'] == 'call':
            s['file'] = remap[s['file']]
    return cur, used


def python_snippet(case):
    lines = ['# files written with the documented text format (cues\\toutcomes, "_"-joined), names/events:']
    for f in case['files']:
        lines.append('#   %r: %r%s' % (f['name'], f['events'][:4], '' if f.get('freq') is None else '  third column (frequency): %r' % (f['freq'],)))
    lines.append('w = None')
    for s in case['steps']:
        if s['kind'] == 'save_load':
            lines.append("w.to_netcdf('w.nc'); w = xr.open_dataarray('w.nc').load()")
            continue
        f = case['files'][s['file']]['name']
        l = s['learner']
        per = '' if s.get('per_file') is None else ', events_per_temporary_file=%d' % s['per_file']
        if l == 'ndl':
            lines.append("w = ndl.ndl(%s, %s, (%s, %s), %s, method=%r, weights=w%s)  # form=%s"
                         % ('pathlib.Path(%r)' % f if s.get('form') == 'pathobj' else repr(f), s['alpha'], s['beta1'], s['beta2'],
                            s['lambda'], s['method'], per, s.get('form')))
        elif l == 'dict_ndl':
            lines.append("w = ndl.dict_ndl(%r, %s, (%s, %s), %s, weights=w, make_data_array=%r)  # form=%s"
                         % (f, s['alpha'], s['beta1'], s['beta2'], s['lambda'], s.get('make_data_array', True), s.get('form')))
        elif l == 'dict_wh':
            lines.append("w = wh.dict_wh(%r, %s, cue_vectors, outcome_vectors, weights=w, make_data_array=%r)"
                         % (f, s['eta'], s.get('make_data_array', False)))
        else:
            kw = {'wh_r2r': 'cue_vectors=cv, outcome_vectors=ov', 'wh_b2r': 'outcome_vectors=ov', 'wh_r2b': 'cue_vectors=cv'}[l]
            lines.append("w = wh.wh(%r, %s, %s, method=%r, weights=w%s)" % (f, s['eta'], kw, s['method'], per))
    lines.append("print({k: [e.rstrip(' ') for e in v.split(' | ')] for k, v in w.attrs.items()})")
    return '\n'.join(lines)


def describe(case):
    return {'stream': case['stream'], 'files': [(f['name'], len(f['events']), f.get('freq')) for f in case['files']],
            'steps': [(s.get('learner', 'save_load'), s.get('method'), s.get('form'), s.get('per_file')) for s in case['steps']]}


def run(rep, pool, driver, tier):
    import bridge
    bridge.check_bridges(rep)       # driver copies = the definitions of the theorems; TR.v commutes
    cs = cases(tier)
    impls = pool.map([impl_task(c) for c in cs])
    models = driver.ask([model_request(c, i) for c, i in zip(cs, impls)])
    mreqs = [ndl_meta_request(c, i) for c, i in zip(cs, impls)]
    mreps = iter(driver.ask([q for q in mreqs if q is not None]))
    metas = [next(mreps) if q is not None else None for q in mreqs]
    failures = []
    for c, impl, model, meta in zip(cs, impls, models, metas):
        calls = [s for s in c['steps'] if s['kind'] == 'call']
        saves = len(c['steps']) - len(calls)
        rep.case(describe(c) | {'files_events': [f['events'] for f in c['files']]}, nontrivial=len(calls) >= 2,
                 stream=c['stream'])
        rep.count('chain_length:%d' % len(calls))
        rep.count('save_load_steps', saves)
        rep.count('paths:' + ('relative' if c.get('relative_paths') else 'absolute'))
        for s in calls:
            rep.count('learner:' + s['learner'] + ('/' + s['method'] if s.get('method') else ''))
            if s.get('form') in ('list', 'generator'):
                rep.count('non_path_input:' + s['learner'])
            if s['learner'] == 'ndl':
                rep.count('ndl_events_form:%s' % s.get('form', 'path'))
            f = c['files'][s['file']]
            nm = n_meant(f)
            chunks = 1 if s.get('per_file') is None else (nm + s['per_file'] - 1) // s['per_file']
            rep.count('call_file:%s/%s' % ('freq column' if f.get('freq') is not None else 'no freq column',
                                           'chunking not applicable' if s['learner'] in ('dict_ndl', 'dict_wh') or s.get('method') == 'numpy'
                                           else '1 chunk file' if chunks == 1 else '2-10 chunk files' if chunks <= 10 else '>=11 chunk files'))
        for st in impl.get('steps', []):
            if 'labels' in st:
                if '' in st['labels']:
                    rep.count('results_with_empty_string_label')
                if any(ord(ch) > 127 for lab in st['labels'] for ch in lab):
                    rep.count('results_with_non_ascii_label')
            if 'continued' in st:
                rep.count('continued_from_loaded_and_unsaved')
            if 'attrs' in st:
                ev = st['attrs'].get('number_events', '')
                rep.count('width:%s' % ('19' if len(ev.split(' | ')[-1]) == 19 else '>19'))
        if meta is not None:
            rep.count('ndl_chain_meta:chains')
            rep.count('ndl_chain_meta:calls', len(meta['steps']))
            rep.count('ndl_chain_meta:prefix_len:%d' % len(meta['steps']))
            for m in meta['steps']:
                rep.count('ndl_chain_meta:' + ('raises' if m is not None and 'err' in m else 'returns'))
        probs = compare_all(c, impl, model, meta)
        if probs:
            failures.append((c, probs, impl, model))
        elif len(calls) >= 3:
            last = [st for st in impl['steps'] if 'attrs' in st][-1]
            li = max(i for i, s in enumerate(c['steps']) if s['kind'] == 'call')
            rep.sample({'case': describe(c),
                        'impl_entries': {k: [e.rstrip(' ') for e in last['attrs'][k].split(' | ')]
                                         for k in EXACT if k in last['attrs']},
                        'model_entries': {k: v['entries'] for k, v in model['steps'][li].items() if k in EXACT}})
    for c, probs, impl, model in failures[:3]:
        small, used = shrink(pool, driver, c, probs[0][0])
        p2, impl2, model2 = evaluate(pool, driver, small)
        if not p2:
            small, p2, impl2, model2 = c, probs, impl, model
        si = p2[0][0]
        ist = impl2['steps'][si] if si < len(impl2.get('steps', [])) else impl2
        rep.violation({'what': [d for _, d in p2][:6], 'input': {k: v for k, v in small.items()},
                       'observed': {'attrs': ist.get('attrs'), 'save_load': ist.get('save_load'),
                                    'continued': ist.get('continued'), 'err': ist.get('err'), 'msg': ist.get('msg')},
                       'expected': {k: v for k, v in (model2['steps'][si] or {}).items() if k in EXACT}
                       if si < len(model2.get('steps', [])) and isinstance(model2['steps'][si], dict) else None,
                       'python': python_snippet(small),
                       'theorem_or_stream': ('correspondence attrs_chain/%s vs Pyndl.ndlChainMeta (C16 ndl_chain_reports: the count of '
                                             'the learner model)' if p2[0][1].startswith('ndl_chain_meta') else
                                             'correspondence attrs_chain/%s vs Pyndl.Attrs.runOps (C16: entries_count, reports_call, '
                                             'split_join); netCDF clauses: differential only') % c['stream'],
                       'shrunk_from_steps': len(c['steps']), 'shrink_evaluations': used})
    rep.extra['failures_total'] = len(failures)
    rep.extra['partial'] = 'netCDF round trip and continuation from loaded weights: differential run only (not modelled)'


def replay(rep, pool, driver, data):
    case = data['input']
    probs, impl, model = evaluate(pool, driver, case)
    rep.case(describe(case), stream='replay')
    if probs:
        rep.violation({'what': [d for _, d in probs][:6], 'input': case, 'python': python_snippet(case),
                       'theorem_or_stream': 'replay'})
