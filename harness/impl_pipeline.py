"""
C15 implementation op: the whole public pipeline on one corpus in one process:
create_event_file -> filter_event_file -> cues_outcomes -> ndl.ndl / dict_ndl ->
activation, every intermediate artefact returned.

op `pipeline_writer`: the second head of the statement ("... or the event
writer"): events -> io.events_to_file(container, compression, compatible) ->
io.events_from_file -> cues_outcomes -> ndl.ndl / dict_ndl -> activation.  A
gzip file is handed to every consumer as its path.  A plain file
(compression=None) can only be read by io.events_from_file(compression=None)
- the counter and the learners document a *gzipped* event file - so there the
consumers get the reader's generator and the counting stage is skipped.
"""
import contextlib
import gzip
import io as _io
import os
import shutil
import tempfile

import numpy as np

import impl
from impl import fl, rat, POLICY, da_to_result, dict_to_result
import impl_create
from pyndl import preprocess, count, ndl, activation, io


def _lines(path):
    with gzip.open(path, 'rt', encoding='utf-8', newline='\n') as f:
        text = f.read()
    ls = text.split('\n')
    if ls and ls[-1] == '':
        ls = ls[:-1]
    return ls


def _side(side, which):
    side = side or {}
    kw = {}
    if side.get('keep') is not None:
        kw['keep_' + which] = list(side['keep'])
    if side.get('remove') is not None:
        kw['remove_' + which] = list(side['remove'])
    if side.get('map') is not None:
        kw[which[:-1] + '_map'] = {k: v for k, v in side['map']}
    return kw


def op_pipeline(t):
    # X1: with t['verbose'] every stage that has the flag gets verbose=True (output captured in memory)
    with contextlib.redirect_stdout(_io.StringIO()):
        return _pipeline(t, {'verbose': True} if t.get('verbose') else {})


def _pipeline(t, vkw):
    d = tempfile.mkdtemp(prefix='c15-', dir=os.getcwd())
    try:
        c = t['create']
        corpus = os.path.join(d, 'corpus.txt')
        ev = os.path.join(d, 'events.tab.gz')
        flt = os.path.join(d, 'filtered.tab.gz')
        with open(corpus, 'w', encoding='utf-8', newline='\n') as f:
            f.write('\n'.join(c['lines']) + ('\n' if c.get('trailing_newline', True) else ''))
        kw = dict(allowed_symbols=impl_create.allowed_arg(c['allowed']), context_structure=c['context'],
                  event_structure=c['event'], cue_structure=c['cue'], lower_case=bool(c['lower_case']),
                  remove_duplicates=bool(c['remove_duplicates']))
        if c.get('options') is not None:
            kw['event_options'] = tuple(c['options'])
        res = {'stage': 'create'}
        try:
            preprocess.create_event_file(corpus, ev, **kw, **vkw)
            res['event_lines'] = _lines(ev)
            res['stage'] = 'filter'
            fk = {}
            fk.update(_side(t['filter'].get('cues'), 'cues'))
            fk.update(_side(t['filter'].get('outcomes'), 'outcomes'))
            preprocess.filter_event_file(ev, flt, n_jobs=int(t['filter'].get('n_jobs', 1)),
                                         chunksize=int(t['filter'].get('chunksize', 100000)), **fk, **vkw)
            res['filtered_lines'] = _lines(flt)
            res['stage'] = 'count'
            n, cues, outs = count.cues_outcomes(flt, n_jobs=int(t.get('count_jobs', 2)), **vkw)
            res['n_events'] = n
            res['cue_counts'] = sorted(cues.items())
            res['outcome_counts'] = sorted(outs.items())
            res['stage'] = 'learn'
            L = t['learn']
            pol = POLICY[L['policy']]
            if n == 0:
                res['stage'] = 'done_empty'
                return res
            if L['learner'] == 'dict_ndl':
                w = ndl.dict_ndl(flt, fl(L['alpha']), (fl(L['beta1']), fl(L['beta2'])), fl(L['lambda']),
                                 remove_duplicates=pol, make_data_array=True, **vkw)
            else:
                w = ndl.ndl(flt, fl(L['alpha']), (fl(L['beta1']), fl(L['beta2'])), fl(L['lambda']),
                            method=L['learner'][4:], n_jobs=int(L.get('n_jobs', 2)),
                            n_outcomes_per_job=int(L.get('per_job', 10)), remove_duplicates=pol,
                            events_per_temporary_file=int(L.get('per_file', 10000000)), **vkw)
            res['weights'] = da_to_result(w)
            res['number_events_attr'] = w.attrs['number_events'].strip()
            res['stage'] = 'activation'
            a = activation.activation(flt, w, n_jobs=int(t.get('act_jobs', 1)), remove_duplicates=True)
            vals = np.asarray(a.values)
            res['activation_outcomes'] = [str(x) for x in a.coords['outcomes'].values.tolist()]
            res['activations'] = [[rat(vals[i, e]) for i in range(vals.shape[0])] for e in range(vals.shape[1])]
            res['stage'] = 'done'
        except Exception as e:  # noqa
            r = impl.err(e)
            res.update(r)
        return res
    finally:
        shutil.rmtree(d, ignore_errors=True)


def _container(kind, events):
    if kind == 'lists':
        return [[list(c), list(o)] for c, o in events]
    if kind == 'tuples':
        return tuple((list(c), list(o)) for c, o in events)
    if kind == 'strings':
        return [['_'.join(c), '_'.join(o)] for c, o in events]
    if kind == 'generator':
        return ((list(c), list(o)) for c, o in events)
    if kind == 'dataframe':
        import pandas as pd
        return pd.DataFrame({'cues': ['_'.join(c) for c, _ in events], 'outcomes': ['_'.join(o) for _, o in events]},
                            columns=['cues', 'outcomes'], dtype=object)
    raise RuntimeError('bad container')


def _raw_text(path, compression):
    """the characters of the file, no newline translation (the harness' own reader)"""
    data = gzip.open(path, 'rb').read() if compression == 'gzip' else open(path, 'rb').read()
    return data.decode('utf-8')


def op_pipeline_writer(t):
    with contextlib.redirect_stdout(_io.StringIO()):
        return _pipeline_writer(t, {'verbose': True} if t.get('verbose') else {})


def _pipeline_writer(t, vkw):
    d = tempfile.mkdtemp(prefix='c15w-', dir=os.getcwd())
    cd = impl.CallDir()
    try:
        compression = t.get('compression')
        gz = compression == 'gzip'
        path = os.path.join(d, 'events.tab' + ('.gz' if gz else ''))
        res = {'stage': 'write'}

        def source():
            # what a consumer is given: the path of a gzip file, else the reader's generator
            return path if gz else io.events_from_file(path, compression=None)
        try:
            io.events_to_file(_container(t['container'], t['events']), path, compression=compression,
                              compatible=bool(t.get('compatible')))
            res['content'] = _raw_text(path, compression)
            before = impl.sha(path)
            res['stage'] = 'read'
            res['read_events'] = [[list(c), list(o)] for c, o in io.events_from_file(path, compression=compression)]
            if gz:
                res['stage'] = 'count'
                n, cues, outs = count.cues_outcomes(path, n_jobs=int(t.get('count_jobs', 2)), **vkw)
                res['n_events'] = n
                res['cue_counts'] = sorted(cues.items())
                res['outcome_counts'] = sorted(outs.items())
            res['stage'] = 'learn'
            L = t['learn']
            pol = POLICY[L['policy']]
            if L['learner'] == 'dict_ndl':
                w = ndl.dict_ndl(source(), fl(L['alpha']), (fl(L['beta1']), fl(L['beta2'])), fl(L['lambda']),
                                 remove_duplicates=pol, make_data_array=True, **vkw)
            else:
                w = ndl.ndl(source(), fl(L['alpha']), (fl(L['beta1']), fl(L['beta2'])), fl(L['lambda']),
                            method=L['learner'][4:], n_jobs=int(L.get('n_jobs', 2)),
                            n_outcomes_per_job=int(L.get('per_job', 10)), remove_duplicates=pol,
                            events_per_temporary_file=int(L.get('per_file', 10000000)), **vkw)
            res['weights'] = da_to_result(w)
            res['number_events_attr'] = w.attrs['number_events'].strip()
            res['stage'] = 'activation'
            a = activation.activation(source(), w, n_jobs=int(t.get('act_jobs', 1)), remove_duplicates=True)
            vals = np.asarray(a.values)
            res['activation_outcomes'] = [str(x) for x in a.coords['outcomes'].values.tolist()]
            res['activations'] = [[rat(vals[i, e]) for i in range(vals.shape[0])] for e in range(vals.shape[1])]
            res['stage'] = 'done'
            res['file_unchanged'] = impl.sha(path) == before
        except Exception as e:  # noqa
            res.update(impl.err(e))
        res['leftovers'] = cd.leftovers()
        return res
    finally:
        cd.close()
        shutil.rmtree(d, ignore_errors=True)


OPS = {'pipeline': op_pipeline, 'pipeline_writer': op_pipeline_writer}
