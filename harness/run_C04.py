"""
C04 — events are chunked completely and in order, and chunking terminates.
Lean (PyndlProps/C04.lean): chunks_concat, writeEvents_window,
name_key_roundtrip, sort_is_numeric, count_any_order, first_closing_job,
submit_loop_terminates (every completion oracle, exact multiples included),
submit_loop_diverges_on_multiple_old_rule (F1, repaired), learn_chunk_independent.
Correspondence: create_binary_event_files on n_events x events_per_file (every
exact-multiple pair, pairs giving >= 11 chunks) x n_jobs 1..4 with per-job
completion delays injected into the conversion jobs (patch inherited through
fork): return value, set of files and their decoded contents in numeric order
compared with the Lean model (makeChunks/chunkName/simulate); then ndl.ndl
weights for different events_per_temporary_file compared exactly with the
model. Every call runs in a killable worker with a deadline: a hang is the
observation Timeout.
"""
import gen
import learners as L
from common import rng

TIMEOUT = 30
WORKERS = 14


def run(rep, pool, driver, tier):
    r = rng('C04')
    quick = tier == 'quick'
    pairs = set()
    N, M = (16, 7) if quick else (40, 12)
    for n in range(1, N + 1):
        for per in range(2, M + 1):
            if n % per == 0 or (n + per - 1) // per >= 11 or r.random() < (0.1 if quick else 0.35):
                pairs.add((n, per))
    pairs |= {(23, 2), (22, 2), (4, 2), (2, 2), (1, 2), (3, 5)}
    pairs = sorted(pairs)
    if quick:
        must = [p for p in pairs if p[0] % p[1] == 0][:14] + [(23, 2), (22, 2)]
        pairs = sorted(set(must + r.sample(pairs, 14)))
    tasks = []
    for n, per in pairs:
        n_cues, n_outs = 5, 3
        es = [[[(i + k) % n_cues for k in range(1 + i % 3)], [i % n_outs] if i % 4 else [0, 2]] for i in range(n)]
        njs = [r.choice([1, 2, 3, 4])] if quick else [1, 2, 4]
        for nj in njs:
            n_jobs_total = n // per + 6
            mode = r.choice(['none', 'random', 'last_slow', 'first_slow', 'real_very_slow', 'real_very_slow'])
            delays = [0] * n_jobs_total
            if mode == 'random':
                delays = [r.choice([0, 0, 20, 60, 150]) for _ in range(n_jobs_total)]
            elif mode == 'last_slow':
                delays[n // per] = 300
            elif mode == 'first_slow':
                delays[0] = 300
            elif mode == 'real_very_slow':
                # a job that holds real events outlives the 1 s polling interval of the submit loop
                # and the job that closes the pool: it must still be joined, not terminated
                delays[r.randrange(0, max(1, n // per))] = r.choice([1300, 2200])
            tasks.append({'op': 'create_chunks', 'events': es, 'n_cues': n_cues, 'n_outs': n_outs, 'per': per,
                          'n_jobs': nj, 'policy': 'error', 'delays': delays, 'delay_mode': mode})
    # more chunks than one throttle batch (4*n_jobs) and a job EARLY in the batch that outlives the
    # 1 s poll on the batch's last job: nothing may be skipped or cut short (seeded change C04_b)
    for n, per, nj, slow in ([(20, 2, 2, 0), (21, 2, 2, 3), (23, 2, 2, 6)] if quick else
                             [(20, 2, 2, 0), (21, 2, 2, 3), (23, 2, 2, 6), (27, 3, 2, 1), (30, 2, 3, 2), (19, 2, 2, 7), (36, 2, 4, 5)]):
        es = [[[(i + k) % 5 for k in range(1 + i % 3)], [i % 3]] for i in range(n)]
        delays = [0] * (n // per + 6)
        delays[slow] = 2500
        tasks.append({'op': 'create_chunks', 'events': es, 'n_cues': 5, 'n_outs': 3, 'per': per, 'n_jobs': nj,
                      'policy': 'error', 'delays': delays, 'delay_mode': 'early_in_batch_very_slow'})
    impls = pool.map(tasks)
    models = driver.ask([{'op': 'chunk_files', 'events': t['events'], 'per': t['per'], 'policy': t['policy'],
                          'delays': [d // 10 for d in t['delays']]} for t in tasks])
    for t, impl, model in zip(tasks, impls, models):
        n, per = len(t['events']), t['per']
        rep.case({'n': n, 'per': per, 'n_jobs': t['n_jobs'], 'delays': t['delays']}, nontrivial=n > per, stream='create_binary_event_files')
        rep.count('exact_multiple' if n % per == 0 else 'partial_last_chunk')
        if len(model['files']) >= 11:
            rep.count('ge_11_chunks')
        rep.count('delay_mode:' + t['delay_mode'])
        prob = None
        if 'err' in impl:
            prob = 'create_binary_event_files(%d events, per=%d, n_jobs=%d): %s %s' % (n, per, t['n_jobs'], impl['err'], impl.get('msg', ''))
        elif impl['total'] != model['total'] or model['sim_total'] != n:
            prob = 'reported %r events, file has %d (model %d)' % (impl['total'], n, model['total'])
        else:
            got = [(f['name'], f['events']) for f in impl['files']]
            want = [(f['name'], f['events']) for f in model['files']]
            if [g[0] for g in got] != [w[0] for w in want]:
                prob = 'chunk files %r, model %r' % ([g[0] for g in got], [w[0] for w in want])
            elif got != want:
                k = next(i for i in range(len(got)) if got[i] != want[i])
                prob = 'chunk %s holds %r, model %r' % (got[k][0], got[k][1], want[k][1])
            elif [e for _, evs in got for e in evs] != t['events']:
                prob = 'chunks in numeric order do not concatenate to the events of the file'
        if prob:
            rep.violation({'what': prob, 'input': {'n_events': n, 'events_per_file': per, 'n_jobs': t['n_jobs'], 'delays_ms': t['delays']},
                           'observed': {k: impl.get(k) for k in ('err', 'total', 'seconds', 'listdir_order')},
                           'expected': {'total': n, 'files': [f['name'] for f in model['files']]},
                           'python': 'see harness/impl_chunk.py op create_chunks with this task: %r' % {k: v for k, v in t.items() if k != 'events'},
                           'theorem_or_stream': 'C04 chunks_concat / submit_loop_terminates: create_binary_event_files vs Lean model'})
        elif len(model['files']) >= 3:
            rep.sample({'n': n, 'per': per, 'n_jobs': t['n_jobs'], 'files': [f['name'] for f in impl['files']],
                        'seconds': impl['seconds'], 'model_submitted_jobs': model['sim_submitted']})
    # weights independent of the chunk size, whatever order the jobs finish in
    cases = []
    for i in range(6 if quick else 60):
        es = gen.events(r, r.randint(3, 12), dup=0.0, late=True)
        base = dict(gen.params(r), events=es, policy='error', n_jobs=r.choice([1, 2, 4]), per_job=r.choice([1, 3, 10]), stream='ndl_chunk_size')
        for per in sorted({2, 3, len(es), len(es) - 1 if len(es) > 3 else 2, 10000000}):
            for m in (['ndl_openmp'] if quick and i % 2 else ['ndl_threading', 'ndl_openmp']):
                cases.append((dict(base, per_file=per), m))
    # >= 11 chunk files inside ndl.ndl itself: the learner must take them in numeric, not lexicographic order
    for i in range(4 if quick else 40):
        n = r.randint(22, 45)
        es = gen.events(r, n, dup=0.0, late=True)
        base = dict(gen.params(r), events=es, policy='error', n_jobs=r.choice([1, 2, 4]), per_job=r.choice([1, 3, 10]), stream='ndl_many_chunks')
        for per in sorted({2, 3, (n + 10) // 11, n // 11}):
            if per >= 2 and (n + per - 1) // per >= 11:
                m = ['ndl_threading', 'ndl_openmp'][(i + per) % 2] if quick else None
                for mm in ([m] if m else ['ndl_threading', 'ndl_openmp']):
                    cases.append((dict(base, per_file=per), mm))
    impls = pool.map([L.impl_task(c, m) for c, m in cases])
    models = driver.ask([L.model_request(c, m) for c, m in cases])
    for (c, m), impl, model in zip(cases, impls, models):
        rep.case({'events': c['events'], 'per_file': c['per_file'], 'm': m}, nontrivial=True, stream=c['stream'])
        rep.count('ndl_chunks:%s' % ('>=11' if (len(c['events']) + c['per_file'] - 1) // c['per_file'] >= 11 else '<11'))
        d = L.compare(impl, model)
        if d is not None:
            rep.violation({'what': d, 'learner': m, 'input': c, 'python': L.python_snippet(c, m),
                           'observed': impl.get('cells', impl.get('err')), 'expected': model.get('cells', model.get('err')),
                           'theorem_or_stream': 'C04 learn_chunk_independent: ndl.ndl with events_per_temporary_file=%d' % c['per_file']})
