"""
C04 — events are chunked completely and in order, and chunking terminates.
Lean (PyndlProps/C04.lean): chunks_concat, writeEvents_window,
name_key_roundtrip, sort_is_numeric, count_any_order, first_closing_job,
submit_loop_terminates (every completion oracle, exact multiples included),
submit_loop_step_semantics (runLoop, the pass-by-pass semantics, ends in the closed form's state),
submit_loop_diverges_on_multiple_old_rule (F1, repaired), learn_chunk_independent.
Correspondence: create_binary_event_files on n_events x events_per_file (every
exact-multiple pair, pairs giving >= 11 chunks) x n_jobs 1..4 with per-job
completion delays injected into the conversion jobs (patch inherited through
fork): return value, set of files and their decoded contents in numeric order
compared with the Lean model (makeChunks/chunkName/simulate); then ndl.ndl
weights for different events_per_temporary_file compared exactly with the
model. Every call runs in a killable worker with a deadline: a hang is the
observation Timeout.
Event files with a third (frequency) column: the pair (n, per) then counts the EXPANDED events
(line k repeated freq[k] times, zeros included) - chunk windows, the returned count and
`number_events` are about those; both the conversion stream and the ndl.ndl streams draw such
files.  `overwrite=True` on a directory that still holds the chunk files of an earlier, longer
run of the real function: the directory must afterwards hold exactly the new chunks.
"""
import gen
import learners as L
import common
from common import rng

TIMEOUT = 120        # a conversion polls once a second per batch: up to ~14 s idle; a hang is seen at 120 s just as well
WORKERS = 14


def chunk_request(t):
    return {'op': 'chunk_files', 'events': t['events'], 'per': t['per'], 'policy': t['policy'],
            'delays': [d // 10 for d in t['delays']]}


def chunk_problem(t, impl, model):
    """None when create_binary_event_files and the model agree on one conversion task"""
    n, per = len(t['events']), t['per']
    if 'err' in impl:
        return 'create_binary_event_files(%d events, per=%d, n_jobs=%d): %s %s %s' % (
            n, per, t['n_jobs'], impl['err'], impl.get('msg', ''), impl.get('stage', ''))
    if impl['total'] != model['total'] or model['sim_total'] != n:
        return 'reported %r events, file has %d (model %d)' % (impl['total'], n, model['total'])
    got = [(f['name'], f['events']) for f in impl['files']]
    want = [(f['name'], f['events']) for f in model['files']]
    if [g[0] for g in got] != [w[0] for w in want]:
        return 'chunk files %r, model %r' % ([g[0] for g in got], [w[0] for w in want])
    if got != want:
        k = next(i for i in range(len(got)) if got[i] != want[i])
        return 'chunk %s holds %r, model %r' % (got[k][0], got[k][1], want[k][1])
    if [e for _, evs in got for e in evs] != t['events']:
        return 'chunks in numeric order do not concatenate to the events of the file'
    return None


def chunk_simplify(pool, driver, t, impl, model, prob):
    """configuration of a disagreeing conversion task back to defaults, one dimension at a time, while it still
    disagrees: no delays, one worker, no earlier run in the directory, the same events without a frequency column"""
    steps = 0
    cands = [lambda x: dict(x, delays=[0] * len(x['delays']), delay_mode='none') if any(x['delays']) else None,
             lambda x: dict(x, n_jobs=1) if x['n_jobs'] != 1 else None,
             lambda x: {k: v for k, v in x.items() if k != 'stale_n'} if x.get('stale_n') else None,
             lambda x: {k: v for k, v in x.items() if k not in ('freq', 'file_events')} if x.get('freq') is not None else None]
    for cand in cands:
        t2 = cand(t)
        if t2 is None:
            continue
        steps += 1
        impl2 = pool.map([t2])[0]
        model2 = driver.ask([chunk_request(t2)])[0]
        prob2 = chunk_problem(t2, impl2, model2)
        if prob2:
            t, impl, model, prob = t2, impl2, model2, prob2
    return t, impl, model, prob, steps


def run(rep, pool, driver, tier):
    r = rng('C04')
    quick = tier == 'quick'
    pairs = set()
    N, M = (16, 7) if quick else (40, 12)
    for n in range(1, N + 1):
        for per in range(2, M + 1):
            if n % per == 0 or (n + per - 1) // per >= 11 or r.random() < (0.1 if quick else 0.35):
                pairs.add((n, per))
    pairs |= {(23, 2), (22, 2), (4, 2), (2, 2), (1, 2), (3, 5)}
    pairs = sorted(pairs)
    if quick:
        must = [p for p in pairs if p[0] % p[1] == 0][:14] + [(23, 2), (22, 2)]
        pairs = sorted(set(must + r.sample(pairs, 14)))
    tasks = []

    def with_file(t, mk, n, freq_p, stale_p):
        """draw the two file dimensions of a conversion task: a frequency column whose entries sum to n (the
        file then has fewer or more lines than n, zeros included) and stale chunk files of an earlier run"""
        if r.random() < freq_p:
            t['freq'] = gen.freqs_total(r, n)
            t['file_events'] = [mk(i) for i in range(len(t['freq']))]
            t['events'] = gen.expand(t['file_events'], t['freq'])
        if r.random() < stale_p:
            t['stale_n'] = n + t['per'] * r.randint(1, 7) + r.randint(0, 1)
        return t

    def mk_a(i, n_cues=5, n_outs=3):
        return [[(i + k) % n_cues for k in range(1 + i % 3)], [i % n_outs] if i % 4 else [0, 2]]

    def mk_b(i):
        return [[(i + k) % 5 for k in range(1 + i % 3)], [i % 3]]

    for n, per in pairs:
        n_cues, n_outs = 5, 3
        es = [mk_a(i) for i in range(n)]
        njs = [r.choice([1, 2, 3, 4])] if quick else [1, 2, 4]
        for nj in njs:
            n_jobs_total = n // per + 6
            mode = r.choice(['none', 'random', 'last_slow', 'first_slow', 'real_very_slow', 'real_very_slow'])
            delays = [0] * n_jobs_total
            if mode == 'random':
                delays = [r.choice([0, 0, 20, 60, 150]) for _ in range(n_jobs_total)]
            elif mode == 'last_slow':
                delays[n // per] = 300
            elif mode == 'first_slow':
                delays[0] = 300
            elif mode == 'real_very_slow':
                # a job that holds real events outlives the 1 s polling interval of the submit loop
                # and the job that closes the pool: it must still be joined, not terminated
                delays[r.randrange(0, max(1, n // per))] = r.choice([1300, 2200])
            tasks.append(with_file({'op': 'create_chunks', 'events': es, 'n_cues': n_cues, 'n_outs': n_outs, 'per': per,
                                    'n_jobs': nj, 'policy': 'error', 'delays': delays, 'delay_mode': mode}, mk_a, n, 0.4, 0.3))
    # more chunks than one throttle batch (4*n_jobs) and a job EARLY in the batch that outlives the
    # 1 s poll on the batch's last job: nothing may be skipped or cut short (seeded change C04_b)
    # (33, 2, n_jobs=4): 17 chunks, so that the throttle boundary `ii % (n_jobs*4) == 0` is reached with 4 workers
    for n, per, nj, slow in ([(20, 2, 2, 0), (21, 2, 2, 3), (23, 2, 2, 6), (33, 2, 4, 5)] if quick else
                             [(20, 2, 2, 0), (21, 2, 2, 3), (23, 2, 2, 6), (33, 2, 4, 5), (27, 3, 2, 1), (30, 2, 3, 2), (19, 2, 2, 7),
                              (36, 2, 4, 5), (34, 2, 4, 15), (32, 2, 4, 11)]):
        es = [mk_b(i) for i in range(n)]
        delays = [0] * (n // per + 6)
        delays[slow] = 2500
        tasks.append(with_file({'op': 'create_chunks', 'events': es, 'n_cues': 5, 'n_outs': 3, 'per': per, 'n_jobs': nj,
                                'policy': 'error', 'delays': delays, 'delay_mode': 'early_in_batch_very_slow'}, mk_b, n, 0.35, 0.0))
    # overwrite=True on a directory that still holds the chunks of an earlier, longer run: events_0_7 .. events_0_12
    # (and other ranges crossing the one-digit / two-digit boundary) are stale and must be gone afterwards
    for n, per, stale_n in ([(14, 2, 26), (5, 2, 23), (6, 3, 40)] if quick else
                            [(14, 2, 26), (5, 2, 23), (6, 3, 40), (1, 2, 24), (20, 2, 26), (22, 2, 23), (9, 3, 33), (12, 4, 47)]):
        nj = r.choice([1, 2, 3, 4])
        t = with_file({'op': 'create_chunks', 'events': [mk_a(i) for i in range(n)], 'n_cues': 5, 'n_outs': 3, 'per': per,
                       'n_jobs': nj, 'policy': 'error', 'delays': [0] * (n // per + 6), 'delay_mode': 'none'}, mk_a, n, 0.35, 0.0)
        t['stale_n'] = stale_n
        tasks.append(t)
    impls = pool.map(tasks)
    models = driver.ask([chunk_request(t) for t in tasks])
    reported = 0
    for t, impl, model in zip(tasks, impls, models):
        n, per = len(t['events']), t['per']
        rep.case({'n': n, 'per': per, 'n_jobs': t['n_jobs'], 'delays': t['delays'], 'freq': t.get('freq'), 'stale_n': t.get('stale_n')},
                 nontrivial=n > per, stream='create_binary_event_files')
        rep.count('exact_multiple' if n % per == 0 else 'partial_last_chunk')
        if len(model['files']) >= 11:
            rep.count('ge_11_chunks')
        rep.count('delay_mode:' + t['delay_mode'])
        rep.count('create_chunks_n_jobs:%d' % t['n_jobs'])
        rep.count('create_chunks_freq_column:%s' % ('yes' if t.get('freq') is not None else 'no'))
        if t.get('freq') is not None:
            rep.count('create_chunks_freq_column_with_zero' if 0 in t['freq'] else 'create_chunks_freq_column_without_zero')
            rep.count('create_chunks_freq_column_%s_lines_than_events' % ('fewer' if len(t['freq']) < n else 'same_or_more'))
        n_stale = len([k for k in range((t.get('stale_n', 0) + per - 1) // per) if k >= len(model['files'])])
        rep.count('create_chunks_stale_files:%s' % ('0' if not n_stale else '1-5' if n_stale <= 5 else '>=6'))
        if n_stale and (t['stale_n'] + per - 1) // per >= 11:
            rep.count('create_chunks_stale_files_two_digit_names')
        if (n + per - 1) // per >= 4 * t['n_jobs']:
            rep.count('create_chunks_throttle_boundary_reached:n_jobs=%d' % t['n_jobs'])
        # model against model: the step semantics of the submit loop (runLoop) and its closed form (simulate) are proved
        # equal (C04 submit_loop_step_semantics); a difference here is a defect of the machinery, not of pyndl
        lp = model.get('loop')
        if not lp or lp['submitted'] != model['sim_submitted'] or lp['total'] != model['sim_total']:
            raise common.Infra('driver: runLoop %r differs from simulate (%r, %r) although proved equal'
                               % (lp, model['sim_submitted'], model['sim_total']))
        rep.count('submit_loop_passes:%s' % ('<=4' if lp['submitted'] <= 4 else '5-16' if lp['submitted'] <= 16 else '>16'))
        prob = chunk_problem(t, impl, model)
        if prob and reported < 3:
            reported += 1
            t0 = t
            t, impl, model, prob, steps = chunk_simplify(pool, driver, t, impl, model, prob)
            n = len(t['events'])
            rep.violation({'what': prob, 'input': {'n_events': n, 'events_per_file': per, 'n_jobs': t['n_jobs'], 'delays_ms': t['delays'],
                                                   'frequency_column': t.get('freq'), 'file_lines': len(t.get('file_events', t['events'])),
                                                   'events_of_the_earlier_run_into_the_same_directory': t.get('stale_n', 0),
                                                   'chunk_files_in_directory_before_the_call': impl.get('stale_before')},
                           'observed': {k: impl.get(k) for k in ('err', 'total', 'seconds', 'listdir_order')},
                           'expected': {'total': n, 'files': [f['name'] for f in model['files']]},
                           'python': 'see harness/impl_chunk.py op create_chunks with this task: %r' % {k: v for k, v in t.items() if k != 'events'},
                           'theorem_or_stream': 'C04 chunks_concat / submit_loop_terminates: create_binary_event_files vs Lean model',
                           'simplification_steps': steps,
                           'simplified_from': {k: t0.get(k) for k in ('n_jobs', 'delays', 'freq', 'stale_n')}})
        elif prob:
            rep.violation({'what': prob, 'input': {k: v for k, v in t.items() if k != 'events'},
                           'theorem_or_stream': 'C04 chunks_concat / submit_loop_terminates: create_binary_event_files vs Lean model'})
        elif len(model['files']) >= 3:
            rep.sample({'n': n, 'per': per, 'n_jobs': t['n_jobs'], 'files': [f['name'] for f in impl['files']],
                        'seconds': impl['seconds'], 'model_submitted_jobs': model['sim_submitted']})
    # weights independent of the chunk size, whatever order the jobs finish in
    cases = []
    for i in range(6 if quick else 60):
        es = gen.events(r, r.randint(3, 12), dup=0.0, late=True)
        # every second case: a frequency column (0..3, zeros included); chunk sizes then relate to the EXPANDED events
        freq = gen.freqs(r, len(es)) if i % 2 else None
        ne = len(gen.expand(es, freq))
        base = dict(gen.params(r), events=es, freq=freq, policy='error', n_jobs=r.choice([1, 2, 4]), per_job=r.choice([1, 3, 10]), stream='ndl_chunk_size')
        for per in sorted({2, 3, max(2, ne), ne - 1 if ne > 3 else 2, 10000000}):
            for m in ([['ndl_openmp'], ['ndl_threading']][(i // 2) % 2] if quick and i % 2 else ['ndl_threading', 'ndl_openmp']):
                cases.append((dict(base, per_file=per), m))
    # >= 11 chunk files inside ndl.ndl itself: the learner must take them in numeric, not lexicographic order
    for i in range(4 if quick else 40):
        n = r.randint(22, 45)
        freq = gen.freqs_total(r, n) if i % 2 else None
        es = gen.events(r, len(freq) if freq else n, dup=0.0, late=True)
        base = dict(gen.params(r), events=es, freq=freq, policy='error', n_jobs=r.choice([1, 2, 4]), per_job=r.choice([1, 3, 10]), stream='ndl_many_chunks')
        for per in sorted({2, 3, (n + 10) // 11, n // 11}):
            if per >= 2 and (n + per - 1) // per >= 11:
                m = ['ndl_threading', 'ndl_openmp'][(i + per) % 2] if quick else None
                for mm in ([m] if m else ['ndl_threading', 'ndl_openmp']):
                    cases.append((dict(base, per_file=per), mm))
    # chunk-size arguments at and beyond their limits (model: CfgOK and the error directions of
    # C01.ndl_chunk_args_raise): 2^32 does not fit the 4-byte count written into a chunk header resp. the
    # `unsigned int` chunk size of the OpenMP entry point (OverflowError), 0 outcomes per job divides by zero
    # (openmp) or is rejected (threading); 2^32 - 1 is still fine
    for i, (pf, pj) in enumerate([(2 ** 32, 10), (2 ** 32 - 1, 10), (2 ** 32 + 5, 1), (3, 2 ** 32), (3, 2 ** 32 - 1), (2, 0),
                                  (10000000, 0)]):
        es = gen.events(r, r.randint(1, 5), dup=0.0) if i != 6 or r.random() < 0.5 else []
        for m in ('ndl_threading', 'ndl_openmp'):
            cases.append((dict(gen.params(r), events=es, freq=None, policy='error', n_jobs=r.choice([1, 2]), per_job=pj,
                               per_file=pf, stream='ndl_chunk_args'), m))
    impls = pool.map([L.impl_task(c, m) for c, m in cases])
    models = driver.ask([L.model_request(c, m) for c, m in cases])
    shrunk = 0
    for (c, m), impl, model in zip(cases, impls, models):
        rep.case({'events': c['events'], 'freq': c['freq'], 'per_file': c['per_file'], 'm': m}, nontrivial=True, stream=c['stream'])
        ne = len(gen.expand(c['events'], c['freq']))
        many = (ne + c['per_file'] - 1) // c['per_file'] >= 11
        rep.count('ndl_chunks:%s' % ('>=11' if many else '<11'))
        if c['stream'] == 'ndl_chunk_args':
            rep.count('chunk_args:per_file=%s,per_job=%s/%s -> %s' % (
                '2^32%+d' % (c['per_file'] - 2 ** 32) if c['per_file'] > 10 ** 8 else c['per_file'],
                '2^32%+d' % (c['per_job'] - 2 ** 32) if c['per_job'] > 10 ** 8 else c['per_job'], m, model.get('err') or 'returns'))
        rep.count('ndl_freq_column:%s/%s/%s' % ('yes' if c['freq'] is not None else 'no', m,
                                                '>=11 chunks' if many else 'one chunk' if c['per_file'] >= ne else '2-10 chunks'))
        d = L.compare(impl, model)
        if d is not None:
            c0, steps = c, 0
            if shrunk < 2:
                shrunk += 1
                c, steps = L.shrink(pool, driver, c, m, budget=24)
                d2, impl2, model2 = L.evaluate(pool, driver, c, m)
                if d2 is None:
                    c, steps = c0, 0
                else:
                    d, impl, model = d2, impl2, model2
            rep.violation({'what': d, 'learner': m, 'input': c, 'python': L.python_snippet(c, m),
                           'shrink_steps': steps, 'shrunk_from_lines': len(c0['events']),
                           'observed': impl.get('cells', impl.get('err')), 'expected': model.get('cells', model.get('err')),
                           'theorem_or_stream': 'C04 learn_chunk_independent: ndl.ndl with events_per_temporary_file=%d' % c['per_file']})
