"""
C09 — event-file creation follows the documented windowing model.
Correspondence: the real `pyndl.preprocess.create_event_file` (corpus written to
disk, produced gzip read back and split at newline / TAB / `_`) against the Lean
model `Pyndl.Create.createEvents` / `createEventFile` (PyndlModel/Create.lean),
event by event IN ORDER: exact token lists when remove_duplicates=False, sorted
duplicate-free lists when True (the order of a Python set is not observable).
Corpora come from a grammar (empty / whitespace-only lines, 0-3 document markers
per line in both cases with arbitrary wildcard characters, near-miss markers,
`#` `_` TAB, non-ASCII letters with non-trivial case mapping, exotic whitespace,
contexts shorter than the window) x context_structure x event_structure x
event_options x cue_structure x lower_case x remove_duplicates x
allowed_symbols in {all, set expression, equivalent callable}.  A share of the
cases calls with an existing event file: OSError and byte-identical file.
The theorems (PyndlProps/C09.lean) are about the same model: windows_spec,
word_to_word_spec, ngrams_spec, stream_eq_contexts, no_cross_context,
tokens_clean, no_overwrite.
"""
import json

from common import rng

TRUSTED = [
    'str.lower() and the whitespace set of str.strip() are Python-supplied per-input tables (per character; '
    'the generator excludes U+03A3 whose lower-casing is context dependent, and checks table == str.lower() per line)',
    're: only `[#_\\t]`, `[^<literals and ranges>]` and the document-marker alternation are modelled',
    'gzip, UTF-8 codec, universal-newline text reading of the corpus (lines contain no CR/LF)',
]
ASSUMPTIONS = [
    'corpus lines contain no U+000A/U+000D and no U+03A3',
    'allowed_symbols expressions consist of literal characters and ranges lo-hi only (no escapes, classes, negation)',
    'word_to_word event_options are non-negative',
]

WORDS = ['a', 'b', 'c', 'ab', 'ba', 'abc', 'Aa', 'B', 'the', 'The', 'dog', 'Dog', 'x1', '42', 'zz',
         'ä', 'Öl', 'über', 'Straße', 'éa', 'İs', 'ıI', 'Ka', 'ǅx', 'ő', 'Ő', 'a.b', "it's",
         'x-y', 'a,', '!', 'a b', 'q\x0cr', 'ﬁn', 'ΑΒ', 'да', 'Да']
SPECIAL = ['#', '_', '\t', '##', '_#', 'a_b', 'a#b', '#a', 'b_', 'a\tb', '__']
SPACES = [' ', ' ', ' ', '  ', '   ', '   ', '\x0c', '  ', '\x1f ', '\x0b', '　']
MARKERS = ['---end.of.document---', '---END.OF.DOCUMENT---', '---endXofYdocument---',
           '---END OF DOCUMENT---', '---end#of_document---', '---end\tof.document---',
           '---ENDäOFßDOCUMENT---', '---end of document---', '---END-OF-DOCUMENT---']
NEAR = ['---End.Of.Document---', '---end.of.document--', '--end.of.document---', '---endof.document---',
        '---END.of.DOCUMENT---', '---end..of.document---', '---end.of.documents---', '---', '------']
EDGE = [' ', '\t', ' ', '  ', '\x0c', ' ']

SET_ITEMS = [('a', 'z'), ('A', 'Z'), ('0', '9'), ('a', 'f'), ('à', 'ÿ'), ('ä', 'ä'), ('ö', 'ö'), ('ü', 'ü'),
             ('ß', 'ß'), ('é', 'é'), ('İ', 'İ'), ('.', '.'), (',', ','), ("'", "'"), ('!', '!'), (' ', ' '),
             ('а', 'я'), ('i', 'i'), (' ', ' '), ('Α', 'Ω')]


def gen_line(r, marker_p):
    kind = r.random()
    if kind < 0.10:
        return r.choice(['', '', ' ', '\t', '   ', '#', '_ #', '\x0c'])
    parts = []
    n = r.choice([1, 1, 2, 3, 4, 5, 6, 8])
    for i in range(n):
        x = r.random()
        if x < 0.75:
            parts.append(r.choice(WORDS))
        elif x < 0.90:
            parts.append(r.choice(SPECIAL))
        else:
            parts.append(r.choice(NEAR))
    # markers: 0-3 per line
    km = 0
    if r.random() < marker_p:
        km = r.choice([1, 1, 1, 2, 2, 3])
    for _ in range(km):
        pos = r.randint(0, len(parts))
        parts.insert(pos, ('M', r.choice(MARKERS)))
    out = ''
    prev_marker = False
    for i, p in enumerate(parts):
        is_m = isinstance(p, tuple)
        s = p[1] if is_m else p
        if i > 0:
            glue = r.random()
            if (is_m or prev_marker) and glue < 0.45:
                sep = ''          # marker glued to a word / to another marker
            else:
                sep = r.choice(SPACES)
            out += sep
        out += s
        prev_marker = is_m
    if r.random() < 0.25:
        out = r.choice(EDGE) + out
    if r.random() < 0.25:
        out = out + r.choice(EDGE)
    return out


def gen_allowed(r):
    x = r.random()
    if x < 0.34:
        return {'kind': 'all'}
    k = r.choice([1, 2, 2, 3, 4, 6])
    items = r.sample(SET_ITEMS, k)
    if r.random() < 0.7 and ('a', 'z') not in items:
        items.insert(r.randint(0, len(items)), r.choice([('a', 'z'), ('a', 'z'), ('A', 'Z')]))
    if x < 0.67:
        expr = ''.join(lo if lo == hi else lo + '-' + hi for lo, hi in items)
        if r.random() < 0.15:
            expr += '-'
        return {'kind': 'expr', 'expr': expr}
    return {'kind': 'table', 'ranges': [[lo, hi] for lo, hi in items]}


def inject_cr(r, c):
    """put a lone CR between two non-blank characters of some line (if there is such a place)"""
    spots = [(k, i) for k, l in enumerate(c['lines']) for i in range(1, len(l))
             if not l[i - 1].isspace() and not l[i].isspace() and l[i - 1] != '\r' and l[i] != '\r']
    if spots:
        k, i = r.choice(spots)
        c['lines'][k] = c['lines'][k][:i] + '\r' + c['lines'][k][i:]
    return c


def gen_case(r, tier):
    n_lines = r.choice([0, 1, 1, 2, 2, 3, 3, 4, 5, 6, 8])
    marker_p = r.choice([0.0, 0.3, 0.5, 0.8])
    lines = [gen_line(r, marker_p) for _ in range(n_lines)]
    ev = r.choice(['consecutive_words', 'consecutive_words', 'word_to_word', 'line'])
    if ev == 'consecutive_words':
        opts = [r.choice([1, 2, 3, 3, 4, 5, 7, 12] * 3 + ([0, 0, -1, -3] if tier == 'thorough' else [0, 0]))]
    elif ev == 'word_to_word':
        opts = [r.choice([0, 1, 1, 2, 3, 5]), r.choice([0, 1, 1, 2, 3, 5])]
    else:
        opts = None
    if r.random() < 0.12 and lines:
        # old-Mac / stray carriage returns: a lone CR (or CRLF) inside what the generator calls a line is a line
        # break of the corpus for Python's text layer (seeded change C15_b opened the corpus with newline='\n')
        for _ in range(r.randint(1, 3)):
            k = r.randrange(len(lines))
            l = lines[k]
            pos = r.randint(0, len(l))
            lines[k] = l[:pos] + r.choice(['\r', '\r', '\r\n']) + l[pos:]
    c = {'lines': lines, 'trailing_newline': r.random() < 0.8,
         'allowed': gen_allowed(r),
         'context': r.choice(['document', 'document', 'line']),
         'event': ev, 'options': opts,
         'cue': r.choice(['trigrams_to_word', 'bigrams_to_word', 'word_to_word']),
         'lower_case': r.random() < 0.5, 'remove_duplicates': r.random() < 0.5,
         'exists': r.random() < 0.06}
    return c


def eff_lines(c):
    """the lines Python's text layer yields for the corpus file the harness writes ('\\n'.join(lines), universal
    newlines): a lone CR or a CRLF inside a generated line is a line break of the corpus"""
    text = '\n'.join(c['lines']) + ('\n' if c.get('trailing_newline', True) else '')
    parts = text.replace('\r\n', '\n').replace('\r', '\n').split('\n')
    if parts and parts[-1] == '':
        parts.pop()
    return parts


def tables(c):
    """Python's own case mapping / whitespace classification for the characters of this corpus"""
    chars = set(''.join(c['lines']))
    lower = {}
    for ch in sorted(chars):
        lo = ch.lower()
        if lo != ch:
            lower[ch] = lo
    allc = set(chars)
    for lo in lower.values():
        allc.update(lo)
    ws = ''.join(sorted(ch for ch in allc if ch.isspace()))
    return ws, [[k, v] for k, v in sorted(lower.items())]


def table_ok(c):
    _, lower = tables(c)
    m = dict(lower)
    for l in c['lines']:
        if '\n' in l or 'Σ' in l:
            return False
        if ''.join(m.get(ch, ch) for ch in l) != l.lower():
            return False
    return True


def impl_task(c):
    t = {k: c[k] for k in ('lines', 'trailing_newline', 'allowed', 'context', 'event', 'options', 'cue',
                            'lower_case', 'remove_duplicates', 'exists')}
    t['op'] = 'create_event_file'
    if c.get('verbose'):
        t['verbose'] = True          # X1
    return t


def model_request(c):
    ws, lower = tables(c)
    q = {k: c[k] for k in ('lines', 'allowed', 'context', 'event', 'cue', 'lower_case', 'remove_duplicates',
                            'exists')}
    q['lines'] = eff_lines(c)
    q['options'] = c['options'] if c['options'] is not None else []
    q['op'] = 'create_events'
    q['ws'] = ws
    q['lower'] = lower
    return q


def canon(events, rd):
    if rd:
        return [[sorted(cu), sorted(ou)] for cu, ou in events]
    return [[list(cu), list(ou)] for cu, ou in events]


def compare(c, impl, model):
    """None if the implementation did what the model says, else a description"""
    if impl.get('err') in ('Timeout', 'WorkerDied', 'HarnessError'):
        return 'implementation: %s %s' % (impl.get('err'), impl.get('msg', ''))
    if c['exists']:
        if model.get('err') != 'Raised:IO' or not model.get('file_unchanged'):
            return 'model does not refuse an existing event file'
        if impl.get('err') != 'Raised:IO':
            return 'existing event file: expected OSError, observed %s' % (impl.get('err') or 'a normal return')
        if not impl.get('file_unchanged'):
            return 'existing event file was modified'
        if impl.get('listing') != ['corpus.txt', 'events.tab.gz']:
            return 'directory listing changed: %s' % impl.get('listing')
        return None
    if 'err' in impl:
        return 'implementation raised %s (%s), model returns events' % (impl['err'], impl.get('msg'))
    if 'err' in model:
        return 'model raised'
    if impl.get('header') != 'cues\toutcomes':
        return 'header line is %r' % impl.get('header')
    if impl.get('malformed'):
        return 'data line without exactly one TAB: %r' % impl['malformed'][:2]
    if not impl.get('ends_with_newline'):
        return 'file does not end with a newline'
    rd = c['remove_duplicates']
    a, b = canon(impl['events'], rd), canon(model['events'], rd)
    if a != b:
        for i in range(max(len(a), len(b))):
            ea = a[i] if i < len(a) else None
            eb = b[i] if i < len(b) else None
            if ea != eb:
                return 'event %d differs: file has %s, model has %s (file %d events, model %d)' % (
                    i, json.dumps(ea, ensure_ascii=False), json.dumps(eb, ensure_ascii=False), len(a), len(b))
    if rd:
        for cu, ou in impl['events']:
            if len(set(cu)) != len(cu) or len(set(ou)) != len(ou):
                return 'remove_duplicates=True but a token is repeated'
    for cu, ou in impl['events']:
        for tok in cu + ou:
            if tok == '' or any(ch in tok for ch in '_\t\n '):
                return 'unclean token %r' % tok
        for tok in ou:
            if '#' in tok:
                return 'outcome token contains #: %r' % tok
    if impl.get('listing') != ['corpus.txt', 'events.tab.gz']:
        return 'directory listing: %s' % impl.get('listing')
    return None


def evaluate_many(pool, driver, cs):
    impls = pool.map([impl_task(c) for c in cs])
    models = driver.ask([model_request(c) for c in cs])
    return [(compare(c, i, m), i, m) for c, i, m in zip(cs, impls, models)]


def shrink(pool, driver, case, budget=1500):
    """delta-debug the corpus by lines, then by blank-separated pieces, then the configuration"""
    cur = dict(case)
    used = 0

    def first_failing(cands):
        nonlocal used
        cands = [c for c in cands if table_ok(c)]
        if not cands:
            return None
        used += len(cands)
        for c, (d, _, _) in zip(cands, evaluate_many(pool, driver, cands)):
            if d is not None:
                return c
        return None

    changed = True
    while changed and used < budget:
        changed = False
        ls = cur['lines']
        c = first_failing([dict(cur, lines=ls[:i] + ls[i + 1:]) for i in range(len(ls))])
        if c is not None:
            cur, changed = c, True
            continue
        cands = []
        for i, l in enumerate(ls):
            ps = l.split(' ')
            if len(ps) > 1:
                for j in range(len(ps)):
                    cands.append(dict(cur, lines=ls[:i] + [' '.join(ps[:j] + ps[j + 1:])] + ls[i + 1:]))
        c = first_failing(cands[:60])
        if c is not None:
            cur, changed = c, True
            continue
        cands = []
        if cur.get('verbose'):
            cands.append({k: v for k, v in cur.items() if k != 'verbose'})
        if cur['lower_case']:
            cands.append(dict(cur, lower_case=False))
        if cur['remove_duplicates']:
            cands.append(dict(cur, remove_duplicates=False))
        if cur['allowed']['kind'] != 'all':
            cands.append(dict(cur, allowed={'kind': 'all'}))
        if not cur['trailing_newline']:
            cands.append(dict(cur, trailing_newline=True))
        if cur['cue'] != 'word_to_word':
            cands.append(dict(cur, cue='word_to_word'))
        if cur['event'] == 'consecutive_words' and cur['options'][0] > 2:
            cands.append(dict(cur, options=[cur['options'][0] - 1]))
        if cur['event'] == 'word_to_word':
            b, a = cur['options']
            if b > 0:
                cands.append(dict(cur, options=[b - 1, a]))
            if a > 0:
                cands.append(dict(cur, options=[b, a - 1]))
        c = first_failing(cands)
        if c is not None:
            cur, changed = c, True
            continue
        # characters of single lines: remove chunks of decreasing size (ddmin)
        for i, l in enumerate(ls):
            size = max(1, len(l) // 2)
            while size >= 1 and not changed and used < budget:
                cands = [dict(cur, lines=ls[:i] + [l[:j] + l[j + size:]] + ls[i + 1:])
                         for j in range(0, len(l), size)]
                c = first_failing(cands[:100])
                if c is not None:
                    cur, changed = c, True
                size = size // 2 if size > 1 else 0
            if changed:
                break
    return cur, used


def python_snippet(c):
    a = c['allowed']
    if a['kind'] == 'all':
        allowed = "'all'"
    elif a['kind'] == 'expr':
        allowed = repr(a['expr'])
    else:
        allowed = 'lambda ch: any(lo <= ch <= hi for lo, hi in %r)' % [tuple(x) for x in a['ranges']]
    opts = '' if c['options'] is None else ', event_options=%r' % (tuple(c['options']),)
    pre = "open('events.tab.gz', 'wb').write(b'old'); " if c['exists'] else ''
    return ("import gzip; from pyndl import preprocess; "
            "open('corpus.txt', 'w', encoding='utf-8', newline='\\n').write(%r); %s"
            "preprocess.create_event_file('corpus.txt', 'events.tab.gz', allowed_symbols=%s, context_structure=%r, "
            "event_structure=%r%s, cue_structure=%r, lower_case=%r, remove_duplicates=%r%s); "
            "print(gzip.open('events.tab.gz', 'rt', encoding='utf-8').read())"
            % ('\n'.join(c['lines']) + ('\n' if c['trailing_newline'] else ''), pre, allowed, c['context'],
               c['event'], opts, c['cue'], c['lower_case'], c['remove_duplicates'],
               ', verbose=True' if c.get('verbose') else ''))


FIXED = [
    # hand-written corner cases, always run
    dict(lines=['a b', 'c ---end.of.document--- d', 'e'], context='document', event='consecutive_words', options=[3]),
    dict(lines=['a b ---end.of.document---', 'c d'], context='document', event='consecutive_words', options=[2]),
    dict(lines=['---END.OF.DOCUMENT---a b---endXofYdocument------end.of.document---c'], context='document',
         event='word_to_word', options=[1, 1]),
    dict(lines=['a ---end.of.document--- b ---END.OF.DOCUMENT--- c', 'd'], context='document', event='line', options=None),
    dict(lines=['a b c d'], context='line', event='consecutive_words', options=[7]),
    dict(lines=['A_B#C\tD', '', 'İs Ka'], context='line', event='consecutive_words', options=[2],
         lower_case=True, allowed={'kind': 'expr', 'expr': 'a-z'}),
    dict(lines=['a b', '---end.of.document---', 'c'], context='document', event='consecutive_words', options=[3]),
]


def cases(tier):
    r = rng('C09')
    out = []
    for f in FIXED:
        for cue in ('trigrams_to_word', 'bigrams_to_word', 'word_to_word'):
            for rd in (False, True):
                c = dict(trailing_newline=True, allowed={'kind': 'all'}, lower_case=False, exists=False)
                c.update(f)
                c.update(cue=cue, remove_duplicates=rd, stream='fixed')
                out.append(c)
    n = 300 if tier == 'quick' else 5000
    while len(out) < n + len(FIXED) * 6:
        c = gen_case(r, tier)
        if not table_ok(c):
            continue
        c['stream'] = 'existing_file' if c['exists'] else 'grammar'
        out.append(c)
    # X1: `verbose=True` for about a quarter of the calls (own random stream: the cases above stay the
    # same); the model knows no verbose flag, so the file must be the one written with verbose=False
    rv = rng('C09/verbose')
    for c in out:
        if rv.random() < 0.25:
            c['verbose'] = True
    return out


def n_markers(c):
    import re
    pat = re.compile('---end.of.document---|---END.OF.DOCUMENT---')
    return sum(len(pat.findall(l.strip())) for l in c['lines'])


BAD_EXPRS = ['z-a', '', 'a--', 'b-a0-9', 'a-zZ-A']


def run_failures(rep, pool, driver, tier):
    """failing calls and what they leave behind (C09.create_frame, late_failure_prefix, late_failure_blocks_retry):
    a set expression `re` rejects (nothing is created), a corpus that stops being valid UTF-8 (header and the
    events of the lines the text layer yielded stay behind), an allowed_symbols callable that raises on some
    character (header and the events written so far stay behind)"""
    r = rng('C09/failures')
    cs = []
    while len(cs) < (36 if tier == 'quick' else 400):
        c = gen_case(r, tier)
        c['exists'] = False
        kind = ['bad_pattern', 'unreadable', 'callable_raises'][len(cs) % 3]
        c['failure'] = kind
        if kind == 'bad_pattern':
            c['allowed'] = {'kind': 'expr', 'expr': r.choice(BAD_EXPRS)}
        elif kind == 'unreadable':
            if r.random() < 0.3:
                # a corpus longer than the text layer's 8 KiB chunk: some lines are read before the bad byte is met
                c['lines'] = [gen_line(r, 0.2) for _ in range(r.randint(150, 400))]
            c['bad_byte_after'] = r.randint(0, len(c['lines']))
        else:
            if c['allowed']['kind'] != 'table':
                c['allowed'] = {'kind': 'table', 'ranges': [['a', 'z'], ['A', 'Z']]}
            chars = sorted({ch for l in c['lines'] for ch in l if not ch.isspace()})
            if not chars:
                continue
            ch = r.choice(chars)
            c['raises'] = [[ch, ch]]
        if table_ok(c):
            cs.append(c)
    tasks = []
    for c in cs:
        t = impl_task(c)
        for k in ('bad_byte_after', 'raises'):
            if k in c:
                t[k] = c[k]
        tasks.append(t)
    impls = pool.map(tasks)
    reqs = []
    for c, impl in zip(cs, impls):
        cm = c
        if c['failure'] == 'unreadable':
            cm = dict(c, lines=impl.get('readable') or [])
        q = model_request(cm)
        if c['failure'] == 'unreadable':
            q['unreadable'] = True
        if 'raises' in c:
            q['raises'] = c['raises']
        reqs.append(q)
    models = driver.ask(reqs)
    for c, impl, model in zip(cs, impls, models):
        rep.case({k: c[k] for k in c if k != 'stream'}, nontrivial=True, stream='failing_call')
        rep.count('failure:%s -> %s' % (c['failure'], model.get('err') or 'returns'))
        prob = None
        if impl.get('err') in ('Timeout', 'WorkerDied', 'HarnessError'):
            prob = 'implementation: %s %s' % (impl.get('err'), impl.get('msg', ''))
        elif impl.get('err') != model.get('err'):
            prob = 'failing call: implementation %s (%s), model %s' % (impl.get('err') or 'returns', impl.get('msg', ''), model.get('err') or 'returns')
        elif 'err' in model:
            ml = model.get('left')
            il = impl.get('left')
            if ml is None:
                if il is not None or impl.get('listing') != ['corpus.txt']:
                    prob = 'an early failure must leave nothing behind: listing %s' % impl.get('listing')
            elif il is None or 'events' not in il:
                prob = 'late failure: model leaves %d events behind, the implementation left %r' % (len(ml), il)
            else:
                rd = c['remove_duplicates']
                if canon(il['events'], rd) != canon(ml, rd) or il.get('header') != 'cues\toutcomes':
                    prob = 'late failure: file left behind holds %d events, model %d (first difference at %s)' % (
                        len(il['events']), len(ml),
                        next((i for i in range(max(len(il['events']), len(ml)))
                              if canon(il['events'], rd)[i:i + 1] != canon(ml, rd)[i:i + 1]), None))
                rep.count('late_failure_left_events:%s' % ('0' if not ml else '1-5' if len(ml) <= 5 else '6+'))
        else:
            # the failure did not strike (e.g. the raising character is filtered away before the callable sees it):
            # an ordinary successful call
            prob = compare(c, impl, model)
        if prob:
            rep.violation({'what': prob, 'input': {k: (v if k != 'lines' or len(v) < 12 else v[:12] + ['...']) for k, v in c.items()},
                           'observed': {k: impl.get(k) for k in ('err', 'msg', 'left', 'listing', 'readable') if k != 'readable' or len(impl.get('readable') or []) < 12},
                           'expected': {'err': model.get('err'), 'left': (model.get('left') or [])[:8] if model.get('left') is not None else None},
                           'theorem_or_stream': 'C09 create_frame / late_failure_prefix: failing create_event_file call (%s)' % c['failure']})


def run(rep, pool, driver, tier):
    run_failures(rep, pool, driver, tier)
    cs = cases(tier)
    results = evaluate_many(pool, driver, cs)
    failures = []
    for c, (d, impl, model) in zip(cs, results):
        nev = len(model.get('events', []))
        rep.case({k: c[k] for k in c if k != 'stream'}, nontrivial=nev >= 2 or c['exists'], stream=c['stream'])
        rep.count('context:' + c['context'])
        rep.count('event:' + c['event'])
        rep.count('cue:' + c['cue'])
        rep.count('allowed:' + c['allowed']['kind'])
        rep.count('lower_case:%s' % c['lower_case'])
        rep.count('remove_duplicates:%s' % c['remove_duplicates'])
        rep.count('verbose:%s' % bool(c.get('verbose')))
        km = n_markers(c)
        rep.count('markers_in_corpus:%s' % (km if km <= 3 else '4+'))
        rep.count('events:%s' % ('0' if nev == 0 else '1-5' if nev <= 5 else '6-20' if nev <= 20 else '21+'))
        if c['event'] == 'consecutive_words':
            rep.count('number_of_words:%d' % c['options'][0])
            if any(0 < len(l.split()) < c['options'][0] for l in c['lines']):
                rep.count('window_longer_than_a_line')
        if any(ord(ch) > 127 for l in c['lines'] for ch in l):
            rep.count('non_ascii_corpus')
        if any('\r' in l for l in c['lines']):
            rep.count('corpus_with_carriage_return')
        if any(ch in l for l in c['lines'] for ch in '#_\t'):
            rep.count('special_symbols_in_corpus')
        if any(not l.strip() for l in c['lines']):
            rep.count('has_empty_line')
        rep.count('outcome:' + (model.get('err') or 'Returned'))
        if d is not None:
            failures.append((c, d))
        elif nev >= 3 and c['lines']:
            rep.sample({'lines': c['lines'][:4], 'options': {k: c[k] for k in ('allowed', 'context', 'event', 'options',
                                                                            'cue', 'lower_case', 'remove_duplicates')},
                        'events_file': impl['events'][:5], 'events_model': model['events'][:5]})
    seen = []
    for c, d in failures[:6]:
        small, steps = shrink(pool, driver, c)
        key = {k: v for k, v in small.items() if k != 'stream'}
        if key in seen or len(seen) >= 3:
            continue
        seen.append(key)
        d2, impl2, model2 = evaluate_many(pool, driver, [small])[0]
        rep.violation({'what': d2 or d,
                       'input': {k: v for k, v in small.items() if k != 'stream'},
                       'observed': {k: impl2.get(k) for k in ('err', 'msg', 'events', 'header', 'malformed',
                                                              'file_unchanged', 'listing') if k in impl2},
                       'expected': model2,
                       'python': python_snippet(small),
                       'theorem_or_stream': 'correspondence create_event_file vs Lean model Pyndl.Create.createEvents '
                                            '(C09: windows_spec / word_to_word_spec / ngrams_spec / stream_eq_contexts / '
                                            'tokens_clean / no_overwrite)',
                       'shrunk_from_lines': len(c['lines']), 'shrink_evaluations': steps})
    rep.extra['failures_total'] = len(failures)


def replay(rep, pool, driver, rp):
    c = dict(rp['input'])
    c.setdefault('stream', 'replay')
    d, impl, model = evaluate_many(pool, driver, [c])[0]
    rep.case(c, stream='replay')
    if d is not None:
        rep.violation({'what': d, 'input': rp['input'], 'observed': impl, 'expected': model,
                       'python': python_snippet(c), 'theorem_or_stream': rp.get('theorem_or_stream')})
