"""
Shared machinery of the pyndl verification harness.

* scratch build of /repo's *current working tree* (cached by content hash of the
  files that go into the compiled extensions; the .py files are always copied
  fresh),
* the Lean side: `lake build`, axiom audit, native model driver,
* one PRNG per run (VERIF_SEED), evidence files, replay files, known findings.

Runs under /venv/bin/python.  Nothing here imports pyndl at module level: the
scratch copy must be first on sys.path before that happens (`use_scratch`).
"""
import atexit
import sys as _sys
if hasattr(_sys, 'set_int_max_str_digits'):
    _sys.set_int_max_str_digits(0)       # model rationals of long sequences have thousands of digits
import fractions
import hashlib
import json
import os
import random
import re
import shutil
import signal
import subprocess
import sys
import tempfile
import time

VERIF = os.path.dirname(os.path.dirname(os.path.abspath(__file__)))
REPO = os.environ.get('PYNDL_REPO', '/repo')
LEAN_DIR = os.path.join(VERIF, 'lean')
SCRATCH_ROOT = os.environ.get('PYNDL_VERIF_SCRATCH', '/var/tmp/pyndl-verif')
PY = '/venv/bin/python'
DRIVER = os.path.join(LEAN_DIR, '.lake', 'build', 'bin', 'pyndl-driver')
ALLOWED_AXIOMS = {'propext', 'Classical.choice', 'Quot.sound'}

Fraction = fractions.Fraction


class Infra(Exception):
    """framework failure (exit 2), never a violation"""


# --------------------------------------------------------------------------
# run parameters
# --------------------------------------------------------------------------

def seed():
    try:
        return int(os.environ.get('VERIF_SEED', '0'))
    except ValueError:
        return 0


def rng(tag=''):
    """all randomness of a run derives from VERIF_SEED (and a stream tag)"""
    h = hashlib.sha256(('%d/%s' % (seed(), tag)).encode()).digest()
    return random.Random(int.from_bytes(h[:8], 'big'))


# --------------------------------------------------------------------------
# scratch build of the working tree
# --------------------------------------------------------------------------

_BUILD_INPUTS = ('build.py', 'pyproject.toml')
_live_dirs = []
_MAIN_PID = os.getpid()


def _cleanup():
    if os.getpid() != _MAIN_PID:
        return  # a forked child (e.g. a multiprocessing pool worker) must never remove the parent's scratch
    for d in _live_dirs:
        shutil.rmtree(d, ignore_errors=True)


atexit.register(_cleanup)


def _sig(signum, _frame):
    _cleanup()
    os._exit(2)


for _s in (signal.SIGTERM, signal.SIGINT):
    try:
        signal.signal(_s, _sig)
    except (ValueError, OSError):
        pass


def _ext_hash():
    h = hashlib.sha256()
    names = sorted(n for n in os.listdir(os.path.join(REPO, 'pyndl'))
                   if n.endswith(('.pyx', '.pxd')))
    for n in names:
        h.update(n.encode())
        h.update(open(os.path.join(REPO, 'pyndl', n), 'rb').read())
    for n in _BUILD_INPUTS:
        h.update(n.encode())
        h.update(open(os.path.join(REPO, n), 'rb').read())
    return h.hexdigest()[:20]


def _sweep(root):
    """remove scratch directories of dead earlier invocations"""
    now = time.time()
    for n in os.listdir(root):
        p = os.path.join(root, n)
        if n.startswith('run-'):
            try:
                pid = int(n.split('-')[1])
                os.kill(pid, 0)
            except (ValueError, IndexError, ProcessLookupError):
                shutil.rmtree(p, ignore_errors=True)
            except PermissionError:
                pass
    cache = os.path.join(root, 'extcache')
    if os.path.isdir(cache):
        entries = sorted((os.path.getmtime(os.path.join(cache, n)), n) for n in os.listdir(cache))
        for mt, n in entries[:-6]:
            if now - mt > 1800:   # never under a concurrent invocation that is copying from it
                shutil.rmtree(os.path.join(cache, n), ignore_errors=True)


def build_scratch():
    """
    Copy /repo's working tree (pyndl package + build inputs) to a private
    scratch directory, build the Cython extensions there (or take them from
    the content-addressed cache of an identical earlier build) and return the
    directory to put on PYTHONPATH.
    """
    os.makedirs(SCRATCH_ROOT, exist_ok=True)
    _sweep(SCRATCH_ROOT)
    d = tempfile.mkdtemp(prefix='run-%d-' % os.getpid(), dir=SCRATCH_ROOT)
    _live_dirs.append(d)
    shutil.copytree(os.path.join(REPO, 'pyndl'), os.path.join(d, 'pyndl'),
                    ignore=shutil.ignore_patterns('*.so', '*.c', '__pycache__'))
    for n in _BUILD_INPUTS:
        shutil.copy(os.path.join(REPO, n), d)
    key = _ext_hash()
    cache = os.path.join(SCRATCH_ROOT, 'extcache', key)
    if os.path.isdir(cache) and any(n.endswith('.so') for n in os.listdir(cache)):
        for n in os.listdir(cache):
            shutil.copy(os.path.join(cache, n), os.path.join(d, 'pyndl'))
        os.utime(cache)
        built = 'cache:' + key
    else:
        t0 = time.time()
        r = subprocess.run([PY, 'build.py'], cwd=d, capture_output=True, text=True, encoding='utf-8', errors='replace')
        sos = [n for n in os.listdir(os.path.join(d, 'pyndl')) if n.endswith('.so')]
        if r.returncode != 0 or len(sos) < 3:
            raise Infra('scratch build of /repo failed:\n' + r.stdout[-2000:] + r.stderr[-4000:])
        tmpc = tempfile.mkdtemp(dir=os.path.join(SCRATCH_ROOT))
        for n in sos:
            shutil.copy(os.path.join(d, 'pyndl', n), tmpc)
        os.makedirs(os.path.dirname(cache), exist_ok=True)
        try:
            os.rename(tmpc, cache)
        except OSError:
            shutil.rmtree(tmpc, ignore_errors=True)
        shutil.rmtree(os.path.join(d, 'build'), ignore_errors=True)
        built = 'built in %.1fs:%s' % (time.time() - t0, key)
    os.makedirs(os.path.join(d, 'work'), exist_ok=True)
    return d, built


def use_scratch(d):
    """make this interpreter (and its children) import pyndl from the scratch copy"""
    sys.path.insert(0, d)
    os.environ['PYTHONPATH'] = d + os.pathsep + os.environ.get('PYTHONPATH', '')
    os.environ.setdefault('OMP_WAIT_POLICY', 'passive')
    import pyndl  # noqa
    if not os.path.abspath(pyndl.__file__).startswith(os.path.abspath(d)):
        raise Infra('pyndl imported from %s, not from the scratch copy %s' % (pyndl.__file__, d))
    import warnings
    warnings.filterwarnings('ignore')
    return pyndl


def changed_anchors(prop):
    """anchor files of the property (properties.jsonl) whose content differs from anchors_baseline.json"""
    try:
        base = json.load(open(os.path.join(VERIF, 'anchors_baseline.json')))['sha256']
        files = []
        for line in open(os.path.join(VERIF, 'properties.jsonl'), encoding='utf-8'):
            p = json.loads(line)
            if p['id'] == prop:
                files = p['anchors']['files']
        out = []
        for f in files:
            fp = os.path.join(REPO, f)
            h = hashlib.sha256(open(fp, 'rb').read()).hexdigest() if os.path.exists(fp) else None
            if f in base and h != base[f]:
                out.append(f)
        return out
    except Exception:  # noqa
        return []


# --------------------------------------------------------------------------
# Lean side
# --------------------------------------------------------------------------

def lake_build(targets):
    t0 = time.time()
    r = subprocess.run(['lake', 'build'] + list(targets), cwd=LEAN_DIR,
                       capture_output=True, text=True, encoding='utf-8', errors='replace')
    if r.returncode < 0 or ('error:' not in (r.stdout + r.stderr) and r.returncode != 0):
        # killed (OOM, signal) or failed without a Lean error: one more attempt, then an infrastructure failure —
        # never a broken proof obligation
        r = subprocess.run(['lake', 'build'] + list(targets), cwd=LEAN_DIR,
                           capture_output=True, text=True, encoding='utf-8', errors='replace')
        if r.returncode < 0 or ('error:' not in (r.stdout + r.stderr) and r.returncode != 0):
            raise Infra('lake build was killed or failed without a Lean error (return code %s): %s'
                        % (r.returncode, (r.stdout + r.stderr)[-600:]))
    return r.returncode == 0, (r.stdout + r.stderr)[-6000:], time.time() - t0


_AX_RE = re.compile(r"^'([^']+)' (?:depends on axioms: \[([^\]]*)\]|does not depend on any axioms)",
                    re.M | re.S)


def axiom_audit(prop):
    """
    `#print axioms` on every theorem of PyndlProps/<prop>.lean (the audit file
    PyndlProps/Audit/<prop>.lean lists them; the list is cross-checked against
    the `theorem` declarations of the property file).  Returns
    (obligations, discharged, details, problems).
    """
    src = open(os.path.join(LEAN_DIR, 'PyndlProps', prop + '.lean'), encoding='utf-8').read()
    body = strip_lean_comments(src)
    names = re.findall(r'^\s*theorem\s+([A-Za-z_][A-Za-z0-9_\.\']*)', body, re.M)
    ns = re.search(r'^namespace\s+(\S+)', body, re.M)
    prefix = (ns.group(1) + '.') if ns else ''
    problems = []
    for bad in ('sorry', 'admit', 'native_decide', 'bv_decide', 'implemented_by', 'maxHeartbeats 0'):
        if re.search(r'\b' + re.escape(bad) + r'\b', body):
            problems.append('%s.lean mentions %s' % (prop, bad))
    if re.search(r'^\s*axiom\s', body, re.M):
        problems.append('%s.lean declares an axiom' % prop)
    audit = 'import PyndlProps.%s\n' % prop + ''.join('#print axioms %s%s\n' % (prefix, n) for n in names)
    af = os.path.join(LEAN_DIR, '.lake', 'audit_%s_%d.lean' % (prop, os.getpid()))
    os.makedirs(os.path.dirname(af), exist_ok=True)
    open(af, 'w', encoding='utf-8').write(audit)
    try:
        r = subprocess.run(['lake', 'env', 'lean', af], cwd=LEAN_DIR, capture_output=True, text=True, encoding='utf-8', errors='replace')
        if r.returncode < 0:
            raise Infra('the axiom audit (lake env lean) was killed: return code %s' % r.returncode)
    finally:
        os.unlink(af)
    out = r.stdout + r.stderr
    details = {}
    for m in _AX_RE.finditer(out):
        axs = [a.strip() for a in (m.group(2) or '').replace('\n', ' ').split(',') if a.strip()]
        details[m.group(1)] = axs
    discharged = 0
    for n in names:
        full = prefix + n
        if full not in details:
            problems.append('no axiom report for %s' % full)
            continue
        extra = [a for a in details[full] if a not in ALLOWED_AXIOMS]
        if extra:
            problems.append('%s depends on %s' % (full, extra))
        else:
            discharged += 1
    if r.returncode != 0:
        problems.append('audit file failed to elaborate: ' + out[-1500:])
    return len(names), discharged, details, problems


def strip_lean_comments(s):
    s = re.sub(r'/-.*?-/', '', s, flags=re.S)
    s = re.sub(r'--[^\n]*', '', s)
    return s


def scan_lean_tree():
    """grep the whole Lean tree for things the trusted base forbids"""
    problems = []
    for root, _dirs, files in os.walk(LEAN_DIR):
        if '.lake' in root:
            continue
        for n in files:
            if not n.endswith('.lean'):
                continue
            p = os.path.join(root, n)
            body = strip_lean_comments(open(p, encoding='utf-8').read())
            for bad in ('sorry', 'admit', 'native_decide', 'bv_decide', 'implemented_by'):
                if re.search(r'\b' + bad + r'\b', body):
                    problems.append('%s: %s' % (os.path.relpath(p, LEAN_DIR), bad))
            if re.search(r'^\s*axiom\s', body, re.M):
                problems.append('%s: axiom' % os.path.relpath(p, LEAN_DIR))
            if re.search(r'maxHeartbeats\s+0\b', body):
                problems.append('%s: maxHeartbeats 0' % os.path.relpath(p, LEAN_DIR))
            if re.search(r'\bunsafe\s', body):
                problems.append('%s: unsafe' % os.path.relpath(p, LEAN_DIR))
            if 'PyndlModel' in root and re.search(r'\bpartial\s+def\b', body):
                problems.append('%s: partial def inside the model' % os.path.relpath(p, LEAN_DIR))
    return problems


class lean_lock:
    """
    Exclusive lock around everything that reads or writes lean/ (Generated.lean, `lake build`, the
    axiom audit, leanchecker): several ./check invocations may run at the same time, possibly
    against different source trees, and must not see each other's generated constants or
    half-written .olean files.
    """

    def __enter__(self):
        import fcntl
        os.makedirs(SCRATCH_ROOT, exist_ok=True)
        self.f = open(os.path.join(SCRATCH_ROOT, 'lean.lock'), 'w')
        fcntl.flock(self.f, fcntl.LOCK_EX)
        return self

    def __exit__(self, *a):
        import fcntl
        fcntl.flock(self.f, fcntl.LOCK_UN)
        self.f.close()
        return False


def private_driver():
    """copy the driver binary built under the lock to a directory of this run, so that a later
    `lake build` by another invocation cannot swap the model under a running campaign"""
    global DRIVER
    os.makedirs(SCRATCH_ROOT, exist_ok=True)
    d = tempfile.mkdtemp(prefix='run-%d-drv-' % os.getpid(), dir=SCRATCH_ROOT)
    _live_dirs.append(d)
    dst = os.path.join(d, 'pyndl-driver')
    shutil.copy2(DRIVER, dst)
    DRIVER = dst
    return dst


class Driver:
    """the compiled Lean model driver; batch mode (requests file in, replies out)"""

    def __init__(self):
        if not os.path.exists(DRIVER):
            raise Infra('driver not built: ' + DRIVER)
        self.calls = 0

    def ask(self, requests, timeout=1800):
        if not requests:
            return []
        d = tempfile.mkdtemp(prefix='drv-', dir=SCRATCH_ROOT)
        try:
            inp = os.path.join(d, 'in.jsonl')
            with open(inp, 'w', encoding='utf-8') as f:
                for i, r in enumerate(requests):
                    r = dict(r)
                    r['id'] = i
                    f.write(json.dumps(r, ensure_ascii=False) + '\n')
            with open(inp, 'rb') as fin:
                try:
                    p = subprocess.run([DRIVER], stdin=fin, capture_output=True, text=True, encoding='utf-8', timeout=timeout)
                except subprocess.TimeoutExpired:
                    raise Infra('the model driver did not answer %d requests within %d s' % (len(requests), timeout))
            if p.returncode != 0:
                raise Infra('driver crashed: ' + p.stderr[-2000:])
            out = [json.loads(l) for l in p.stdout.split('\n') if l.strip()]
            if len(out) != len(requests):
                raise Infra('driver answered %d of %d requests; stderr=%s'
                            % (len(out), len(requests), p.stderr[-500:]))
            for i, o in enumerate(out):
                if o.get('id') != i:
                    raise Infra('driver reply out of order')
                if 'fatal' in o:
                    raise Infra('driver rejected request %d: %s :: %s'
                                % (i, o['fatal'], json.dumps(requests[i])[:400]))
            self.calls += len(requests)
            return out
        finally:
            shutil.rmtree(d, ignore_errors=True)


# --------------------------------------------------------------------------
# exact rationals
# --------------------------------------------------------------------------

def rat(x):
    """'num/den' for a float, int, Fraction or 'num/den' string"""
    if isinstance(x, str):
        return x
    f = Fraction(x)
    return '%d/%d' % (f.numerator, f.denominator)


def frac(s):
    n, _, d = s.partition('/')
    return Fraction(int(n), int(d or 1))


TOL = Fraction(1, 2 ** 30)


def close(impl, model, exact):
    """exact equality in the exact-dyadic domain, relative 2^-30 otherwise"""
    fi = Fraction(impl)
    if exact:
        return fi == model
    return abs(fi - model) <= TOL * max(1, abs(model))


# --------------------------------------------------------------------------
# outcome classification
# --------------------------------------------------------------------------

def classify(exc):
    if isinstance(exc, KeyError):
        return 'Raised:Key'
    if isinstance(exc, ValueError):
        return 'Raised:Value'
    if isinstance(exc, OSError):
        return 'Raised:IO'
    if isinstance(exc, TypeError):
        return 'Raised:Type'
    return 'Raised:Other'


# --------------------------------------------------------------------------
# known findings, replays, evidence
# --------------------------------------------------------------------------

def known_findings(prop):
    out = []
    p = os.path.join(VERIF, 'known_findings.jsonl')
    if os.path.exists(p):
        for line in open(p, encoding='utf-8'):
            line = line.strip()
            if line:
                e = json.loads(line)
                if e.get('property') == prop and e.get('status') == 'known':
                    out.append(e)
    return out


class Report:
    """collects what a check run covered and what it found"""

    def __init__(self, prop, tier):
        self.prop = prop
        self.tier = tier
        self.t0 = time.time()
        self.evaluations = 0
        self.nontrivial = set()
        self.samples = []
        self.distribution = {}
        self.violations = []       # (kind, replay dict)
        self.known_hit = []
        self.obligations = 0
        self.discharged = 0
        self.lean_problems = []
        self.axioms = {}
        self.extra = {}
        self.streams = {}

    def count(self, key, n=1):
        self.distribution[key] = self.distribution.get(key, 0) + n

    def case(self, canonical, nontrivial=True, stream=None):
        self.evaluations += 1
        if stream:
            self.streams[stream] = self.streams.get(stream, 0) + 1
        if nontrivial:
            self.nontrivial.add(hashlib.sha1(json.dumps(canonical, sort_keys=True, default=str)
                                             .encode()).hexdigest())

    def sample(self, s, limit=4):
        if len(self.samples) < limit:
            self.samples.append(s)

    def violation(self, replay, found_input=True):
        self.violations.append((found_input, replay))

    def known(self, finding, what):
        self.known_hit.append((finding, what))


def write_replay(prop, tier, n, replay):
    d = os.path.join(VERIF, 'replays')
    os.makedirs(d, exist_ok=True)
    p = os.path.join(d, '%s-%s-%d-%d.json' % (prop, tier, seed(), n))
    with open(p, 'w', encoding='utf-8') as f:
        json.dump(replay, f, indent=1, ensure_ascii=False, default=str)
    return p


def finish(rep, rule, trusted_base, assumptions, checker_cmd, level='proof'):
    """write the evidence file, print KNOWN-FINDING / VIOLATION lines, return exit code"""
    wall = time.time() - rep.t0
    lines = []
    exit_code = 0
    per_finding = {}
    for finding, what in rep.known_hit:
        per_finding.setdefault(finding['id'], (finding, []))[1].append(what)
    for fid, (finding, whats) in per_finding.items():
        # one line per listed finding: the first witness of this run, and how many inputs hit it
        lines.append('KNOWN-FINDING: property=%s %s (%s)%s' % (
            rep.prop, fid + ' ' + finding['what'][:160], whats[0],
            ' [%d inputs of this run]' % len(whats) if len(whats) > 1 else ''))
    n = 0
    for found_input, replay in rep.violations[:20]:
        replay = dict(replay)
        replay.setdefault('property', rep.prop)
        replay['kind'] = 'failing-input' if found_input else 'no-failing-input-found'
        replay['tier'] = rep.tier
        replay['seed'] = seed()
        path = write_replay(rep.prop, rep.tier, n, replay)
        n += 1
        tail = '' if found_input else ' no-failing-input-found'
        lines.append('VIOLATION property=%s replay=%s%s' % (rep.prop, path, tail))
        exit_code = 1
    cov = {
        'obligations': rep.obligations,
        'discharged': rep.discharged,
        'checker_cmd': checker_cmd,
        'trusted_base': trusted_base,
        'evaluations': rep.evaluations,
        'distinct_nontrivial': len(rep.nontrivial),
        'rule': rule,
        'samples': rep.samples if rep.samples else [{'note': 'no case ran'}],
        'distribution': rep.distribution,
        'streams': rep.streams,
        'axioms_per_theorem': rep.axioms,
        'lean_problems': rep.lean_problems,
        'known_findings_hit': [f['id'] for f, _ in rep.known_hit],
    }
    cov.update(rep.extra)
    ev = {
        'property_id': rep.prop,
        'tier': rep.tier,
        'seed': seed(),
        'level': level,
        'coverage': cov,
        'assumptions': assumptions,
        'wall_s': round(wall, 2),
        'violations': len(rep.violations),
    }
    # evidence/ only ever holds runs against /repo itself; runs against another tree
    # (PYNDL_REPO=<scratch copy with a seeded change>) go to a git-ignored directory
    evdir = 'evidence' if os.path.realpath(REPO) == '/repo' else 'evidence_other_tree'
    ev['repo'] = os.path.realpath(REPO)
    os.makedirs(os.path.join(VERIF, evdir), exist_ok=True)
    # written atomically (two invocations for the same property may finish together)
    evpath = os.path.join(VERIF, evdir, rep.prop + '.json')
    tmp = '%s.%d.tmp' % (evpath, os.getpid())
    with open(tmp, 'w', encoding='utf-8') as f:
        json.dump(ev, f, indent=1, ensure_ascii=False, default=str, allow_nan=False)
    os.replace(tmp, evpath)
    for l in lines:
        print(l)
    print('%s tier=%s seed=%d evaluations=%d distinct_nontrivial=%d obligations=%d discharged=%d '
          'violations=%d wall=%.1fs' % (rep.prop, rep.tier, seed(), rep.evaluations, len(rep.nontrivial),
                                        rep.obligations, rep.discharged, len(rep.violations), wall))
    sys.stdout.flush()
    return exit_code
