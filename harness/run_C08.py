"""
C08 — Widrow-Hoff learners follow the delta rule in all vector flavours.
Lean (PyndlProps/C08.lean): delta_rule_row, whR2R_eq_spec, whB2R_eq_spec,
whR2B_eq_spec (each kernel = delta rule on its own row, no other row touched),
binary_is_indicator, wh_schedule_independent (every valid OpenMP schedule),
wh_driver_eq_spec, single_cue_outcome, wh_table_order.
Correspondence: wh.wh in its three vector flavours (openmp; r2b also through
_wh_real_to_binary with beta1 != beta2, lambda != 1), method='numpy' and
dict_wh on single-cue/single-outcome events, against the Lean model whModel:
events with 1..4 cues/outcomes incl. repeats, tables with 1..23 dimensions and
shuffled row order, dyadic entries, all n_jobs x n_outcomes_per_job; values and
dimension labels compared exactly; names missing from a table -> exception
class; continuation chains (2..3 pieces, new binary-side labels) vs the single
pass (C03 for the wh flavours); stream many_chunks: 23..38 events with
events_per_temporary_file in {2, 3}, i.e. 11..15 chunk files, for each flavour;
streams numpy_shapes / dict_wh_shapes: continuation with weights=, remove_duplicates
None / False, repeated name under policy 'error', dict_wh make_data_array and
list / generator input; stream outcome_less: events with an empty outcome field
(the outcome named '').
Models of the Python paths (lean/PyndlModel/WHPy.lean; C08 wh_numpy_eq_spec,
dict_wh_eq_spec, wh_implementations_alike): EVERY numpy / dict_wh case above is
also compared with `whNumpyModel` / `dictWhModel` (driver ops wh_numpy / dict_wh,
the calls of a chain one by one); stream py_errors: events with two cues / two
outcomes / a repeat under remove_duplicates=False (AssertionError), no outcome,
names without a vector (numpy: ValueError from the table check, before any
AssertionError; dict_wh: KeyError at that event), one or two defects per file, also
inside chains (which call fails) - compared with these models only; stream
numpy_given_weights: method='numpy' with weights= whose labels are the same /
permuted / foreign / repeated / of another shape (both models).
"""
import gen
import whgen
from common import rng

TIMEOUT = 120
CUES = ['a', 'b', 'c', 'd', 'ä']
OUTS = ['x', 'y', 'z', 'ö']


def wh_events(r, n, max_c=4, max_o=3, dup=0.3, single=False):
    es = []
    for _ in range(n):
        if single:
            es.append([[r.choice(CUES)], [r.choice(OUTS)]])
            continue
        kc, ko = r.randint(1, max_c), r.randint(1, max_o)
        cs = [r.choice(CUES) for _ in range(kc)] if r.random() < dup else r.sample(CUES, min(kc, len(CUES)))
        os_ = [r.choice(OUTS) for _ in range(ko)] if r.random() < dup else r.sample(OUTS, min(ko, len(OUTS)))
        es.append([cs, os_])
    return es


def make_case(r, flavour, single=False, chain=False, missing=False):
    n = r.randint(1, 6)
    es = wh_events(r, n, single=single)
    has_dup = gen.has_dup(es)
    t = {'op': 'wh', 'flavour': flavour, 'events': es, 'eta': r.choice(whgen.ETAS),
         'policy': r.choice(['dedup', 'keep']) if has_dup else r.choice(['error', 'dedup', 'keep']),
         'n_jobs': r.choice([1, 2, 3, 8]), 'per_job': r.choice([1, 2, 3, 10, 30]), 'per_file': r.choice([2, 3, 10000000])}
    cue_names = [c for c in CUES if not (missing and c == 'ä')]
    if flavour in ('r2r', 'r2b'):
        t['cue_vectors'] = whgen.table(r, cue_names, r.choice([1, 2, 3, 4, 5, 6, 8, 10, 23]), prefix='cd')
    if flavour in ('r2r', 'b2r'):
        t['outcome_vectors'] = whgen.table(r, OUTS if not missing else OUTS[:-1], r.choice([1, 2, 3, 4, 6, 7, 9, 10, 23]), prefix='od')
    # chunk sizes tied to ONE of the matrix dimensions (divisor / equal / off by one), so that a
    # partition computed from the wrong dimension shows (seeded changes C08_a, C14_a)
    dims = [len(t[k]['dims']) for k in ('cue_vectors', 'outcome_vectors') if k in t] + [len(OUTS), len(CUES)]
    if r.random() < 0.6:
        d = r.choice(dims)
        t['per_job'] = r.choice([x for x in (d, max(1, d // 2), d + 1, max(1, d - 1), max(1, d // 3)) if x >= 1])
    if flavour == 'r2b' and r.random() < 0.5:
        p = gen.params(r)
        t.update(betas_direct=True, beta1=p['beta1'], beta2=p['beta2'], **{'lambda': p['lambda']})
    if chain and n >= 2:
        k = r.randint(1, n - 1)
        t['pieces'] = [es[:k], es[k:]] if n < 4 or r.random() < 0.5 else [es[:1], es[1:k + 1], es[k + 1:]] if k + 1 < n else [es[:k], es[k:]]
        t['pieces'] = [p for p in t['pieces'] if p]
    return t


def make_many_chunks_case(r, flavour):
    """>= 11 chunk files (audit X7): the numeric sort of the chunk file names in each of the three
    wh flavours (wh.py: 'sort binary files as they were created') only matters from events_0_10.dat on.
    Small tables / small eta keep 23..38 events contractive (tolerance domain stays meaningful)."""
    per_file = r.choice([2, 3])
    n = r.randint(23, 30) if per_file == 2 else r.randint(31, 38)
    es = wh_events(r, n, max_c=2, max_o=2, dup=0.2)
    has_dup = gen.has_dup(es)
    t = {'op': 'wh', 'flavour': flavour, 'events': es, 'eta': r.choice(['1/16', '1/32']),
         'policy': r.choice(['dedup', 'keep']) if has_dup else r.choice(['error', 'dedup', 'keep']),
         'n_jobs': r.choice([1, 2, 3, 8]), 'per_job': r.choice([1, 2, 3, 10]), 'per_file': per_file}
    if flavour in ('r2r', 'r2b'):
        t['cue_vectors'] = whgen.table(r, CUES, r.choice([1, 2, 3]), prefix='cd', small=True)
    if flavour in ('r2r', 'b2r'):
        t['outcome_vectors'] = whgen.table(r, OUTS, r.choice([1, 2, 3]), prefix='od', small=True)
    return t


# duplicate policies the numpy / dict_wh shapes draw from (remove_duplicates None / False / True)
SHAPE_POLICIES = ['error', 'keep', 'dedup']


def make_shape_case(r, method, repeat_side=None):
    """method='numpy' and dict_wh in the shapes their signatures allow (wh.py:158-160, 842-879), on single-cue /
    single-outcome events (both assert exactly one cue and one outcome per event): continuation with `weights=`
    (2..3 calls), remove_duplicates None / False, a repeated name under policy 'error' (ValueError expected),
    dict_wh: make_data_array (last call), events as path / list / generator.  Compared with whModel (r2r)."""
    t = make_case(r, 'r2r', single=True)
    t['method'] = method
    t['policy'] = r.choice(SHAPE_POLICIES)
    es = t['events']
    if repeat_side is not None:
        # a repeated name in one event (cue side 0 / outcome side 1): 'error' -> ValueError, 'dedup' -> the single
        # name; under 'keep' it would be two cues, which both methods reject by assertion (outside the property)
        t['policy'] = r.choice([p for p in SHAPE_POLICIES if p != 'keep'])
        k = r.randrange(len(es))
        es[k][repeat_side] = es[k][repeat_side] * 2
        t['repeat'] = ['cue', 'outcome'][repeat_side]
    n = len(es)
    n_pieces = r.choice([1, 2, 3])
    if n_pieces > 1 and n >= 2:
        cuts = sorted(r.sample(range(1, n), min(n_pieces - 1, n - 1)))
        t['pieces'] = [es[a:b] for a, b in zip([0] + cuts, cuts + [n])]
    if method == 'dict_wh':
        t['make_data_array'] = r.random() < 0.5
        t['events_form'] = r.choice(['path', 'list', 'generator'])
    return t


def make_outcome_less_case(r, flavour):
    """events without outcomes: the text format turns the empty field into the outcome named '' -- an ordinary
    binary outcome for r2b; for r2r / b2r an ordinary table row (half of the cases) or a missing vector"""
    t = make_case(r, flavour)
    for e in t['events']:
        if r.random() < 0.4:
            e[1] = []
    if all(e[1] for e in t['events']):
        t['events'][r.randrange(len(t['events']))][1] = []
    t['policy'] = r.choice(['dedup', 'keep']) if gen.has_dup(t['events']) else r.choice(['error', 'dedup', 'keep'])
    if flavour != 'r2b':
        t['empty_name_in_table'] = r.random() < 0.5
        if t['empty_name_in_table']:
            t['outcome_vectors'] = whgen.table(r, OUTS + [''], len(t['outcome_vectors']['dims']), prefix='od')
    return t


PY_ERROR_KINDS = ['two_cues', 'two_outcomes', 'repeat_keep', 'unknown_cue', 'unknown_outcome', 'no_outcome']


def _spoil(r, t, e, kind):
    """make event `e` of task `t` one that method='numpy' / dict_wh do not learn from"""
    if kind == 'two_cues':
        e[0] = r.sample(CUES, 2)
    elif kind == 'two_outcomes':
        e[1] = r.sample(OUTS, 2)
    elif kind == 'repeat_keep':
        side = r.randrange(2)
        e[side] = e[side] * 2
        t['policy'] = 'keep'
    elif kind == 'unknown_cue':
        e[0] = ['q']
    elif kind == 'unknown_outcome':
        e[1] = ['q']
    elif kind == 'no_outcome':
        e[1] = []


def make_py_error_case(r, method):
    """one or two events the Python paths reject (wh.py:275-293 / 850-869), anywhere in the file, also in chains"""
    t = make_case(r, 'r2r', single=True)
    t['method'] = method
    t['policy'] = r.choice(SHAPE_POLICIES)
    es = t['events']
    kinds = [r.choice(PY_ERROR_KINDS)]
    if len(es) >= 2 and r.random() < 0.5:
        kinds.append(r.choice(PY_ERROR_KINDS))
    for k, kind in zip(r.sample(range(len(es)), len(kinds)), kinds):
        _spoil(r, t, es[k], kind)
    t['spoiled'] = kinds
    n = len(es)
    if n >= 2 and r.random() < 0.4:
        k = r.randint(1, n - 1)
        t['pieces'] = [es[:k], es[k:]]
    if method == 'dict_wh':
        t['make_data_array'] = r.random() < 0.5
        t['events_form'] = r.choice(['path', 'list', 'generator'])
    return t


def make_numpy_given_weights_case(r):
    """method='numpy' with weights= handed in by the caller: the label handling of _wh_real_to_real (shape check,
    aligned comparison, .loc by label) runs before the numpy loop as before the OpenMP call"""
    t = make_case(r, 'r2r', single=True)
    t['method'] = 'numpy'
    t['policy'] = r.choice(SHAPE_POLICIES)
    hows = ['same', 'permuted', 'foreign', 'one_foreign', 'repeat', 'shorter', 'longer']
    if r.random() < 0.5:
        hows = ['same', 'permuted']
    cols = _relabel(r, t['cue_vectors']['dims'], r.choice(hows))
    rows = _relabel(r, t['outcome_vectors']['dims'], r.choice(hows))
    t['init'] = {'rows': rows, 'cols': cols,
                 'vals': ['%d/%d' % (r.randint(-4, 4), r.choice([1, 2, 4])) for _ in range(len(rows) * len(cols))]}
    t['given_labels'] = [rows, cols]
    return t


def _evaluate(pool, driver, t):
    impl = pool.map([t])[0]
    model = driver.ask([whgen.model_request(t)])[0]
    return whgen.compare(impl, model), impl, model


def _relabel(r, labels, how):
    labels = list(labels)
    if how == 'same':
        return labels
    if how == 'permuted':
        out = labels[:]
        r.shuffle(out)
        return out
    if how == 'foreign':
        return ['z%d' % i for i in range(len(labels))]
    if how == 'one_foreign' and labels:
        out = labels[:]
        out[r.randrange(len(out))] = 'zz'
        return out
    if how == 'repeat' and len(labels) >= 2:
        out = labels[:]
        out[1] = out[0]
        return out
    if how == 'shorter' and len(labels) >= 2:
        return labels[:-1]
    if how == 'longer':
        return labels + ['extra']
    return labels


def make_given_weights_case(r, flavour):
    t = make_case(r, flavour)
    t.pop('pieces', None)
    hows = ['same', 'permuted', 'foreign', 'one_foreign', 'repeat', 'shorter', 'longer']
    if flavour == 'r2r' and r.random() < 0.4:
        hows = ['same', 'permuted']          # both axes acceptable: the re-alignment itself is exercised
    if flavour in ('r2r', 'r2b'):
        cols = _relabel(r, t['cue_vectors']['dims'], r.choice(hows))
    else:
        cols = r.sample(CUES + ['q'], r.randint(0, 4))          # binary side: any cue names, new ones get appended
    if flavour in ('r2r', 'b2r'):
        rows = _relabel(r, t['outcome_vectors']['dims'], r.choice(hows if flavour == 'r2r' else hows[:4] + hows[5:]))
    else:
        rows = r.sample(OUTS + ['q'], r.randint(0, 3))
    t['init'] = {'rows': rows, 'cols': cols,
                 'vals': ['%d/%d' % (r.randint(-4, 4), r.choice([1, 2, 4])) for _ in range(len(rows) * len(cols))]}
    t['given_labels'] = [rows, cols]
    return t


def run(rep, pool, driver, tier):
    r = rng('C08')
    quick = tier == 'quick'
    tasks = []
    r_mc = rng('C08/many_chunks')
    for i in range(2 if quick else 20):
        for flavour in ('r2r', 'b2r', 'r2b'):
            tasks.append((make_many_chunks_case(r_mc, flavour), 'many_chunks'))
    for i in range(30 if quick else 350):
        for flavour in ('r2r', 'b2r', 'r2b'):
            tasks.append((make_case(r, flavour), 'openmp'))
            if i % 3 == 0:
                tasks.append((make_case(r, flavour, chain=True), 'chain'))
            if i % 7 == 0:
                tasks.append((make_case(r, flavour, missing=True), 'missing_vector'))
        t = make_case(r, 'r2r', single=True)
        t['policy'] = 'error'
        tasks.append((dict(t, method='numpy'), 'numpy'))
        t2 = make_case(r, 'r2r', single=True)
        t2['policy'] = 'error'
        tasks.append((dict(t2, method='dict_wh'), 'dict_wh'))
    r_sh = rng('C08/shapes')
    for i in range(12 if quick else 150):
        rs = {0: 0, 3: 1}.get(i % 6)      # every sixth case repeats a cue, every sixth an outcome
        tasks.append((make_shape_case(r_sh, 'numpy', rs), 'numpy_shapes'))
        tasks.append((make_shape_case(r_sh, 'dict_wh', rs), 'dict_wh_shapes'))
    r_ol = rng('C08/outcome_less')
    for i in range(6 if quick else 60):
        for flavour in ('r2b', 'r2b', 'r2r', 'b2r'):
            tasks.append((make_outcome_less_case(r_ol, flavour), 'outcome_less'))
    # weights= handed in by the caller with labels that are NOT the table's: each flavour checks them its own
    # way (b2r: identical list or ValueError; r2b: xarray-aligned comparison — positional use, ValueError only
    # when alignment fails or the width differs; r2r: shape, alignment, then .loc by label — permutations are
    # re-aligned, a missing label is a KeyError); model: whModel's `some w` branch (C08 wh_continue_label_check_*)
    r_gw = rng('C08/given_weights_labels')
    for i in range(8 if quick else 80):
        for flavour in ('r2r', 'b2r', 'r2b'):
            tasks.append((make_given_weights_case(r_gw, flavour), 'given_weights_labels'))
    r_pe = rng('C08/py_errors')
    for i in range(14 if quick else 160):
        tasks.append((make_py_error_case(r_pe, 'numpy'), 'py_errors'))
        tasks.append((make_py_error_case(r_pe, 'dict_wh'), 'py_errors'))
    r_ng = rng('C08/numpy_given_weights')
    for i in range(10 if quick else 100):
        tasks.append((make_numpy_given_weights_case(r_ng), 'numpy_given_weights'))
    impls = pool.map([t for t, _ in tasks])
    models = driver.ask([whgen.model_request(t) for t, _ in tasks])
    # the models of the Python paths themselves
    py_idx = [i for i, (t, _) in enumerate(tasks) if t.get('method') in ('numpy', 'dict_wh')]
    py_models = dict(zip(py_idx, driver.ask([whgen.py_model_request(tasks[i][0]) for i in py_idx])))
    for i in py_idx:
        t, stream = tasks[i]
        pm, impl = py_models[i], impls[i]
        m = t['method']
        rep.count('py_model:%s:%s' % (m, pm.get('err', 'Returned')))
        if stream == 'py_errors':
            rep.count('py_errors:%s:%s:%s' % (m, '+'.join(sorted(t['spoiled'])), pm.get('err', 'Returned')))
            if pm.get('err'):
                rep.count('py_errors:failed_call:%s' % pm.get('failed_piece'))
        if stream == 'numpy_given_weights':
            rep.count('numpy_given_weights:%s' % pm.get('err', 'accepted'))
        d = whgen.compare_py(impl, pm)
        if d is not None:
            rep.violation({'what': d, 'input': t, 'observed': impl.get('cells', impl.get('err')), 'expected': pm.get('cells', pm.get('err')),
                           'theorem_or_stream': 'C08 %s: %s (%s) vs its own Lean model %s' % (
                               'wh_numpy_eq_spec' if m == 'numpy' else 'dict_wh_eq_spec',
                               "wh.wh(method='numpy')" if m == 'numpy' else 'wh.dict_wh', stream,
                               'whNumpyModel' if m == 'numpy' else 'dictWhModel')})
    for (t, stream), impl, model in zip(tasks, impls, models):
        if stream == 'py_errors':
            # outside what whModel describes (it learns from several cues / outcomes): compared with the
            # models of the Python paths only (above)
            rep.case({k: v for k, v in t.items() if k != 'op'}, nontrivial=True, stream=stream)
            rep.count('flavour:' + t['flavour'])
            continue
        rep.case({k: v for k, v in t.items() if k != 'op'}, nontrivial=True, stream=stream)
        rep.count('flavour:' + t['flavour'])
        if stream == 'given_weights_labels':
            rep.count('given_weights:%s:%s' % (t['flavour'], model.get('err', 'accepted')))
        rep.count('outcome:' + model.get('err', 'Returned'))
        if 'err' not in model:
            rep.count('exact_domain' if model['bits'] <= 49 else 'tolerance_domain')
        if stream == 'many_chunks':
            k = whgen.n_chunk_files(len(t['events']), t['per_file'])
            rep.count('chunk_files:%d' % k)
            rep.count('many_chunks_per_file:%d' % t['per_file'])
            # would this case see a lexicographically sorted chunk list?  (model on the permuted events)
            alt = driver.ask([whgen.model_request(dict(t, events=whgen.lexsorted_events(t['events'], t['per_file'])))])[0]
            rep.count('many_chunks_sees_lexsort:%s:%s' % (t['flavour'], 'yes' if alt.get('cells') != model.get('cells') else 'no'))
        if stream in ('numpy_shapes', 'dict_wh_shapes'):
            m = t['method']
            rep.count('%s:policy:%s' % (m, t['policy']))
            rep.count('%s:calls:%d' % (m, len(t.get('pieces') or [0])))
            rep.count('%s:repeated_name:%s' % (m, t.get('repeat', 'no')))
            if m == 'dict_wh':
                rep.count('dict_wh:make_data_array:%s' % t['make_data_array'])
                rep.count('dict_wh:events_form:' + t['events_form'])
                if 'err' not in impl:
                    rep.count('dict_wh:result_type:' + str(impl.get('result_type')))
        if stream == 'outcome_less':
            rep.count('outcome_less:%s:%s' % (t['flavour'], 'binary' if t['flavour'] == 'r2b' else
                                              'table_row' if t['empty_name_in_table'] else 'missing_vector'))
        if stream == 'outcome_less' and 'err' in model and impl.get('err') == 'Raised:Value' and not t.get('empty_name_in_table', True):
            d = None      # no vector for the outcome '': ValueError from the table check (as stream missing_vector)
        elif stream == 'missing_vector' and 'err' in model and impl.get('err') in ('Raised:Value', 'Raised:Key'):
            d = None      # ValueError from the table check (KeyError for dict_wh): DESIGN §6 C05 table
        else:
            d = whgen.compare(impl, model)
        if d is not None and stream == 'many_chunks':
            small, steps = whgen.shrink_events(t, lambda c: _evaluate(pool, driver, c)[0] is not None)
            d2, impl2, model2 = _evaluate(pool, driver, small)
            if d2 is None:
                small, d2, impl2, model2 = t, d, impl, model
            rep.violation({'what': d2, 'input': small, 'observed': impl2.get('cells', impl2.get('err')),
                           'expected': model2.get('cells', model2.get('err')), 'python': whgen.python_snippet(small),
                           'chunk_files': whgen.n_chunk_files(len(small['events']), small['per_file']),
                           'shrunk_from_events': len(t['events']), 'shrink_steps': steps,
                           'theorem_or_stream': 'C08 wh*_eq_spec: wh.wh %s (%s, >= 11 chunk files) vs Lean whModel' % (t['flavour'], stream)})
        elif d is not None:
            rep.violation({'what': d, 'input': t, 'observed': impl.get('cells', impl.get('err')), 'expected': model.get('cells', model.get('err')),
                           'theorem_or_stream': 'C08 wh*_eq_spec: wh.wh %s (%s) vs Lean whModel' % (t['flavour'], stream)})
        elif len(t['events']) >= 2 and 'err' not in model:
            rep.sample({'flavour': t['flavour'], 'stream': stream, 'events': t['events'][:3], 'eta': t['eta'],
                        'cells': impl['cells'][:4]})
