"""
C08 — Widrow-Hoff learners follow the delta rule in all vector flavours.
Lean (PyndlProps/C08.lean): delta_rule_row, whR2R_eq_spec, whB2R_eq_spec,
whR2B_eq_spec (each kernel = delta rule on its own row, no other row touched),
binary_is_indicator, wh_schedule_independent (every valid OpenMP schedule),
wh_driver_eq_spec, single_cue_outcome, wh_table_order.
Correspondence: wh.wh in its three vector flavours (openmp; r2b also through
_wh_real_to_binary with beta1 != beta2, lambda != 1), method='numpy' and
dict_wh on single-cue/single-outcome events, against the Lean model whModel:
events with 1..4 cues/outcomes incl. repeats, tables with 1..23 dimensions and
shuffled row order, dyadic entries, all n_jobs x n_outcomes_per_job; values and
dimension labels compared exactly; names missing from a table -> exception
class; continuation chains (2..3 pieces, new binary-side labels) vs the single
pass (C03 for the wh flavours).
"""
import gen
import whgen
from common import rng

TIMEOUT = 120
CUES = ['a', 'b', 'c', 'd', 'ä']
OUTS = ['x', 'y', 'z', 'ö']


def wh_events(r, n, max_c=4, max_o=3, dup=0.3, single=False):
    es = []
    for _ in range(n):
        if single:
            es.append([[r.choice(CUES)], [r.choice(OUTS)]])
            continue
        kc, ko = r.randint(1, max_c), r.randint(1, max_o)
        cs = [r.choice(CUES) for _ in range(kc)] if r.random() < dup else r.sample(CUES, min(kc, len(CUES)))
        os_ = [r.choice(OUTS) for _ in range(ko)] if r.random() < dup else r.sample(OUTS, min(ko, len(OUTS)))
        es.append([cs, os_])
    return es


def make_case(r, flavour, single=False, chain=False, missing=False):
    n = r.randint(1, 6)
    es = wh_events(r, n, single=single)
    has_dup = gen.has_dup(es)
    t = {'op': 'wh', 'flavour': flavour, 'events': es, 'eta': r.choice(whgen.ETAS),
         'policy': r.choice(['dedup', 'keep']) if has_dup else r.choice(['error', 'dedup', 'keep']),
         'n_jobs': r.choice([1, 2, 3, 8]), 'per_job': r.choice([1, 2, 3, 10, 30]), 'per_file': r.choice([2, 3, 10000000])}
    cue_names = [c for c in CUES if not (missing and c == 'ä')]
    if flavour in ('r2r', 'r2b'):
        t['cue_vectors'] = whgen.table(r, cue_names, r.choice([1, 2, 3, 4, 5, 6, 8, 10, 23]), prefix='cd')
    if flavour in ('r2r', 'b2r'):
        t['outcome_vectors'] = whgen.table(r, OUTS if not missing else OUTS[:-1], r.choice([1, 2, 3, 4, 6, 7, 9, 10, 23]), prefix='od')
    # chunk sizes tied to ONE of the matrix dimensions (divisor / equal / off by one), so that a
    # partition computed from the wrong dimension shows (seeded changes C08_a, C14_a)
    dims = [len(t[k]['dims']) for k in ('cue_vectors', 'outcome_vectors') if k in t] + [len(OUTS), len(CUES)]
    if r.random() < 0.6:
        d = r.choice(dims)
        t['per_job'] = r.choice([x for x in (d, max(1, d // 2), d + 1, max(1, d - 1), max(1, d // 3)) if x >= 1])
    if flavour == 'r2b' and r.random() < 0.5:
        p = gen.params(r)
        t.update(betas_direct=True, beta1=p['beta1'], beta2=p['beta2'], **{'lambda': p['lambda']})
    if chain and n >= 2:
        k = r.randint(1, n - 1)
        t['pieces'] = [es[:k], es[k:]] if n < 4 or r.random() < 0.5 else [es[:1], es[1:k + 1], es[k + 1:]] if k + 1 < n else [es[:k], es[k:]]
        t['pieces'] = [p for p in t['pieces'] if p]
    return t


def run(rep, pool, driver, tier):
    r = rng('C08')
    quick = tier == 'quick'
    tasks = []
    for i in range(30 if quick else 350):
        for flavour in ('r2r', 'b2r', 'r2b'):
            tasks.append((make_case(r, flavour), 'openmp'))
            if i % 3 == 0:
                tasks.append((make_case(r, flavour, chain=True), 'chain'))
            if i % 7 == 0:
                tasks.append((make_case(r, flavour, missing=True), 'missing_vector'))
        t = make_case(r, 'r2r', single=True)
        t['policy'] = 'error'
        tasks.append((dict(t, method='numpy'), 'numpy'))
        t2 = make_case(r, 'r2r', single=True)
        t2['policy'] = 'error'
        tasks.append((dict(t2, method='dict_wh'), 'dict_wh'))
    impls = pool.map([t for t, _ in tasks])
    models = driver.ask([whgen.model_request(t) for t, _ in tasks])
    for (t, stream), impl, model in zip(tasks, impls, models):
        rep.case({k: v for k, v in t.items() if k != 'op'}, nontrivial=True, stream=stream)
        rep.count('flavour:' + t['flavour'])
        rep.count('outcome:' + model.get('err', 'Returned'))
        if 'err' not in model:
            rep.count('exact_domain' if model['bits'] <= 53 else 'tolerance_domain')
        if stream == 'missing_vector' and 'err' in model and impl.get('err') in ('Raised:Value', 'Raised:Key'):
            d = None      # ValueError from the table check (KeyError for dict_wh): DESIGN §6 C05 table
        else:
            d = whgen.compare(impl, model)
        if d is not None:
            rep.violation({'what': d, 'input': t, 'observed': impl.get('cells', impl.get('err')), 'expected': model.get('cells', model.get('err')),
                           'theorem_or_stream': 'C08 wh*_eq_spec: wh.wh %s (%s) vs Lean whModel' % (t['flavour'], stream)})
        elif len(t['events']) >= 2 and 'err' not in model:
            rep.sample({'flavour': t['flavour'], 'stream': stream, 'events': t['events'][:3], 'eta': t['eta'],
                        'cells': impl['cells'][:4]})
