import PyndlModel.RW
import PyndlModel.Kernel
import PyndlModel.Bytes
import PyndlModel.Ndl
import PyndlModel.Scalar
import PyndlModel.Generated
import PyndlModel.Queue
