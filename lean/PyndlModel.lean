import PyndlModel.RW
import PyndlModel.Kernel
