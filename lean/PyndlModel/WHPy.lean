/-
  PyndlModel.WHPy — the two Widrow–Hoff learners of wh.py that are NOT the
  OpenMP kernels:

  * `dictWhModel`  — `pyndl.wh.dict_wh` (wh.py:150-331), pure Python on a
    `WeightDict` (dict of dicts, rows created lazily), real → real only;
  * `whNumpyModel` — `pyndl.wh.wh(..., method='numpy')`, the numpy branch of
    `_wh_real_to_real` (wh.py:704-905, loop 842-879).

  Both accept exactly ONE cue and ONE outcome per event after the duplicate
  policy (`assert len(outcomes) == 1`, `assert len(cues) == 1`): anything else
  is an `AssertionError` — a class `Err` does not have, hence `PyErr`.

  Read against the source (and reproduced on the real code, xarray 2026.7):
  order of the checks for ONE event in both loops
    1. `remove_duplicates is None` and a repeated cue OR outcome ⇒ `ValueError`;
       `True` ⇒ `list(dict.fromkeys(…))` (first occurrences);
    2. `assert len(outcomes) == 1`  (first!)   ⇒ `AssertionError`;
    3. `assert len(cues) == 1`                 ⇒ `AssertionError`;
    4. `cue_vectors.loc[cues[0]]`, then `outcome_vectors.loc[outcomes[0]]`:
       `dict_wh` has NO table check before the loop, so an unknown cue (checked
       first) or outcome is a `KeyError` AT THAT EVENT; the numpy branch checks
       all names of the file against the tables BEFORE anything else
       (`ValueError`, outcomes first — the same check as the OpenMP branch), so
       inside its loop the look-ups cannot fail.
  The first offending event decides.
-/
import PyndlModel.WHModel

namespace Pyndl

/-- exception classes of the pure-Python / numpy learners: those of `Err`, and
    `AssertionError` (harness/impl_wh.py reports it as `Raised:Assertion`) -/
inductive PyErr where
  | std (e : Err)
  | assertion
deriving Repr, DecidableEq

section
variable {R : Type} [Add R] [Sub R] [Mul R] [Zero R]

/-- steps 1–3 for one event: the single cue and the single outcome it denotes -/
def singleEvent (p : DupPolicy) (e : Event String String) : Except PyErr (String × String) :=
  match applyPolicy p e with
  | none => .error (.std .value)
  | some e' =>
    match e'.outcomes with
    | [o] =>
      match e'.cues with
      | [c] => .ok (c, o)
      | _ => .error .assertion
    | _ => .error .assertion

/-- `table.loc[name].loc[dim]`: the entry of the row labelled `name` in the
    column labelled `dim` (row-major table) -/
def tabAt (t : VecTable R) (name dim : String) : R :=
  t.vals.getD (t.dims.length * t.names.idxOf name + t.dims.idxOf dim) 0

/-! ## `dict_wh` -/

/-- the two inner loops of `dict_wh` for ONE outcome vector dimension on its
    `defaultdict` row (wh.py:295-304):
      `prediction_strength += cue_vec.loc[k] * weights[o][k]`   for k in cue dims
      `error = outcome_vec.loc[o] - prediction_strength`
      `weights[o][k] += eta * error * cue_vec.loc[k]`             for k in cue dims
    (the model writes the last product as `cue_vec[k] * (eta * error)`: the same
    two scalars multiplied).  `target` = `outcome_vec.loc[o]`. -/
def dictWhRow (eta : R) (cdims : List String) (cvec : String → R) (target : R)
    (row : List (String × R)) : List (String × R) :=
  let pred := cdims.foldl (fun acc k => acc + cvec k * alGet row k) 0
  let err := target - pred
  cdims.foldl (fun r k => alSet r k (alGet r k + cvec k * (eta * err))) row

/-- one event (single cue `c`, single outcome `o`) on the weight dict: for every
    outcome vector dimension label, in table order, the row update.  A row is
    created when it is first touched (`weights[outcome_index][cue_index]`), i.e.
    only if there is at least one cue vector dimension. -/
def dictWhEvent (eta : R) (ct ot : VecTable R) (W : WDict String String R) (c o : String) :
    WDict String String R :=
  if ct.dims.isEmpty then W
  else ot.dims.foldl (fun W dl =>
    wdSetRow W dl (dictWhRow eta ct.dims (tabAt ct c) (tabAt ot o dl) (wdRow W dl))) W

/-- the event loop of `dict_wh` (wh.py:272-304) -/
def dictWhLoop (p : DupPolicy) (eta : R) (ct ot : VecTable R) :
    WDict String String R → List (Event String String) → Except PyErr (WDict String String R)
  | W, [] => .ok W
  | W, e :: es =>
    match singleEvent p e with
    | .error x => .error x
    | .ok (c, o) =>
      if !ct.names.contains c then .error (.std .key)
      else if !ot.names.contains o then .error (.std .key)
      else dictWhLoop p eta ct ot (dictWhEvent eta ct ot W c o) es

/-- **`dict_wh(events, eta, cue_vectors, outcome_vectors, weights=W0,
    remove_duplicates=p)`** with `make_data_array=False`: `W0 = []` is
    `weights=None` (a fresh `WeightDict()`); a given `WeightDict` is deep-copied
    (`inplace=False`), so the argument is not modified — the model is a function. -/
def dictWhModel (p : DupPolicy) (eta : R) (ct ot : VecTable R) (W0 : WDict String String R)
    (es : List (Event String String)) : Except PyErr (WDict String String R) :=
  dictWhLoop p eta ct ot W0 es

/-- `make_data_array=True` (wh.py:313-329): rows = `list(weights.keys())`,
    columns = the union of the row keys (a Python `set`: ANY order; the model
    takes first occurrences), missing cells 0 — the same construction as
    `ndl.data_array`, `lwFromDict`. -/
def dictWhModelArray (p : DupPolicy) (eta : R) (ct ot : VecTable R) (W0 : WDict String String R)
    (es : List (Event String String)) : Except PyErr (LW R) :=
  match dictWhModel p eta ct ot W0 es with
  | .error x => .error x
  | .ok W => .ok (lwFromDict W)

/-! ## `wh.wh(method='numpy')` -/

/-- the matrix `_wh_real_to_real` starts from (wh.py:813-837, the SAME code for
    all methods; copied from `whModel`): zeros, or the given weights after the
    shape check, the two label-aligned `all(… == …)` and `weights.loc[…]`. -/
def r2rInitWeights (ct ot : VecTable R) (W0 : Option (LW R)) : Except Err (Array R) :=
  let nC := ct.dims.length
  let nO := ot.dims.length
  match W0 with
  | none => .ok (Array.replicate (nO * nC) 0)
  | some w =>
    if w.outcomes.length ≠ nO ∨ w.cues.length ≠ nC then .error .value
    else if alignRaises ot.dims w.outcomes then .error .value
    else if alignRaises ct.dims w.cues then .error .value
    else match locAxis w.outcomes ot.dims with
      | some e => .error e
      | none =>
        match locAxis w.cues ct.dims with
        | some e => .error e
        | none => .ok (realignVals w ot.dims ct.dims)

/-- one event of the numpy loop (wh.py:871-873) on the flat row-major
    `(n_out_dims, n_cue_dims)` matrix, `c_vec` / `o_vec` the table rows of the
    single cue / outcome:
      `prediction_vec = weights.dot(cue_vec)`;  `error = outcome_vec - prediction_vec`;
      `weights += eta * error * cue_vec`   (outer product, broadcast),
    i.e. `W += eta * (o_vec - W c_vec) c_vec^T`. -/
def whNumpyStep (eta : R) (ct ot : VecTable R) (w : Array R) (c o : String) : Array R :=
  let nC := ct.dims.length
  let nO := ot.dims.length
  let cvec : Nat → R := fun k => ct.vals.getD (nC * ct.names.idxOf c + k) 0
  let ovec : Nat → R := fun d => ot.vals.getD (nO * ot.names.idxOf o + d) 0
  let errs : Array R := Array.ofFn (n := nO) (fun d =>
    ovec d.val - (List.range nC).foldl (fun acc k => acc + w.getD (flatIdx nC d.val k) 0 * cvec k) 0)
  Array.ofFn (n := nO * nC) (fun i =>
    w.getD i.val 0 + eta * errs.getD (i.val / nC) 0 * cvec (i.val % nC))

/-- the event loop of the numpy branch (wh.py:846-873) -/
def whNumpyLoop (p : DupPolicy) (eta : R) (ct ot : VecTable R) :
    Array R → List (Event String String) → Except PyErr (Array R)
  | w, [] => .ok w
  | w, e :: es =>
    match singleEvent p e with
    | .error x => .error x
    | .ok (c, o) => whNumpyLoop p eta ct ot (whNumpyStep eta ct ot w c o) es

/-- **`wh.wh(events, eta, cue_vectors=ct, outcome_vectors=ot, method='numpy',
    weights=W0, remove_duplicates=p)`**: the table checks on the names of the
    WHOLE file (outcomes first), the initial matrix, the loop; the result is
    labelled with the tables' dimensions. -/
def whNumpyModel (p : DupPolicy) (eta : R) (ct ot : VecTable R) (W0 : Option (LW R))
    (es : List (Event String String)) : Except PyErr (LW R) :=
  let (cuesEv, outsEv) := countNames es
  if outsEv.any (fun o => !ot.names.contains o) then .error (.std .value) else
  if cuesEv.any (fun c => !ct.names.contains c) then .error (.std .value) else
  match r2rInitWeights ct ot W0 with
  | .error e => .error (.std e)
  | .ok w0 =>
    match whNumpyLoop p eta ct ot w0 es with
    | .error x => .error x
    | .ok w => .ok ⟨ot.dims, ct.dims, w⟩

end

end Pyndl
