/-
  PyndlModel.WH — the three Widrow–Hoff kernels of ndl_parallel.pyx
  (`learn_inplace_binary_to_real_ptr` 174-257, `learn_inplace_real_to_real_ptr`
  260-368, `learn_inplace_real_to_binary_ptr` 371-475), line by line on flat
  arrays, and their OpenMP entry points (ndl_openmp.pyx 66-228).

  Tables are flat row-major arrays: `cueVecs[nCueDims * cue + k]`,
  `outVecs[nOutDims * outcome + d]`.
-/
import PyndlModel.Kernel

namespace Pyndl

section WH
variable {R : Type} [Add R] [Sub R] [Mul R] [Zero R]

/-- `summed_outcome_vector_value` (pyx 241-246 / 344-349) -/
def summedOut (outVecs : Array R) (nOutDims d : Nat) (outcomes : List Nat) : R :=
  outcomes.foldl (fun acc o => acc + outVecs.getD (nOutDims * o + d) 0) 0

/-- `summed_cue_vector_value` for dimension `kk` (pyx 333-338) -/
def summedCue (cueVecs : Array R) (nCueDims kk : Nat) (cues : List Nat) : R :=
  cues.foldl (fun acc c => acc + cueVecs.getD (nCueDims * c + kk) 0) 0

/-- binary cues → real outcome vectors; row `d` = outcome vector dimension -/
def whB2RRowEvent (eta : R) (outVecs : Array R) (nOutDims nCues : Nat) (w : Array R) (d : Nat)
    (cues outcomes : List Nat) : Array R :=
  let a := cues.foldl (fun acc c => acc + w.getD (flatIdx nCues d c) 0) 0
  let s := summedOut outVecs nOutDims d outcomes
  let u := eta * (s - a)
  cues.foldl (fun w c =>
    let i := flatIdx nCues d c
    w.setIfInBounds i (w.getD i 0 + u)) w

/-- `association_strength` of the real-cue kernels (pyx 331-342) -/
def realAssoc (cueVecs : Array R) (nCueDims : Nat) (w : Array R) (row : Nat) (cues : List Nat) : R :=
  (List.range nCueDims).foldl (fun acc kk =>
    acc + summedCue cueVecs nCueDims kk cues * w.getD (flatIdx nCueDims row kk) 0) 0

/-- the update loop of the real-cue kernels (pyx 353-363) -/
def realUpdate (cueVecs : Array R) (nCueDims : Nat) (u : R) (w : Array R) (row : Nat) (cues : List Nat) : Array R :=
  (List.range nCueDims).foldl (fun w kk =>
    let i := flatIdx nCueDims row kk
    w.setIfInBounds i (w.getD i 0 + u * summedCue cueVecs nCueDims kk cues)) w

/-- real cue vectors → real outcome vectors; row `d` = outcome vector dimension -/
def whR2RRowEvent (eta : R) (cueVecs outVecs : Array R) (nCueDims nOutDims : Nat) (w : Array R) (d : Nat)
    (cues outcomes : List Nat) : Array R :=
  let a := realAssoc cueVecs nCueDims w d cues
  let s := summedOut outVecs nOutDims d outcomes
  let u := eta * (s - a)
  realUpdate cueVecs nCueDims u w d cues

/-- real cue vectors → binary outcomes; row `ii` = outcome id -/
def whR2BRowEvent (β₁ β₂ lam : R) (cueVecs : Array R) (nCueDims : Nat) (w : Array R) (ii : Nat)
    (cues outcomes : List Nat) : Array R :=
  let a := realAssoc cueVecs nCueDims w ii cues
  let u := if isElementOf ii outcomes then β₁ * (lam - a) else β₂ * (0 - a)
  realUpdate cueVecs nCueDims u w ii cues

/-- generic micro-step executor: `step w row event` -/
def execWith (step : Array R → Nat → Event Nat Nat → Array R) (w : Array R) (s : List MicroStep) : Array R :=
  s.foldl (fun w st => step w st.row st.ev) w

/-- sequential reference schedule of an OpenMP entry point: file by file,
    inside a file chunk by chunk of `rows`, inside a chunk event by event, row
    by row (the kernel's loop nest). -/
def learnOmpWith (step : Array R → Nat → Event Nat Nat → Array R) (files : List (List (Event Nat Nat)))
    (rows : List Nat) (chunk : Nat) (w : Array R) : Array R :=
  files.foldl (fun w es =>
    (ompParts rows chunk).foldl (fun w part =>
      es.foldl (fun w e => part.foldl (fun w o => step w o e) w) w) w) w

end WH

end Pyndl
