/-
  PyndlModel.Activation — `pyndl.activation.activation` (activation.py:20-178):
  the labelled-matrix path (single- and multi-process) and the dict path.
-/
import PyndlModel.Ndl

namespace Pyndl

section
variable {R : Type} [Add R] [Sub R] [Mul R] [Zero R]

/-- the cue collection an event contributes under `remove_duplicates`
    (activation.py:72-81): `None` → ValueError on repeats, else the set;
    `True` → the set; `False` → the list with repetitions. -/
def actCues (p : DupPolicy) (cues : List String) : Except Err (List String) :=
  match p with
  | .error => if hasDup cues then .error .value else .ok cues
  | .dedup => .ok (dedupKeepFirst cues)
  | .keep => .ok cues

/-- cue names → column indices (activation.py:89-95): a cue that is not a label
    of the matrix is skipped with `ignore_missing_cues`, else `KeyError`. -/
def cueIndices (ignoreMissing : Bool) (labels : List String) : List String → Except Err (List Nat)
  | [] => .ok []
  | c :: cs =>
    if labels.contains c then
      match cueIndices ignoreMissing labels cs with
      | .ok r => .ok (labels.idxOf c :: r)
      | .error e => .error e
    else if ignoreMissing then cueIndices ignoreMissing labels cs
    else .error .key

/-- `weights[:, idx].sum(axis=1)` for one event: per outcome row the sum over
    the index tuple (an index occurring twice counts twice). -/
def actColumn (w : LW R) (idx : List Nat) : List R :=
  (List.range w.outcomes.length).map (fun i =>
    idx.foldl (fun acc j => acc + w.vals.getD (i * w.cues.length + j) 0) 0)

/-- the whole matrix path; rows of the result = events, columns = outcomes
    (the implementation returns the transpose, labelled by outcomes). -/
def activationMatrix (p : DupPolicy) (ignoreMissing : Bool) (w : LW R) :
    List (List String) → Except Err (List (List R))
  | [] => .ok []
  | cues :: rest =>
    match actCues p cues with
    | .error e => .error e
    | .ok cs =>
      match cueIndices ignoreMissing w.cues cs with
      | .error e => .error e
      | .ok idx =>
        match activationMatrix p ignoreMissing w rest with
        | .error e => .error e
        | .ok r => .ok (actColumn w idx :: r)

/-- the dict path (activation.py:106-114): for every outcome key, per event the
    sum of `cue_dict[cue]`; `strict` = the inner dicts are plain dicts (missing
    cue → KeyError) rather than defaultdicts (missing cue → 0). -/
def dictRowAct (strict : Bool) (row : List (String × R)) (cues : List String) : Except Err R :=
  if strict && cues.any (fun c => !(row.map (·.1)).contains c) then .error .key
  else .ok (cues.foldl (fun acc c => acc + alGet row c) 0)

end

end Pyndl
