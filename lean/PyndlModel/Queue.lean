/-
  PyndlModel.Queue — the work-queue protocol of `ndl.ndl(method='threading')`
  (ndl.py:241-271): a bounded `Queue` filled with all parts before any worker
  starts; each worker loops { with lock: if queue.empty(): break; data =
  queue.get() } ; kernel(data).  The check-then-get is one atomic transition
  because it happens under `queue_lock`.
-/
namespace Pyndl

inductive TState where
  | atHead                -- about to acquire the lock
  | running (part : Nat)  -- inside the kernel call for that part
  | done                  -- left the loop
  | failed                -- the kernel call raised: the worker recorded the exception and ended
deriving Repr, BEq, DecidableEq

structure QState where
  queue : List Nat         -- part indices still enqueued (FIFO)
  threads : List TState
  taken : List Nat         -- history of parts handed out, in order
deriving Repr, BEq, DecidableEq

inductive QAction where
  | take (t : Nat)    -- locked: queue non-empty → get()
  | exit (t : Nat)    -- locked: queue empty → break
  | finish (t : Nat)  -- kernel call returned
  | fail (t : Nat)    -- kernel call raised (e.g. TypeError for an unusable hyper-parameter)
deriving Repr, BEq, DecidableEq

def qInit (nParts nThreads : Nat) : QState :=
  ⟨List.range nParts, List.replicate nThreads .atHead, []⟩

/-- one transition; `none` when the action is not enabled in this state -/
def qStep (s : QState) : QAction → Option QState
  | .take t =>
    match s.threads[t]?, s.queue with
    | some .atHead, p :: rest => some ⟨rest, s.threads.set t (.running p), s.taken ++ [p]⟩
    | _, _ => none
  | .exit t =>
    match s.threads[t]?, s.queue with
    | some .atHead, [] => some ⟨[], s.threads.set t .done, s.taken⟩
    | _, _ => none
  | .finish t =>
    match s.threads[t]? with
    | some (.running _) => some ⟨s.queue, s.threads.set t .atHead, s.taken⟩
    | _ => none
  | .fail t =>
    match s.threads[t]? with
    | some (.running _) => some ⟨s.queue, s.threads.set t .failed, s.taken⟩
    | _ => none

def qRun (s : QState) : List QAction → Option QState
  | [] => some s
  | a :: as =>
    match qStep s a with
    | none => none
    | some s' => qRun s' as

def qFinal (s : QState) : Bool :=
  s.threads.all (fun st => decide (st = TState.done) || decide (st = TState.failed))

/-- `if worker_errors: raise worker_errors[0]` after all threads joined (ndl.py) -/
def qRaises (s : QState) : Bool := s.threads.any (fun st => decide (st = TState.failed))

/-- index of the first action of the trace that the protocol does not allow -/
def qFirstRejected (s : QState) : List QAction → Option Nat
  | [] => none
  | a :: as =>
    match qStep s a with
    | none => some 0
    | some s' => (qFirstRejected s' as).map (· + 1)

def tWeight : TState → Nat
  | .atHead => 1
  | .running _ => 2
  | .done => 0
  | .failed => 0

/-- termination measure: every transition decreases it by at least one, so every
    run from `qInit p t` has at most `2 p + t` transitions. -/
def qMeasure (s : QState) : Nat :=
  2 * s.queue.length + (s.threads.map tWeight).sum

/-! ## The protocol refined with the kernel calls' programs

`qStep` treats a kernel call as one opaque `running` phase.  Here the phase is
opened up: a worker that took part `p` holds the REMAINING PROGRAM of its kernel
call (initially `prog p`, the whole program of the part; for `ndl.ndl` the
micro-steps `partProgram p rows files`), executes it step by step (`micro`),
and can return (`finish`) only when nothing remains.  Steps of different
workers interleave arbitrarily.  The program counter is THREAD-LOCAL: if the
protocol handed a part out twice, its program would run twice — that each part
program runs exactly once is a theorem about this system
(`PyndlProofs/QueueSchedule.lean`), not built into it. -/

inductive RThread (α : Type) where
  | atHead
  | running (part : Nat) (rest : List α)
  | done
  | failed
deriving Repr, DecidableEq

structure RState (α : Type) where
  queue : List Nat
  threads : List (RThread α)
  taken : List Nat
deriving Repr, DecidableEq

inductive RAction where
  | take (t : Nat)    -- locked: queue non-empty → get(); the kernel call starts
  | exit (t : Nat)    -- locked: queue empty → break
  | micro (t : Nat)   -- the kernel call of worker t performs its next step
  | finish (t : Nat)  -- the kernel call has performed all its steps and returns
  | fail (t : Nat)    -- the kernel call raises (at any point of its program)
deriving Repr, DecidableEq

def rInit {α : Type} (nParts nThreads : Nat) : RState α :=
  ⟨List.range nParts, List.replicate nThreads .atHead, []⟩

/-- one transition, with the step of a kernel program it performs (if any) -/
def rStep {α : Type} (prog : Nat → List α) (s : RState α) : RAction → Option (RState α × Option α)
  | .take t =>
    match s.threads[t]?, s.queue with
    | some .atHead, p :: rest =>
      some (⟨rest, s.threads.set t (.running p (prog p)), s.taken ++ [p]⟩, none)
    | _, _ => none
  | .exit t =>
    match s.threads[t]?, s.queue with
    | some .atHead, [] => some (⟨[], s.threads.set t .done, s.taken⟩, none)
    | _, _ => none
  | .micro t =>
    match s.threads[t]? with
    | some (.running p (a :: rest)) => some (⟨s.queue, s.threads.set t (.running p rest), s.taken⟩, some a)
    | _ => none
  | .finish t =>
    match s.threads[t]? with
    | some (.running _ []) => some (⟨s.queue, s.threads.set t .atHead, s.taken⟩, none)
    | _ => none
  | .fail t =>
    match s.threads[t]? with
    | some (.running _ _) => some (⟨s.queue, s.threads.set t .failed, s.taken⟩, none)
    | _ => none

/-- a run: the final state and the steps performed, in the order they were performed -/
def rRun {α : Type} (prog : Nat → List α) (s : RState α) : List RAction → Option (RState α × List α)
  | [] => some (s, [])
  | a :: as =>
    match rStep prog s a with
    | none => none
    | some (s', o) =>
      match rRun prog s' as with
      | none => none
      | some (s'', out) => some (s'', o.toList ++ out)

/-- forget the program counters: the state of the abstract protocol -/
def RThread.erase {α : Type} : RThread α → TState
  | .atHead => .atHead
  | .running p _ => .running p
  | .done => .done
  | .failed => .failed

def RState.erase {α : Type} (s : RState α) : QState := ⟨s.queue, s.threads.map RThread.erase, s.taken⟩

/-- the protocol action a refined action is (`micro` is internal to the kernel call) -/
def RAction.erase : RAction → Option QAction
  | .take t => some (.take t)
  | .exit t => some (.exit t)
  | .micro _ => none
  | .finish t => some (.finish t)
  | .fail t => some (.fail t)

end Pyndl
