/-
  PyndlModel.Queue — the work-queue protocol of `ndl.ndl(method='threading')`
  (ndl.py:241-271): a bounded `Queue` filled with all parts before any worker
  starts; each worker loops { with lock: if queue.empty(): break; data =
  queue.get() } ; kernel(data).  The check-then-get is one atomic transition
  because it happens under `queue_lock`.
-/
namespace Pyndl

inductive TState where
  | atHead                -- about to acquire the lock
  | running (part : Nat)  -- inside the kernel call for that part
  | done                  -- left the loop
  | failed                -- the kernel call raised: the worker recorded the exception and ended
deriving Repr, BEq, DecidableEq

structure QState where
  queue : List Nat         -- part indices still enqueued (FIFO)
  threads : List TState
  taken : List Nat         -- history of parts handed out, in order
deriving Repr, BEq, DecidableEq

inductive QAction where
  | take (t : Nat)    -- locked: queue non-empty → get()
  | exit (t : Nat)    -- locked: queue empty → break
  | finish (t : Nat)  -- kernel call returned
  | fail (t : Nat)    -- kernel call raised (e.g. TypeError for an unusable hyper-parameter)
deriving Repr, BEq, DecidableEq

def qInit (nParts nThreads : Nat) : QState :=
  ⟨List.range nParts, List.replicate nThreads .atHead, []⟩

/-- one transition; `none` when the action is not enabled in this state -/
def qStep (s : QState) : QAction → Option QState
  | .take t =>
    match s.threads[t]?, s.queue with
    | some .atHead, p :: rest => some ⟨rest, s.threads.set t (.running p), s.taken ++ [p]⟩
    | _, _ => none
  | .exit t =>
    match s.threads[t]?, s.queue with
    | some .atHead, [] => some ⟨[], s.threads.set t .done, s.taken⟩
    | _, _ => none
  | .finish t =>
    match s.threads[t]? with
    | some (.running _) => some ⟨s.queue, s.threads.set t .atHead, s.taken⟩
    | _ => none
  | .fail t =>
    match s.threads[t]? with
    | some (.running _) => some ⟨s.queue, s.threads.set t .failed, s.taken⟩
    | _ => none

def qRun (s : QState) : List QAction → Option QState
  | [] => some s
  | a :: as =>
    match qStep s a with
    | none => none
    | some s' => qRun s' as

def qFinal (s : QState) : Bool :=
  s.threads.all (fun st => decide (st = TState.done) || decide (st = TState.failed))

/-- `if worker_errors: raise worker_errors[0]` after all threads joined (ndl.py) -/
def qRaises (s : QState) : Bool := s.threads.any (fun st => decide (st = TState.failed))

/-- index of the first action of the trace that the protocol does not allow -/
def qFirstRejected (s : QState) : List QAction → Option Nat
  | [] => none
  | a :: as =>
    match qStep s a with
    | none => some 0
    | some s' => (qFirstRejected s' as).map (· + 1)

def tWeight : TState → Nat
  | .atHead => 1
  | .running _ => 2
  | .done => 0
  | .failed => 0

/-- termination measure: every transition decreases it by at least one, so every
    run from `qInit p t` has at most `2 p + t` transitions. -/
def qMeasure (s : QState) : Nat :=
  2 * s.queue.length + (s.threads.map tWeight).sum

end Pyndl
