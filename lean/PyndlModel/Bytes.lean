/-
  PyndlModel.Bytes — the binary event format.

  Writer:  `pyndl.preprocess.write_events`   (preprocess.py:630-726)
  Readers: `pyndl.preprocess.read_binary_file` (preprocess.py:600-619) and the
           header/event loop shared by the four compiled kernels
           (ndl_parallel.pyx:100-145 and its three copies).
  The magic number and version literals are *not* fixed here: they are
  parameters, instantiated from `PyndlModel.Generated` (extracted from the
  source tree on every run).
-/
import PyndlModel.RW

namespace Pyndl

abbrev Bytes := List UInt8

/-- `int.to_bytes(4, 'little')`; Python raises `OverflowError` for `n ≥ 2^32`,
    which is the `Wf32` hypothesis of the round-trip theorem. -/
def u32le (n : Nat) : Bytes :=
  [UInt8.ofNat (n % 256), UInt8.ofNat (n / 256 % 256),
   UInt8.ofNat (n / 65536 % 256), UInt8.ofNat (n / 16777216 % 256)]

/-- `int.from_bytes(file.read(4), 'little')` / `fread(&x, 4, 1, f)` on a
    little-endian host. `none` = fewer than 4 bytes left (truncated file). -/
def readU32le : Bytes → Option (Nat × Bytes)
  | b0 :: b1 :: b2 :: b3 :: rest =>
    some (b0.toNat + 256 * b1.toNat + 65536 * b2.toNat + 16777216 * b3.toNat, rest)
  | _ => none

/-- read `n` consecutive little-endian u32 values -/
def readU32s : Nat → Bytes → Option (List Nat × Bytes)
  | 0, bs => some ([], bs)
  | n + 1, bs =>
    match readU32le bs with
    | none => none
    | some (x, bs') =>
      match readU32s n bs' with
      | none => none
      | some (xs, bs'') => some (x :: xs, bs'')

def encodeIds (ids : List Nat) : Bytes := u32le ids.length ++ ids.flatMap u32le

def encodeEvent (e : Event Nat Nat) : Bytes := encodeIds e.cues ++ encodeIds e.outcomes

/-- a complete chunk file with `count` in the header -/
def encodeChunkWith (magic version count : Nat) (es : List (Event Nat Nat)) : Bytes :=
  u32le magic ++ u32le version ++ u32le count ++ es.flatMap encodeEvent

def encodeChunk (magic version : Nat) (es : List (Event Nat Nat)) : Bytes :=
  encodeChunkWith magic version es.length es

/-- `12 + Σ (8 + 4(|cues| + |outcomes|))` -/
def encodedSize (es : List (Event Nat Nat)) : Nat :=
  12 + (es.map (fun e => 8 + 4 * (e.cues.length + e.outcomes.length))).sum

/-- what a reader reports.  `badMagic` / `badVersion`: the header checks of the
    real readers (`ValueError` in `read_binary_file`, error codes 1 / 2 → `IOError`
    in the compiled entry points).  `noFile`: the two binary-to-binary entry points start
    with `error = INITIAL_ERROR_CODE` (3) and raise `IOError` when the list of
    chunk files is EMPTY (no file ever resets the code; `learnChunksB2B`).
    `truncated` is NOT an error of the real readers: it marks byte strings that
    end before the counts they announce are used up, which are OUTSIDE the model
    (`read_binary_file` zero-fills a short `read(4)` — an 8-byte header-only file
    reads back as `[]` —, the kernels ignore the return value of `fread` and go on
    with stale values).  No theorem claims anything about the real readers on
    such byte strings; chunk files written by `write_events` are never of that
    kind (`decodeChunkPy_encodeChunk`). -/
inductive ReadErr where
  | badMagic | badVersion | truncated | noFile
deriving Repr, BEq, DecidableEq

def decodeEvents : Nat → Bytes → Option (List (Event Nat Nat) × Bytes)
  | 0, bs => some ([], bs)
  | n + 1, bs =>
    match readU32le bs with
    | none => none
    | some (nc, bs1) =>
      match readU32s nc bs1 with
      | none => none
      | some (cues, bs2) =>
        match readU32le bs2 with
        | none => none
        | some (no, bs3) =>
          match readU32s no bs3 with
          | none => none
          | some (outs, bs4) =>
            match decodeEvents n bs4 with
            | none => none
            | some (es, bs5) => some (⟨cues, outs⟩ :: es, bs5)

/-- `read_binary_file` -/
def decodeChunkPy (magic version : Nat) (bs : Bytes) : Except ReadErr (List (Event Nat Nat)) :=
  match readU32le bs with
  | none => .error .truncated
  | some (m, bs1) =>
    if m ≠ magic then .error .badMagic else
    match readU32le bs1 with
    | none => .error .truncated
    | some (v, bs2) =>
      if v ≠ version then .error .badVersion else
      match readU32le bs2 with
      | none => .error .truncated
      | some (n, bs3) =>
        match decodeEvents n bs3 with
        | none => .error .truncated
        | some (es, _) => .ok es

/-- the kernels' event reader: the same stream, but through two reusable
    buffers whose capacity starts at 1024 and is raised to the block length
    *before* the block is read (`free`/`malloc`, ndl_parallel.pyx:132-144).
    Returns the events and the history of `(block length, capacity at read)`. -/
def decodeEventsKernel : Nat → Nat → Nat → Bytes →
    Option (List (Event Nat Nat) × List (Nat × Nat))
  | 0, _, _, _ => some ([], [])
  | n + 1, capC, capO, bs =>
    match readU32le bs with
    | none => none
    | some (nc, bs1) =>
      let capC' := if nc > capC then nc else capC
      match readU32s nc bs1 with
      | none => none
      | some (cues, bs2) =>
        match readU32le bs2 with
        | none => none
        | some (no, bs3) =>
          let capO' := if no > capO then no else capO
          match readU32s no bs3 with
          | none => none
          | some (outs, bs4) =>
            match decodeEventsKernel n capC' capO' bs4 with
            | none => none
            | some (es, hist) => some (⟨cues, outs⟩ :: es, (nc, capC') :: (no, capO') :: hist)

def decodeChunkKernel (magic version : Nat) (bs : Bytes) :
    Except ReadErr (List (Event Nat Nat) × List (Nat × Nat)) :=
  match readU32le bs with
  | none => .error .truncated
  | some (m, bs1) =>
    if m ≠ magic then .error .badMagic else
    match readU32le bs1 with
    | none => .error .truncated
    | some (v, bs2) =>
      if v ≠ version then .error .badVersion else
      match readU32le bs2 with
      | none => .error .truncated
      | some (n, bs3) =>
        match decodeEventsKernel n 1024 1024 bs3 with
        | none => .error .truncated
        | some r => .ok r

/-- `index = n_all_cues (cast to u64); index *= o; index += c` with C's
    wrap-around semantics. -/
def flatIndex64 (nCues o c : UInt32) : UInt64 :=
  nCues.toUInt64 * o.toUInt64 + c.toUInt64

/-! ## `write_events` with its window, duplicate policy and header rewrite -/

inductive WriteResult where
  | ok (n : Nat)          -- returned n (== stop - start)
  | stopped (n : Nat)     -- raised StopIteration((msg, n)), header rewritten
  | empty                 -- wrote no event, file removed, returned 0
  | dupError (idx : Nat)  -- raised ValueError at event idx (file left behind)
  | overflow              -- raised OverflowError: `to_bytes(stop - start)` (preprocess.py:681),
                          -- before any event is looked at (8 header bytes left behind)
deriving Repr, BEq, DecidableEq

/-- events of the window `[start, stop)` of the enumerated stream, after the
    duplicate policy; `Except.error idx` at the first offending event. -/
def windowEvents (p : DupPolicy) (es : List (Event Nat Nat)) (start stop : Nat) :
    Except Nat (List (Event Nat Nat)) :=
  let win := (es.drop start).take (stop - start)
  let rec go (idx : Nat) : List (Event Nat Nat) → Except Nat (List (Event Nat Nat))
    | [] => .ok []
    | e :: rest =>
      match applyPolicy p e with
      | none => .error idx
      | some e' =>
        match go (idx + 1) rest with
        | .error i => .error i
        | .ok r => .ok (e' :: r)
  go start win

/-- the file content (if a file is left on disk) and the result kind.
    The estimate `stop - start` is written into the header FIRST
    (`out_file.write(to_bytes(n_events_estimate))`, preprocess.py:680-681):
    `int.to_bytes(4, 'little')` raises `OverflowError` for a negative value
    (`stop < start`) and for `stop - start ≥ 2³²` — whatever the events are. -/
def writeEvents (magic version : Nat) (p : DupPolicy) (es : List (Event Nat Nat))
    (start stop : Nat) : Option Bytes × WriteResult :=
  if stop < start ∨ 4294967296 ≤ stop - start then (none, .overflow) else
  match windowEvents p es start stop with
  | .error idx =>
    -- the partially written file stays; its content is not observed by any reader
    (none, .dupError idx)
  | .ok win =>
    let n := win.length
    if n = 0 then (none, .empty)
    else if n ≠ stop - start then (some (encodeChunkWith magic version n win), .stopped n)
    else (some (encodeChunkWith magic version n win), .ok n)

end Pyndl

namespace Pyndl

/-- the loop over the chunk files shared by the five compiled entry points
    (`ndl_parallel.learn_inplace_binary_to_binary`, `ndl_openmp.learn_inplace_*`):
    a file whose header is rejected stops the loop and the error is raised
    (`if error != NO_ERROR: break` … `raise IOError`); `learnFile` is the event
    loop of the respective kernel (all parts of that file).  On an EMPTY file
    list the loop does nothing; the three Widrow-Hoff entry points of
    ndl_openmp.pyx then return normally (confirmed on the real code), the two
    binary-to-binary entry points do not: `learnChunksB2B`. -/
def learnChunks {σ : Type} (magic version : Nat) (learnFile : σ → List (Event Nat Nat) → σ) :
    List Bytes → σ → σ × Option ReadErr
  | [], w => (w, none)
  | f :: fs, w =>
    match decodeChunkKernel magic version f with
    | .error e => (w, some e)
    | .ok (es, _) => learnChunks magic version learnFile fs (learnFile w es)

/-- the two binary-to-binary entry points as they are CALLED
    (`ndl_parallel.learn_inplace_binary_to_binary`, ndl_parallel.pyx:57-87;
    `ndl_openmp.learn_inplace_binary_to_binary`, ndl_openmp.pyx:24-67):
    `cdef ErrorCode error = INITIAL_ERROR_CODE` is only overwritten inside the
    loop over the files, so an EMPTY file list ends in `raise IOError` (error
    code 3) with the weights untouched; otherwise the loop.  This is why
    `ndl.ndl` raises `IOError` on an event file with zero events (`ndlCall`). -/
def learnChunksB2B {σ : Type} (magic version : Nat) (learnFile : σ → List (Event Nat Nat) → σ)
    (files : List Bytes) (w : σ) : σ × Option ReadErr :=
  match files with
  | [] => (w, some .noFile)
  | _ :: _ => learnChunks magic version learnFile files w

end Pyndl
