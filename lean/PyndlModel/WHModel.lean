/-
  PyndlModel.WHModel — `pyndl.wh.wh` end to end for its three vector flavours
  (wh.py:333-931): table checks, id maps (= row order of the vector tables,
  resp. counting order of the binary side), extension of given weights,
  duplicate policy of the binary conversion, OpenMP entry point, labels.

  Continued learning (`weights = w`), what each flavour does with the REAL-side
  labels of `w` (reproduced on the real code, xarray 2026.7):
  * binary → real (wh.py 419-430) compares `.values.tolist()` of the outcome
    vector dimensions: anything but the identical label list ⇒ `ValueError`;
  * real → binary (wh.py 627) evaluates
    `all(cue_vector_dimensions == weights['cue_vector_dimensions'])`, an xarray
    comparison ALIGNED ON THE LABELS (inner join) of two coordinate arrays whose
    values are their own labels: it is never False (`alignRaises`).  The given
    values are then used POSITIONALLY and the result is labelled with the
    table's dimensions — weights labelled `['z0','z1']` are accepted.  Only a
    different NUMBER of columns fails (`np.concatenate`, `ValueError`);
  * real → real (wh.py 826-834) checks the shape (`ValueError`), evaluates the
    same two never-False comparisons, and then SELECTS by label
    (`weights.loc[{…: outcome_dims, …: cue_dims}]`, outcome axis first): a
    permutation of the labels is re-aligned, a table dimension label that `w`
    lacks ⇒ `KeyError`, a repeated label in `w` ⇒ pandas `InvalidIndexError`
    (no Key/Value/OS/Type error: class `other`) (`locAxis`, `realignVals`).
-/
import PyndlModel.WH
import PyndlModel.Ndl

namespace Pyndl

/-- a table of vectors: `xarray.DataArray(vals, [('cues'|'outcomes', names), (…_vector_dimensions, dims)])` -/
structure VecTable (R : Type) where
  names : List String
  dims : List String
  vals : Array R
deriving Repr

inductive WhFlavour where
  | r2r | b2r | r2b
deriving Repr, BEq, DecidableEq

section
variable {R : Type} [Add R] [Sub R] [Mul R] [Zero R]

def applyPolicyIds (p : DupPolicy) : List (Event Nat Nat) → Except Err (List (Event Nat Nat))
  | [] => .ok []
  | e :: es =>
    match applyPolicy p e with
    | none => .error .value
    | some e' =>
      match applyPolicyIds p es with
      | .error x => .error x
      | .ok r => .ok (e' :: r)

/-- `all(a == b)` of wh.py 627 / 828 / 830 for two xarray coordinate arrays with
    label lists `a`, `b`: the comparison is aligned on the labels (inner join) and
    compares every shared label with itself, so it is never False.  It RAISES
    `ValueError` ("cannot reindex or align along dimension … because the (pandas)
    index has duplicate values") exactly when the two label lists differ (an
    alignment is needed) and one of them has a repeated label. -/
def alignRaises (a b : List String) : Prop := a ≠ b ∧ ¬ (a.Nodup ∧ b.Nodup)

instance (a b : List String) : Decidable (alignRaises a b) := by unfold alignRaises; infer_instance

/-- one axis of `weights.loc[{dim: wanted}]` (wh.py 834) on an axis labelled
    `old`: pandas refuses a non-unique index (`InvalidIndexError`, class
    `other`); a wanted label that is no label of `old` ⇒ `KeyError`. -/
def locAxis (old wanted : List String) : Option Err :=
  if ¬ old.Nodup then some .other
  else if wanted.any (fun d => !old.contains d) then some .key
  else none

/-- the values of `w.loc[rows, cols]` (label-based selection, row-major):
    cell `(i, j)` is `w` read at the labels `rows[i]`, `cols[j]` -/
def realignVals (w : LW R) (rows cols : List String) : Array R :=
  Array.ofFn (n := rows.length * cols.length) (fun k =>
    w.get (rows.getD (k.val / cols.length) "") (cols.getD (k.val % cols.length) ""))

/-- the rows of a given weight matrix re-used for continued learning: only new
    *binary-side* labels may be appended (zero filled); see the file header for
    what each flavour does with the real-side labels of the given weights -/
def whModel (fl : WhFlavour) (p : DupPolicy) (eta β₁ β₂ lam : R)
    (cueTab outTab : Option (VecTable R)) (chunk : Nat) (W0 : Option (LW R))
    (es : List (Event String String)) : Except Err (LW R) :=
  let (cuesEv, outsEv) := countNames es
  match fl, cueTab, outTab with
  | .r2r, some ct, some ot =>
    if outsEv.any (fun o => !ot.names.contains o) then .error .value else
    if cuesEv.any (fun c => !ct.names.contains c) then .error .value else
    let nC := ct.dims.length
    let nO := ot.dims.length
    let w0 : Except Err (Array R) := match W0 with
      | none => .ok (Array.replicate (nO * nC) 0)
      | some w =>
        -- `weights.shape == shape`
        if w.outcomes.length ≠ nO ∨ w.cues.length ≠ nC then .error .value
        -- the two `all(… == …)`: never False, may raise
        else if alignRaises ot.dims w.outcomes then .error .value
        else if alignRaises ct.dims w.cues then .error .value
        -- `weights.loc[…]`: outcome axis first
        else match locAxis w.outcomes ot.dims with
          | some e => .error e
          | none =>
            match locAxis w.cues ct.dims with
            | some e => .error e
            | none => .ok (realignVals w ot.dims ct.dims)
    match w0 with
    | .error e => .error e
    | .ok w0 =>
      match applyPolicyIds p (es.map (toIds ct.names ot.names)) with
      | .error e => .error e
      | .ok ids =>
        if chunk < 1 then .error .other else
        .ok ⟨ot.dims, ct.dims, learnOmpWith
          (fun w d e => whR2RRowEvent eta ct.vals ot.vals nC nO w d e.cues e.outcomes)
          [ids] (List.range nO) chunk w0⟩
  | .b2r, none, some ot =>
    if outsEv.any (fun o => !ot.names.contains o) then .error .value else
    let nO := ot.dims.length
    let init : Except Err (List String × Array R) := match W0 with
      | none => .ok (cuesEv, Array.replicate (nO * cuesEv.length) 0)
      | some w =>
        if w.outcomes.length ≠ nO then .error .value
        else if w.outcomes ≠ ot.dims then .error .value
        else
          let cues := w.cues ++ cuesEv.filter (fun c => !w.cues.contains c)
          .ok (cues, extendVals w.vals nO w.cues.length nO cues.length)
    match init with
    | .error e => .error e
    | .ok (cues, w0) =>
      match applyPolicyIds p (es.map (toIds cues ot.names)) with
      | .error e => .error e
      | .ok ids =>
        if chunk < 1 then .error .other else
        .ok ⟨ot.dims, cues, learnOmpWith
          (fun w d e => whB2RRowEvent eta ot.vals nO cues.length w d e.cues e.outcomes)
          [ids] (List.range nO) chunk w0⟩
  | .r2b, some ct, none =>
    if cuesEv.any (fun c => !ct.names.contains c) then .error .value else
    let nC := ct.dims.length
    let init : Except Err (List String × Array R) := match W0 with
      | none => .ok (outsEv, Array.replicate (outsEv.length * nC) 0)
      | some w =>
        -- `all(… == …)` is never False (may raise); `np.concatenate` needs equal widths;
        -- the labels of `w` are otherwise IGNORED: values by position, table's labels
        if alignRaises ct.dims w.cues then .error .value
        else if w.cues.length ≠ nC then .error .value
        else
          let outs := w.outcomes ++ outsEv.filter (fun o => !w.outcomes.contains o)
          .ok (outs, extendVals w.vals w.outcomes.length nC outs.length nC)
    match init with
    | .error e => .error e
    | .ok (outs, w0) =>
      match applyPolicyIds p (es.map (toIds ct.names outs)) with
      | .error e => .error e
      | .ok ids =>
        if chunk < 1 then .error .other else
        .ok ⟨outs, ct.dims, learnOmpWith
          (fun w ii e => whR2BRowEvent β₁ β₂ lam ct.vals nC w ii e.cues e.outcomes)
          [ids] (List.range outs.length) chunk w0⟩
  | _, _, _ => .error .other

/-- the order in which the MODEL `whModel` appends the new binary-side labels
    to given weights: counting order (first occurrence in the events) -/
def countingNew (old ev : List String) : List String := ev.filter (fun x => !old.contains x)

/-- **`whModel` with the order of the appended binary-side labels as a
    parameter.**  wh.py appends `list(set(new) - set(old))` (wh.py 433, 631): the
    new names in Python's SET order, which depends on the string hashes of the
    process.  `nl old ev` is the block appended to the old labels `old` when the
    events name `ev` (counting order); the code's block is SOME duplicate-free
    arrangement of the names of `ev` that are not in `old`, i.e. a permutation of
    `countingNew old ev`.  Everything else is `whModel` verbatim
    (`whModel_eq_with : whModel = whModelWith countingNew`, by `rfl`);
    `C08.wh_appended_label_order_irrelevant`: every such `nl` gives the same
    weights at every pair of labels. -/
def whModelWith (nl : List String → List String → List String)
    (fl : WhFlavour) (p : DupPolicy) (eta β₁ β₂ lam : R)
    (cueTab outTab : Option (VecTable R)) (chunk : Nat) (W0 : Option (LW R))
    (es : List (Event String String)) : Except Err (LW R) :=
  let (cuesEv, outsEv) := countNames es
  match fl, cueTab, outTab with
  | .b2r, none, some ot =>
    if outsEv.any (fun o => !ot.names.contains o) then .error .value else
    let nO := ot.dims.length
    let init : Except Err (List String × Array R) := match W0 with
      | none => .ok (cuesEv, Array.replicate (nO * cuesEv.length) 0)
      | some w =>
        if w.outcomes.length ≠ nO then .error .value
        else if w.outcomes ≠ ot.dims then .error .value
        else
          let cues := w.cues ++ nl w.cues cuesEv
          .ok (cues, extendVals w.vals nO w.cues.length nO cues.length)
    match init with
    | .error e => .error e
    | .ok (cues, w0) =>
      match applyPolicyIds p (es.map (toIds cues ot.names)) with
      | .error e => .error e
      | .ok ids =>
        if chunk < 1 then .error .other else
        .ok ⟨ot.dims, cues, learnOmpWith
          (fun w d e => whB2RRowEvent eta ot.vals nO cues.length w d e.cues e.outcomes)
          [ids] (List.range nO) chunk w0⟩
  | .r2b, some ct, none =>
    if cuesEv.any (fun c => !ct.names.contains c) then .error .value else
    let nC := ct.dims.length
    let init : Except Err (List String × Array R) := match W0 with
      | none => .ok (outsEv, Array.replicate (outsEv.length * nC) 0)
      | some w =>
        if alignRaises ct.dims w.cues then .error .value
        else if w.cues.length ≠ nC then .error .value
        else
          let outs := w.outcomes ++ nl w.outcomes outsEv
          .ok (outs, extendVals w.vals w.outcomes.length nC outs.length nC)
    match init with
    | .error e => .error e
    | .ok (outs, w0) =>
      match applyPolicyIds p (es.map (toIds ct.names outs)) with
      | .error e => .error e
      | .ok ids =>
        if chunk < 1 then .error .other else
        .ok ⟨outs, ct.dims, learnOmpWith
          (fun w ii e => whR2BRowEvent β₁ β₂ lam ct.vals nC w ii e.cues e.outcomes)
          [ids] (List.range outs.length) chunk w0⟩
  -- real → real has no binary side: nothing is appended
  | fl, cueTab, outTab => whModel fl p eta β₁ β₂ lam cueTab outTab chunk W0 es

end

end Pyndl
