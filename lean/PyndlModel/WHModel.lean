/-
  PyndlModel.WHModel — `pyndl.wh.wh` end to end for its three vector flavours
  (wh.py:333-931): table checks, id maps (= row order of the vector tables,
  resp. counting order of the binary side), extension of given weights,
  duplicate policy of the binary conversion, OpenMP entry point, labels.
-/
import PyndlModel.WH
import PyndlModel.Ndl

namespace Pyndl

/-- a table of vectors: `xarray.DataArray(vals, [('cues'|'outcomes', names), (…_vector_dimensions, dims)])` -/
structure VecTable (R : Type) where
  names : List String
  dims : List String
  vals : Array R
deriving Repr

inductive WhFlavour where
  | r2r | b2r | r2b
deriving Repr, BEq, DecidableEq

section
variable {R : Type} [Add R] [Sub R] [Mul R] [Zero R]

def applyPolicyIds (p : DupPolicy) : List (Event Nat Nat) → Except Err (List (Event Nat Nat))
  | [] => .ok []
  | e :: es =>
    match applyPolicy p e with
    | none => .error .value
    | some e' =>
      match applyPolicyIds p es with
      | .error x => .error x
      | .ok r => .ok (e' :: r)

/-- the rows of a given weight matrix re-used for continued learning: only new
    *binary-side* labels may be appended (zero filled) -/
def whModel (fl : WhFlavour) (p : DupPolicy) (eta β₁ β₂ lam : R)
    (cueTab outTab : Option (VecTable R)) (chunk : Nat) (W0 : Option (LW R))
    (es : List (Event String String)) : Except Err (LW R) :=
  let (cuesEv, outsEv) := countNames es
  match fl, cueTab, outTab with
  | .r2r, some ct, some ot =>
    if outsEv.any (fun o => !ot.names.contains o) then .error .value else
    if cuesEv.any (fun c => !ct.names.contains c) then .error .value else
    let nC := ct.dims.length
    let nO := ot.dims.length
    let w0 : Except Err (Array R) := match W0 with
      | none => .ok (Array.replicate (nO * nC) 0)
      | some w =>
        if w.outcomes.length ≠ nO ∨ w.cues.length ≠ nC then .error .value
        else if w.outcomes ≠ ot.dims then .error .value
        else if w.cues ≠ ct.dims then .error .value
        else .ok w.vals
    match w0 with
    | .error e => .error e
    | .ok w0 =>
      match applyPolicyIds p (es.map (toIds ct.names ot.names)) with
      | .error e => .error e
      | .ok ids =>
        if chunk < 1 then .error .other else
        .ok ⟨ot.dims, ct.dims, learnOmpWith
          (fun w d e => whR2RRowEvent eta ct.vals ot.vals nC nO w d e.cues e.outcomes)
          [ids] (List.range nO) chunk w0⟩
  | .b2r, none, some ot =>
    if outsEv.any (fun o => !ot.names.contains o) then .error .value else
    let nO := ot.dims.length
    let init : Except Err (List String × Array R) := match W0 with
      | none => .ok (cuesEv, Array.replicate (nO * cuesEv.length) 0)
      | some w =>
        if w.outcomes.length ≠ nO then .error .value
        else if w.outcomes ≠ ot.dims then .error .value
        else
          let cues := w.cues ++ cuesEv.filter (fun c => !w.cues.contains c)
          .ok (cues, extendVals w.vals nO w.cues.length nO cues.length)
    match init with
    | .error e => .error e
    | .ok (cues, w0) =>
      match applyPolicyIds p (es.map (toIds cues ot.names)) with
      | .error e => .error e
      | .ok ids =>
        if chunk < 1 then .error .other else
        .ok ⟨ot.dims, cues, learnOmpWith
          (fun w d e => whB2RRowEvent eta ot.vals nO cues.length w d e.cues e.outcomes)
          [ids] (List.range nO) chunk w0⟩
  | .r2b, some ct, none =>
    if cuesEv.any (fun c => !ct.names.contains c) then .error .value else
    let nC := ct.dims.length
    let init : Except Err (List String × Array R) := match W0 with
      | none => .ok (outsEv, Array.replicate (outsEv.length * nC) 0)
      | some w =>
        if w.cues ≠ ct.dims then .error .value
        else
          let outs := w.outcomes ++ outsEv.filter (fun o => !w.outcomes.contains o)
          .ok (outs, extendVals w.vals w.outcomes.length nC outs.length nC)
    match init with
    | .error e => .error e
    | .ok (outs, w0) =>
      match applyPolicyIds p (es.map (toIds ct.names outs)) with
      | .error e => .error e
      | .ok ids =>
        if chunk < 1 then .error .other else
        .ok ⟨outs, ct.dims, learnOmpWith
          (fun w ii e => whR2BRowEvent β₁ β₂ lam ct.vals nC w ii e.cues e.outcomes)
          [ids] (List.range outs.length) chunk w0⟩
  | _, _, _ => .error .other

end

end Pyndl
