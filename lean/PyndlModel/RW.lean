/-
  PyndlModel.RW — the Rescorla–Wagner specification and the model of the
  pure-Python learner `pyndl.ndl.dict_ndl` (pyndl/ndl.py:347-485).

  Mathlib-free, polymorphic in the scalar type `R` so that the same
  definitions run in the native driver (R := Rat) and are reasoned about in
  the proof files (R a commutative ring).
-/
namespace Pyndl

/-- One learning event: cue names and outcome names, in file order, with
    repetitions. -/
structure Event (ι κ : Type) where
  cues : List ι
  outcomes : List κ
deriving Repr, BEq, DecidableEq

/-- `remove_duplicates` : `None`, `True`, `False`. -/
inductive DupPolicy where
  | error | dedup | keep
deriving Repr, BEq, DecidableEq

/-- pointwise function update (own copy: `Function.update` lives in Mathlib). -/
def upd {α β : Type} [DecidableEq α] (f : α → β) (a : α) (v : β) : α → β :=
  fun x => if x = a then v else f x

section Spec
variable {R : Type} [Add R] [Sub R] [Mul R] [Zero R]
variable {ι κ : Type} [DecidableEq ι] [DecidableEq κ]

/-- `sum(weights[outcome][cue] for cue in cues)` / the kernel's
    `association_strength` loop: a left fold over the cue *occurrences*. -/
def sumOver (w : ι → R) (cs : List ι) : R :=
  cs.foldl (fun acc c => acc + w c) 0

/-- `for cue in cues: weights[outcome][cue] += alphas[cue] * update` —
    once per occurrence. -/
def addCues (α : ι → R) (u : R) (w : ι → R) (cs : List ι) : ι → R :=
  cs.foldl (fun w c => upd w c (w c + α c * u)) w

/-- the update of one weight row by one event. -/
def rwRow (α : ι → R) (β₁ β₂ lam : R) (w : ι → R) (cs : List ι) (present : Bool) : ι → R :=
  let a := sumOver w cs
  let u := if present then β₁ * (lam - a) else β₂ * (0 - a)
  addCues α u w cs

/-- the documented Rescorla–Wagner step on the full (total) weight function. -/
def rwStep (α : ι → R) (β₁ β₂ lam : R) (W : κ → ι → R) (e : Event ι κ) : κ → ι → R :=
  fun o => rwRow α β₁ β₂ lam (W o) e.cues (decide (o ∈ e.outcomes))

/-- SPEC: apply the step event by event. -/
def rwLearn (α : ι → R) (β₁ β₂ lam : R) (W₀ : κ → ι → R) (es : List (Event ι κ)) : κ → ι → R :=
  es.foldl (rwStep α β₁ β₂ lam) W₀

end Spec

/-! ## Duplicate policy -/

section Policy
variable {ι κ : Type} [DecidableEq ι] [DecidableEq κ]

def hasDup {α : Type} [DecidableEq α] : List α → Bool
  | [] => false
  | x :: xs => decide (x ∈ xs) || hasDup xs

/-- `set(xs)` with a deterministic order: first occurrences. Python's order is
    hash dependent; `PyndlProofs` shows the learner does not depend on it. -/
def dedupKeepFirst {α : Type} [DecidableEq α] : List α → List α
  | [] => []
  | x :: xs => x :: (dedupKeepFirst xs).filter (· ≠ x)

/-- what the learner does with one event under a duplicate policy:
    `none` = `ValueError`. -/
def applyPolicy (p : DupPolicy) (e : Event ι κ) : Option (Event ι κ) :=
  match p with
  | .error => if hasDup e.cues || hasDup e.outcomes then none else some e
  | .dedup => some ⟨dedupKeepFirst e.cues, dedupKeepFirst e.outcomes⟩
  | .keep => some e

def applyPolicyAll (p : DupPolicy) : List (Event ι κ) → Option (List (Event ι κ))
  | [] => some []
  | e :: es =>
    match applyPolicy p e with
    | none => none
    | some e' =>
      match applyPolicyAll p es with
      | none => none
      | some es' => some (e' :: es')

end Policy

/-! ## Model of `dict_ndl`: nested association lists, lazily growing outcome set -/

section Dict
variable {R : Type} [Add R] [Sub R] [Mul R] [Zero R]
variable {ι κ : Type} [DecidableEq ι] [DecidableEq κ]

/-- `defaultdict(float)` read. -/
def alGet : List (ι × R) → ι → R
  | [], _ => 0
  | (k, x) :: d, c => if k = c then x else alGet d c

/-- `d[c] = v` (insert at the end when absent, as a dict does). -/
def alSet : List (ι × R) → ι → R → List (ι × R)
  | [], c, v => [(c, v)]
  | (k, x) :: d, c, v => if k = c then (k, v) :: d else (k, x) :: alSet d c v

/-- the weight dict: outcome ↦ (cue ↦ weight). -/
abbrev WDict (ι κ R : Type) := List (κ × List (ι × R))

def wdRow : WDict ι κ R → κ → List (ι × R)
  | [], _ => []
  | (k, r) :: W, o => if k = o then r else wdRow W o

def wdSetRow : WDict ι κ R → κ → List (ι × R) → WDict ι κ R
  | [], o, r => [(o, r)]
  | (k, x) :: W, o, r => if k = o then (k, r) :: W else (k, x) :: wdSetRow W o r

/-- the row update of `dict_ndl` (ndl.py:465-471) on one `defaultdict(float)`. -/
def dictRow (α : ι → R) (β₁ β₂ lam : R) (row : List (ι × R)) (cs : List ι) (present : Bool) :
    List (ι × R) :=
  let a := cs.foldl (fun acc c => acc + alGet row c) 0
  let u := if present then β₁ * (lam - a) else β₂ * (0 - a)
  cs.foldl (fun r c => alSet r c (alGet r c + α c * u)) row

/-- state of `dict_ndl`: the dict and `all_outcomes` (ndl.py:436, 463). -/
structure DictState (ι κ R : Type) where
  W : WDict ι κ R
  all : List κ

def unionNew {α : Type} [DecidableEq α] (xs : List α) : List α → List α
  | [] => xs
  | y :: ys => if y ∈ xs then unionNew xs ys else unionNew (xs ++ [y]) ys

/-- one event of the main loop (ndl.py:463-471) after the policy was applied. -/
def dictStep (α : ι → R) (β₁ β₂ lam : R) (s : DictState ι κ R) (e : Event ι κ) :
    DictState ι κ R :=
  let all' := unionNew s.all e.outcomes
  let W' := all'.foldl
    (fun W o => wdSetRow W o (dictRow α β₁ β₂ lam (wdRow W o) e.cues (decide (o ∈ e.outcomes))))
    s.W
  ⟨W', all'⟩

def dictInit (W : WDict ι κ R) : DictState ι κ R := ⟨W, unionNew [] (W.map (·.1))⟩

/-- `dict_ndl(events, alphas, betas, lambda_, weights=W, remove_duplicates=p)`;
    `none` = `ValueError` at the first offending event (events before it were
    learned, but nothing is returned). -/
def dictNdl (p : DupPolicy) (α : ι → R) (β₁ β₂ lam : R) (W : WDict ι κ R) :
    List (Event ι κ) → Option (WDict ι κ R) :=
  let rec go (s : DictState ι κ R) : List (Event ι κ) → Option (WDict ι κ R)
    | [] => some s.W
    | e :: es =>
      match applyPolicy p e with
      | none => none
      | some e' => go (dictStep α β₁ β₂ lam s e') es
  go (dictInit W)

/-- abstraction: the total function a weight dict denotes. -/
def wdAbs (W : WDict ι κ R) : κ → ι → R := fun o c => alGet (wdRow W o) c

end Dict

end Pyndl
