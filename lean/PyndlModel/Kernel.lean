/-
  PyndlModel.Kernel — the compiled Rescorla–Wagner kernel
  `learn_inplace_binary_to_binary_ptr` (pyndl/ndl_parallel.pyx:90-170), its two
  entry points (ndl_parallel.pyx:47-77, ndl_openmp.pyx:24-63) and the two
  partitioners (`slice_list`, ndl.py:541-567; the `prange` bounds,
  ndl_openmp.pyx:49-54).

  Weights are a flat `Array R` exactly as the C code sees them:
  `index = n_all_cues * all_outcome_indices[ii] + cue_indices[jj]`.
-/
import PyndlModel.RW

namespace Pyndl

section Kernel
variable {R : Type} [Add R] [Sub R] [Mul R] [Zero R]

/-- `index = n_all_cues; index *= o; index += c` in unbounded arithmetic
    (the 64-bit version and its exactness are in `PyndlModel.Bytes`). -/
def flatIdx (nCues o c : Nat) : Nat := nCues * o + c

/-- `is_element_of(elem, arr, size)` -/
def isElementOf (elem : Nat) (arr : List Nat) : Bool := arr.any (· == elem)

/-- the body of `for ii in range(start, end)` for one event and one weight row
    `o = all_outcome_indices[ii]` (ndl_parallel.pyx:147-165). -/
def kernelRowEvent (alpha β₁ β₂ lam : R) (nCues : Nat) (w : Array R) (o : Nat)
    (cues outcomes : List Nat) : Array R :=
  let a := cues.foldl (fun acc c => acc + w.getD (flatIdx nCues o c) 0) 0
  let u := if isElementOf o outcomes then β₁ * (lam - a) else β₂ * (0 - a)
  cues.foldl (fun w c =>
    let i := flatIdx nCues o c
    w.setIfInBounds i (w.getD i 0 + alpha * u)) w

/-- one event, rows `all_outcome_indices[start .. stop)`. -/
def kernelEvent (alpha β₁ β₂ lam : R) (nCues : Nat) (rows : List Nat) (w : Array R)
    (e : Event Nat Nat) : Array R :=
  rows.foldl (fun w o => kernelRowEvent alpha β₁ β₂ lam nCues w o e.cues e.outcomes) w

/-- the event loop of one chunk file for one part (`rows`). -/
def kernelFile (alpha β₁ β₂ lam : R) (nCues : Nat) (rows : List Nat) (w : Array R)
    (es : List (Event Nat Nat)) : Array R :=
  es.foldl (kernelEvent alpha β₁ β₂ lam nCues rows) w

/-- a part processes every chunk file in order (worker body of `ndl.ndl`,
    method='threading': ndl.py:253-259 → ndl_parallel.pyx:65-74). -/
def kernelPart (alpha β₁ β₂ lam : R) (nCues : Nat) (files : List (List (Event Nat Nat)))
    (w : Array R) (rows : List Nat) : Array R :=
  files.foldl (kernelFile alpha β₁ β₂ lam nCues rows) w

end Kernel

/-! ## Micro-step semantics: the unit of interleaving

One micro-step = one weight row processing one event (the body of
`for ii in range(start, end)`); concurrent kernel calls are modelled as
interleaving at this granularity.

ASSUMPTION `MicroStepAtomicity` (named in the header of PyndlProps/C02.lean,
NOT proved): the real kernels perform a micro-step as a sequence of loads and
stores of cells of ONE weight row, and concurrent kernel calls interleave at
the level of those accesses (or finer).  Every access-level, sequentially
consistent interleaving of kernel calls that own pairwise disjoint rows is
assumed to leave the weights that SOME micro-step-level interleaving leaves.
What is proved towards it: micro-steps of different rows touch disjoint cells
(`C02.footprint_disjoint`), hence commute (`C02.micro_steps_commute`), and the
result of any schedule depends only on its per-row projections
(`C02.schedule_determined_by_row_projections`); micro-steps of the same row
belong to the same kernel call (`PartsOk.disjoint`) and are therefore already
ordered.  The model has no access-level semantics, so the reduction itself
(Lipton-style: move each access of a micro-step next to its last access) is
not formalised. -/

structure MicroStep where
  part : Nat            -- which kernel call (thread / prange iteration) performs it
  file : Nat            -- index of the chunk file
  row : Nat             -- weight row (outcome id)
  ev : Event Nat Nat
deriving Repr, DecidableEq

section Exec
variable {R : Type} [Add R] [Sub R] [Mul R] [Zero R]

def execSteps (alpha β₁ β₂ lam : R) (nCues : Nat) (w : Array R) (s : List MicroStep) : Array R :=
  s.foldl (fun w st => kernelRowEvent alpha β₁ β₂ lam nCues w st.row st.ev.cues st.ev.outcomes) w

/-- program of one part over one file: every event in order, inside an event
    every row of the part in order -/
def fileProgram (part file : Nat) (rows : List Nat) (es : List (Event Nat Nat)) : List MicroStep :=
  es.flatMap (fun e => rows.map (fun o => ⟨part, file, o, e⟩))

/-- program of one part: every file in order (file indices from `k`) -/
def partProgramFrom (part : Nat) (rows : List Nat) : Nat → List (List (Event Nat Nat)) → List MicroStep
  | _, [] => []
  | k, es :: rest => fileProgram part k rows es ++ partProgramFrom part rows (k + 1) rest

def partProgram (part : Nat) (rows : List Nat) (files : List (List (Event Nat Nat))) : List MicroStep :=
  partProgramFrom part rows 0 files

end Exec

/-! ## Partitioners -/

/-- `slice_list(list_, len_sublists)` (ndl.py:541-567) for `len_sublists ≥ 1`.
    Structural recursion on fuel = length; `PyndlProofs` shows it is the
    `while ii < len(list_)` loop. -/
def sliceList {α : Type} (xs : List α) (n : Nat) : List (List α) :=
  let rec go (fuel : Nat) (xs : List α) : List (List α) :=
    match fuel with
    | 0 => []
    | fuel + 1 =>
      match xs with
      | [] => []
      | _ => xs.take n :: go fuel (xs.drop n)
  go xs.length xs

/-- OpenMP bounds (ndl_openmp.pyx:47-54): `number_parts = ceil(n / chunk)`,
    `start = ii*chunk`, `end = min(start+chunk, n)`, skip when `start == n`. -/
def ompBounds (n chunk : Nat) : List (Nat × Nat) :=
  let parts := (n + chunk - 1) / chunk
  (List.range parts).filterMap (fun ii =>
    let s := ii * chunk
    let e := min (s + chunk) n
    if s == n then none else some (s, e))

/-- the same bounds in the arithmetic the Cython code uses: `start_val`, `end_val`,
    `ii`, `chunksize`, `length_all_outcomes` are `unsigned int` (wrap-around mod 2³²);
    `number_parts = math.ceil(<double> length / chunksize)` is exact for 32-bit operands. -/
def ompBounds32 (n chunk : UInt32) : List (UInt32 × UInt32) :=
  let parts := (n.toNat + chunk.toNat - 1) / chunk.toNat
  (List.range parts).filterMap (fun ii =>
    let s := UInt32.ofNat ii * chunk
    let e := if s + chunk ≤ n then s + chunk else n
    if s == n then none else some (s, e))

def ompParts {α : Type} (xs : List α) (chunk : Nat) : List (List α) :=
  (ompBounds xs.length chunk).map (fun (s, e) => (xs.drop s).take (e - s))

section Entry
variable {R : Type} [Add R] [Sub R] [Mul R] [Zero R]

/-- sequential reference schedule of `method='threading'`: parts one after the
    other, each over all files. -/
def learnThreadingSeq (alpha β₁ β₂ lam : R) (nCues : Nat) (files : List (List (Event Nat Nat)))
    (allOutcomes : List Nat) (perJob : Nat) (w : Array R) : Array R :=
  (sliceList allOutcomes perJob).foldl (kernelPart alpha β₁ β₂ lam nCues files) w

/-- sequential reference schedule of `method='openmp'`: file by file, inside a
    file part by part. -/
def learnOpenmpSeq (alpha β₁ β₂ lam : R) (nCues : Nat) (files : List (List (Event Nat Nat)))
    (allOutcomes : List Nat) (chunk : Nat) (w : Array R) : Array R :=
  files.foldl (fun w f =>
    (ompParts allOutcomes chunk).foldl (fun w rows => kernelFile alpha β₁ β₂ lam nCues rows w f) w) w

end Entry

end Pyndl
