/-
  PyndlModel.Scalar — the driver's scalar type: exact rationals that remember
  how many mantissa bits any value in their computation history needed.
  A case is inside the *exact-dyadic domain* (every IEEE-754 double operation
  of the implementation is exact, so float result = rational result) iff the
  reported `bits ≤ 53`.

  `TR` is NOT a ring (the history of `a - a` is not that of `0`), while the
  theorems are over `[CommRing R]`.  The tie is the value component: `+ - * 0`
  act componentwise on `.v` (`TR.v_hom`), and every model function the driver
  runs at `TR` commutes with the projection `TR.v : TR → Rat`
  (PyndlProofs/ScalarBridge.lean: `rwLearn_v`, `dictNdl_v`, `kernelRowEvent_v`,
  `ndlCall_v`, the Widrow–Hoff row steps, `activationMatrix_v`, `chainRunD_v`):
  what the driver prints (`toStr` prints `.v`) is what the same definition
  computes over `ℚ`.
-/
namespace Pyndl

structure TR where
  v : Rat
  bits : Nat
deriving Repr

namespace TR

def isPow2 (d : Nat) : Bool := d != 0 && (d &&& (d - 1)) == 0

/-- mantissa bits needed to hold `q` exactly; 9999 when `q` is not dyadic -/
def need (q : Rat) : Nat :=
  if q.num == 0 then 0
  else if isPow2 q.den then Nat.log2 q.num.natAbs + 1
  else 9999

def mk' (q : Rat) (hist : Nat) : TR := ⟨q, max hist (need q)⟩

def ofRat (q : Rat) : TR := mk' q 0

instance : Zero TR := ⟨⟨0, 0⟩⟩
instance : Add TR := ⟨fun a b => mk' (a.v + b.v) (max a.bits b.bits)⟩
instance : Sub TR := ⟨fun a b => mk' (a.v - b.v) (max a.bits b.bits)⟩
instance : Mul TR := ⟨fun a b => mk' (a.v * b.v) (max a.bits b.bits)⟩
instance : Inhabited TR := ⟨⟨0, 0⟩⟩

def toStr (a : TR) : String := s!"{a.v.num}/{a.v.den}"

end TR
end Pyndl
