/-
  PyndlModel.Effects — file-system effects of a learner call (C17) and the
  stage skeleton of a faulty run (C05).

  World = the set of paths that exist (a path = list of components).
  `with tempfile.TemporaryDirectory(prefix="pyndl", dir=…) as d: body`
  (ndl.py, wh.py) is `bracket`: create `d`, run the body, remove `d` and
  everything below it on EVERY exit (return or raise).
-/
namespace Pyndl.Effects

abbrev Path := List String
abbrev World := List Path

/-- `p` is `d` or lies below `d` -/
def below (d p : Path) : Bool := d.isPrefixOf p

inductive Exit where
  | returned | raised
deriving Repr, BEq, DecidableEq

/-- `shutil.rmtree(d)` as done by `TemporaryDirectory.__exit__` -/
def rmtree (d : Path) (w : World) : World := w.filter (fun p => !below d p)

/-- the context manager: the body receives the fresh directory and the world
    containing it; whatever the body's exit is, the directory is removed -/
def bracket (d : Path) (body : Path → World → World × Exit) (w : World) : World × Exit :=
  let (w', e) := body d (d :: w)
  (rmtree d w', e)

/-- a body that only creates or removes entries at or below its directory
    (chunk files `join(d, "events_0_<i>.dat")`, the spooled event file): every
    path outside `d` exists afterwards iff it existed before.  AN ASSUMPTION
    ABOUT THE REAL BODIES where it is a hypothesis (`C17.fs_clean`,
    `fs_clean_siblings`, `old_spool_leaks`) — modulo `rmtree` it is the
    conclusion of `fs_clean`; proved (by construction) only for the modelled
    `chunkBody`. -/
def OnlyBelow (d : Path) (body : Path → World → World × Exit) : Prop :=
  ∀ w p, below d p = false → (p ∈ (body d w).1 ↔ p ∈ w)

/-- the pinned tree's spooling of generator input before the repair (F7):
    `NamedTemporaryFile().name` is created in the system temp directory outside
    any bracket and never removed -/
def spoolOld (sysTmp : Path) (name : String) (rest : World → World × Exit) (w : World) : World × Exit :=
  rest ((sysTmp ++ [name]) :: w)

end Pyndl.Effects

namespace Pyndl.Effects

/-- the concrete file-system effects of `ndl.ndl` / the `wh` flavours: chunk
    files `events_0_<i>.dat` are created in the temporary directory `d`
    (some of them may be removed again by the job that found no events), then
    the learner returns or raises.  By construction the body can only create
    entries `d ++ [name]`. -/
def chunkBody (created : List String) (e : Exit) : Path → World → World × Exit :=
  fun d w => (created.map (fun name => d ++ [name]) ++ w, e)

/-- `ndl.ndl(events=<generator>)` after the repair of F7 (895aaf2, ndl.py:132-142):
    a spool directory `s` (bracket) that receives `events.tab.gz`; while it
    exists, the recursive call creates its own chunk directory `d` (a second
    bracket, ndl.py:217).  Both are made by `TemporaryDirectory(prefix="pyndl",
    dir=temporary_directory)` with the SAME `dir`: `s` and `d` are SIBLINGS
    below one parent — the second bracket is nested in time, not in the path
    (`d` does not lie below `s`).  Spooling is assumed to succeed here; see
    `generatorCallS` for a generator that raises while it is consumed. -/
def generatorCall (s d : Path) (created : List String) (e : Exit) (w : World) : World × Exit :=
  bracket s (fun s w => bracket d (chunkBody created e) ((s ++ ["events.tab.gz"]) :: w)) w

end Pyndl.Effects

namespace Pyndl.Effects

/-- run `first`; only if it returns, run `second` on the world it left -/
def seqBody {ω : Type} (first second : ω → ω × Exit) (w : ω) : ω × Exit :=
  match first w with
  | (w', .raised) => (w', .raised)
  | (w', .returned) => second w'

/-- generator input with the spooling step made explicit: `io.events_to_file`
    creates the files `spooled` (normally `["events.tab.gz"]`, possibly half
    written) in the spool directory and returns or raises (`spoolExit`: the
    generator may raise, or yield an event that cannot be written); only if it
    returns does the recursive call with its chunk directory `d` happen. -/
def generatorCallS (s d : Path) (spooled : List String) (spoolExit : Exit)
    (created : List String) (e : Exit) (w : World) : World × Exit :=
  bracket s (fun s w =>
    seqBody (fun w => (spooled.map (fun name => s ++ [name]) ++ w, spoolExit))
      (bracket d (chunkBody created e)) w) w

/-! ## worlds with file CONTENTS

For "the input event file is byte-for-byte unchanged" the world must say what
is in a file.  `FS` is an association list path ↦ node (first entry wins). -/

inductive Node where
  | dir
  | file (bytes : List UInt8)
deriving Repr, DecidableEq

abbrev FS := List (Path × Node)

def FS.get (fs : FS) (p : Path) : Option Node := (fs.find? (fun x => x.1 == p)).map (·.2)

/-- create or overwrite -/
def FS.put (fs : FS) (p : Path) (n : Node) : FS := (p, n) :: fs

/-- `os.remove` -/
def FS.del (fs : FS) (p : Path) : FS := fs.filter (fun x => x.1 != p)

/-- `shutil.rmtree(d)` -/
def rmtreeC (d : Path) (fs : FS) : FS := fs.filter (fun x => !below d x.1)

/-- `with tempfile.TemporaryDirectory(...) as d: body` on worlds with contents -/
def bracketC (d : Path) (body : Path → FS → FS × Exit) (fs : FS) : FS × Exit :=
  let (fs', e) := body d (fs.put d .dir)
  (rmtreeC d fs', e)

/-- the body leaves every path that is not at or below `d` as it was: same
    existence, same kind, same bytes.  THIS IS AN ASSUMPTION ABOUT THE REAL
    BODIES (`create_binary_event_files`, the learning kernels, `events_to_file`)
    and, modulo `rmtreeC`, it IS the conclusion of `C17.fs_clean_contents` (whose
    only hypothesis about the body it is).  It holds BY CONSTRUCTION for the
    modelled bodies `opsBody` (they can only address `d ++ [name]`:
    `opsBody_onlyBelowC`), and is observed for the real ones by the differential
    run (directory listing and sha256 of every file outside the temporary
    directory before and after each call) — that run, not a theorem, decides
    "the input is byte-for-byte unchanged". -/
def OnlyBelowC (d : Path) (body : Path → FS → FS × Exit) : Prop :=
  ∀ fs p, below d p = false → (body d fs).1.get p = fs.get p

/-- what a modelled body does in its directory: write (create or overwrite) a
    file `d/name` with some bytes, or remove `d/name`.  Reading any file — the
    input event file is opened read-only (`gzip.open(path, 'rt')`,
    `open(path, 'rb')`) — is no operation on the world. -/
inductive Op where
  | write (name : String) (bytes : List UInt8)
  | remove (name : String)
deriving Repr, DecidableEq

def runOp (d : Path) (fs : FS) : Op → FS
  | .write name bytes => fs.put (d ++ [name]) (.file bytes)
  | .remove name => fs.del (d ++ [name])

def runOps (d : Path) (ops : List Op) (fs : FS) : FS := ops.foldl (runOp d) fs

/-- a modelled body: any sequence of writes and removals in its directory, then
    return or raise (an exception at any point = a shorter sequence and `raised`).
    By construction it cannot address a path outside `d` (every operation names
    `d ++ [name]`): the `inputs_unchanged` theorems about it hold for that reason. -/
def opsBody (ops : List Op) (e : Exit) : Path → FS → FS × Exit :=
  fun d fs => (runOps d ops fs, e)

/-- generator input on worlds with contents: spool operations in `s` with their
    exit, then — if spooling returned — the learner's operations in the sibling `d` -/
def generatorCallC (s d : Path) (spoolOps : List Op) (spoolExit : Exit) (ops : List Op) (e : Exit)
    (fs : FS) : FS × Exit :=
  bracketC s (fun s fs => seqBody (opsBody spoolOps spoolExit s) (bracketC d (opsBody ops e)) fs) fs

end Pyndl.Effects
