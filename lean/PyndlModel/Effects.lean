/-
  PyndlModel.Effects — file-system effects of a learner call (C17) and the
  stage skeleton of a faulty run (C05).

  World = the set of paths that exist (a path = list of components).
  `with tempfile.TemporaryDirectory(prefix="pyndl", dir=…) as d: body`
  (ndl.py, wh.py) is `bracket`: create `d`, run the body, remove `d` and
  everything below it on EVERY exit (return or raise).
-/
namespace Pyndl.Effects

abbrev Path := List String
abbrev World := List Path

/-- `p` is `d` or lies below `d` -/
def below (d p : Path) : Bool := d.isPrefixOf p

inductive Exit where
  | returned | raised
deriving Repr, BEq, DecidableEq

/-- `shutil.rmtree(d)` as done by `TemporaryDirectory.__exit__` -/
def rmtree (d : Path) (w : World) : World := w.filter (fun p => !below d p)

/-- the context manager: the body receives the fresh directory and the world
    containing it; whatever the body's exit is, the directory is removed -/
def bracket (d : Path) (body : Path → World → World × Exit) (w : World) : World × Exit :=
  let (w', e) := body d (d :: w)
  (rmtree d w', e)

/-- a body that only creates or removes entries at or below its directory
    (chunk files `join(d, "events_0_<i>.dat")`, the spooled event file) -/
def OnlyBelow (d : Path) (body : Path → World → World × Exit) : Prop :=
  ∀ w p, below d p = false → (p ∈ (body d w).1 ↔ p ∈ w)

/-- the pinned tree's spooling of generator input before the repair (F7):
    `NamedTemporaryFile().name` is created in the system temp directory outside
    any bracket and never removed -/
def spoolOld (sysTmp : Path) (name : String) (rest : World → World × Exit) (w : World) : World × Exit :=
  rest ((sysTmp ++ [name]) :: w)

end Pyndl.Effects

namespace Pyndl.Effects

/-- the concrete file-system effects of `ndl.ndl` / the `wh` flavours: chunk
    files `events_0_<i>.dat` are created in the temporary directory `d`
    (some of them may be removed again by the job that found no events), then
    the learner returns or raises. -/
def chunkBody (created : List String) (e : Exit) : Path → World → World × Exit :=
  fun d w => (created.map (fun name => d ++ [name]) ++ w, e)

/-- `ndl.ndl(events=<generator>)` after the repair of F7: a spool directory `s`
    (bracket) that receives `events.tab.gz`, inside it the recursive call with its
    own chunk directory `d` (a second bracket, created under the same parent). -/
def generatorCall (s d : Path) (created : List String) (e : Exit) (w : World) : World × Exit :=
  bracket s (fun s w => bracket d (chunkBody created e) ((s ++ ["events.tab.gz"]) :: w)) w

end Pyndl.Effects
