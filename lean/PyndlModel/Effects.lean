/-
  PyndlModel.Effects — file-system effects of a learner call (C17) and the
  stage skeleton of a faulty run (C05).

  World = the set of paths that exist (a path = list of components).
  `with tempfile.TemporaryDirectory(prefix="pyndl", dir=…) as d: body`
  (ndl.py, wh.py) is `bracket`: create `d`, run the body, remove `d` and
  everything below it on EVERY exit (return or raise).
-/
namespace Pyndl.Effects

abbrev Path := List String
abbrev World := List Path

/-- `p` is `d` or lies below `d` -/
def below (d p : Path) : Bool := d.isPrefixOf p

inductive Exit where
  | returned | raised
deriving Repr, BEq, DecidableEq

/-- `shutil.rmtree(d)` as done by `TemporaryDirectory.__exit__` -/
def rmtree (d : Path) (w : World) : World := w.filter (fun p => !below d p)

/-- the context manager: the body receives the fresh directory and the world
    containing it; whatever the body's exit is, the directory is removed -/
def bracket (d : Path) (body : Path → World → World × Exit) (w : World) : World × Exit :=
  let (w', e) := body d (d :: w)
  (rmtree d w', e)

/-- a body that only creates or removes entries at or below its directory
    (chunk files `join(d, "events_0_<i>.dat")`, the spooled event file) -/
def OnlyBelow (d : Path) (body : Path → World → World × Exit) : Prop :=
  ∀ w p, below d p = false → (p ∈ (body d w).1 ↔ p ∈ w)

/-- the pinned tree's spooling of generator input before the repair (F7):
    `NamedTemporaryFile().name` is created in the system temp directory outside
    any bracket and never removed -/
def spoolOld (sysTmp : Path) (name : String) (rest : World → World × Exit) (w : World) : World × Exit :=
  rest ((sysTmp ++ [name]) :: w)

end Pyndl.Effects
