/-
  PyndlModel.Filter — `pyndl.preprocess.JobFilter` (preprocess.py:418-518) and
  `pyndl.preprocess.filter_event_file` (preprocess.py:521-588).

  Mathlib-free.  Text is a list of characters of an arbitrary type `χ` with
  decidable equality (the driver instantiates `χ := Char`, the non-vacuity
  examples `χ := Nat`); the two separators (`"\t"` between the columns, `"_"`
  between the tokens; `Generated.filterColSep`, `Generated.filterTokSep`) are
  parameters `tab us : χ`.  A *line* is the text of one line of the event file
  without its terminating newline (`line.strip('\n')`, preprocess.py:505; the
  iteration of a text-mode file object into lines is trusted).
-/
import PyndlModel.Ndl

namespace Pyndl
namespace Filter

variable {χ : Type} [DecidableEq χ]

/-- a token (cue or outcome name) / a line / a column: a Python `str` -/
abbrev Str (χ : Type) := List χ

/-! ### `str.split(sep)` and `sep.join(...)` for a one-character separator -/

/-- `s.split(sep)` (preprocess.py:505 with `"\t"`, :508-509 with `"_"`):
    never empty; `"".split(sep) = [""]`. -/
def splitOn (sep : χ) : Str χ → List (Str χ)
  | [] => [[]]
  | c :: cs =>
    if c = sep then [] :: splitOn sep cs
    else match splitOn sep cs with
      | [] => [[c]]            -- unreachable (`splitOn` is never empty)
      | t :: ts => (c :: t) :: ts

/-- `sep.join(tokens)` (preprocess.py:517) -/
def joinWith (sep : χ) : List (Str χ) → Str χ
  | [] => []
  | [t] => t
  | t :: t' :: ts => t ++ sep :: joinWith sep (t' :: ts)

/-! ### the four `process_*` methods -/

/-- `collections.defaultdict(return_empty_string, cue_map)[t]`
    (preprocess.py:431-433, 447, 459, 475, 491): the value of the first entry with key `t`,
    the empty string when there is none.  (A Python dict has unique keys; the
    harness only sends association lists with unique keys.) -/
def lookupD : List (Str χ × Str χ) → Str χ → Str χ
  | [], _ => []
  | (k, v) :: m, t => if t = k then v else lookupD m t

/-- which `process_cues` / `process_outcomes` method `JobFilter.__init__`
    selected (preprocess.py:446-469) -/
inductive Rule (χ : Type) where
  | all                                   -- process_*_all     (:484-485, :500-501)
  | keep (S : List (Str χ))               -- process_*_keep    (:481-482, :497-498)
  | remove (S : List (Str χ))             -- process_*_remove  (:478-479, :494-495)
  | map (m : List (Str χ × Str χ))        -- process_*_map     (:474-476, :490-492)
deriving Repr

/-- the selected method applied to the token list of one column -/
def Rule.apply : Rule χ → List (Str χ) → List (Str χ)
  | .all, ts => ts
  | .keep S, ts => ts.filter (fun t => decide (t ∈ S))
  | .remove S, ts => ts.filter (fun t => decide (t ∉ S))
  | .map m, ts => (ts.map (lookupD m)).filter (fun t => decide (t ≠ []))

/-! ### the constructor (preprocess.py:435-469) -/

/-- the three arguments of one side: `keep_*` (`none` = the string `'all'`),
    `remove_*` (`none` = `None`), `*_map` (`none` = `None`) -/
structure SideArgs (χ : Type) where
  keep : Option (List (Str χ))
  remove : Option (List (Str χ))
  map : Option (List (Str χ × Str χ))
deriving Repr

/-- the mutual-exclusion test (preprocess.py:437-444) followed by the
    `if … elif … elif … else` selection (:446-469) of one side -/
def selectRule (a : SideArgs χ) : Except Err (Rule χ) :=
  if (a.map.isSome && a.remove.isSome) || (a.map.isSome && a.keep.isSome)
      || (a.remove.isSome && a.keep.isSome) then .error .value
  else match a.map, a.remove, a.keep with
    | some m, _, _ => .ok (.map m)
    | none, some S, _ => .ok (.remove S)
    | none, none, none => .ok .all
    | none, none, some S => .ok (.keep S)

/-! ### `JobFilter.job` (preprocess.py:503-518) -/

/-- the part of `job` after the two columns were obtained (:508-518):
    `none` iff no cue is left; an empty outcome list is kept and written as an
    empty field. -/
def processColumns (tab us : χ) (rc ro : Rule χ) (c o : Str χ) : Option (Str χ) :=
  let cues := rc.apply (splitOn us c)
  let outs := ro.apply (splitOn us o)
  if cues.isEmpty then none
  else some (joinWith us cues ++ tab :: joinWith us outs)

/-- `job(line)`: exactly two tab-separated columns or `ValueError` (:504-507).
    The returned line is again without its newline. -/
def filterLine (tab us : χ) (rc ro : Rule χ) (line : Str χ) : Except Err (Option (Str χ)) :=
  match splitOn tab line with
  | [c, o] => .ok (processColumns tab us rc ro c o)
  | _ => .error .value

/-! ### `Pool.imap(func, iterable, chunksize)` -/

/-- `Pool._get_tasks` (CPython `multiprocessing/pool.py`): `islice(it, size)`
    until an empty slice.  `fuel` bounds the number of slices. -/
def chunksAux {α : Type} (n : Nat) : Nat → List α → List (List α)
  | 0, _ => []
  | fuel + 1, xs =>
    match xs with
    | [] => []
    | _ :: _ => xs.take n :: chunksAux n fuel (xs.drop n)

def chunksOf {α : Type} (n : Nat) (xs : List α) : List (List α) :=
  chunksAux n xs.length xs

/-- `pool.imap(f, xs, chunksize)` for `chunksize ≥ 1`: every slice is mapped by
    one worker (`mapstar`), the per-slice result lists are yielded in the order
    the slices were submitted and flattened.  (That order is Pool's guarantee and
    is trusted; it is what makes the result independent of `n_jobs`.) -/
def imap {α β : Type} (f : α → β) (xs : List α) (chunk : Nat) : List β :=
  (chunksOf chunk xs).flatMap (List.map f)

/-! ### `filter_event_file` (preprocess.py:574-588) -/

/-- the loop `for … processed_line in pool.imap(…): if processed_line is not
    None: outfile.write(processed_line)` (:582-585); an exception of a job is
    re-raised when its result is reached. -/
def collect : List (Except Err (Option (Str χ))) → Except Err (List (Str χ))
  | [] => .ok []
  | .error e :: _ => .error e
  | .ok r :: rs =>
    match collect rs with
    | .error e => .error e
    | .ok out => .ok (match r with | none => out | some l => l :: out)

/-- `filter_event_file` after the constructor: lines of the input file ↦ lines
    of the output file.  The first line is copied (`outfile.write(
    infile.readline())`, :581; an empty file stays empty), `Pool.imap` rejects
    `chunksize < 1` with `ValueError`. -/
def filterFile (tab us : χ) (rc ro : Rule χ) (chunk : Nat) (lines : List (Str χ)) :
    Except Err (List (Str χ)) :=
  if chunk = 0 then .error .value
  else match lines with
    | [] => .ok []
    | header :: rest =>
      match collect (imap (filterLine tab us rc ro) rest chunk) with
      | .error e => .error e
      | .ok out => .ok (header :: out)

/-- `filter_event_file(…, keep_cues, keep_outcomes, remove_cues,
    remove_outcomes, cue_map, outcome_map, chunksize)`: constructor (cue side
    checked first, :437-444), then the file loop. -/
def filterEventFile (tab us : χ) (ca oa : SideArgs χ) (chunk : Nat) (lines : List (Str χ)) :
    Except Err (List (Str χ)) :=
  match selectRule ca with
  | .error e => .error e
  | .ok rc =>
    match selectRule oa with
    | .error e => .error e
    | .ok ro => filterFile tab us rc ro chunk lines

/-- the separators of the documented event-file format, as characters.
    `C10.seps_match_source` checks them against what the extractor read from
    the source (`Generated.filterColSep`, `Generated.filterTokSep`). -/
def colSep : Char := '\t'
def tokSep : Char := '_'

/-- a line `job` accepts: exactly two columns -/
def WellFormed (tab : χ) (line : Str χ) : Prop := (splitOn tab line).length = 2

instance (tab : χ) (line : Str χ) : Decidable (WellFormed tab line) := by
  unfold WellFormed; infer_instance

/-- the total per-event function of `job` on well-formed lines (the
    specification `filterFile` is compared with): `none` = dropped -/
def applyRules (tab us : χ) (rc ro : Rule χ) (line : Str χ) : Option (Str χ) :=
  match splitOn tab line with
  | [c, o] => processColumns tab us rc ro c o
  | _ => none

end Filter
end Pyndl
