/-
  PyndlModel.Ndl — `pyndl.ndl.ndl` end to end (ndl.py:76-291):
  count → id maps (→ extension of given weights) → binary chunks → kernels per
  part → labelled matrix.  Names are `String`s.
-/
import PyndlModel.Kernel
import PyndlModel.Bytes

namespace Pyndl

/-- a labelled weight matrix: `xarray.DataArray(values, [('outcomes', …), ('cues', …)])`,
    values row-major. -/
structure LW (R : Type) where
  outcomes : List String
  cues : List String
  vals : Array R
deriving Repr

inductive Method where
  | threading | openmp
deriving Repr, BEq, DecidableEq

structure NdlCfg where
  policy : DupPolicy
  method : Method
  perJob : Nat      -- n_outcomes_per_job
  perFile : Nat     -- events_per_temporary_file
deriving Repr

inductive Err where
  | value | io | key | type | other
deriving Repr, BEq, DecidableEq

/-- names in order of first occurrence (the `Counter` key order for `n_jobs=1`;
    for other `n_jobs` the order is a permutation — irrelevant by `label_eq`). -/
def countNames (es : List (Event String String)) : List String × List String :=
  (dedupKeepFirst (es.flatMap (·.cues)), dedupKeepFirst (es.flatMap (·.outcomes)))

def toIds (cues outcomes : List String) (e : Event String String) : Event Nat Nat :=
  ⟨e.cues.map (cues.idxOf ·), e.outcomes.map (outcomes.idxOf ·)⟩

section
variable {R : Type} [Add R] [Sub R] [Mul R] [Zero R]

/-- read a labelled matrix as a total function (0 off the labels). -/
def LW.get (w : LW R) (o c : String) : R :=
  let i := w.outcomes.idxOf o
  let j := w.cues.idxOf c
  if i < w.outcomes.length ∧ j < w.cues.length then w.vals.getD (i * w.cues.length + j) 0 else 0

/-- `np.concatenate` twice (ndl.py:187-196): old block top-left, zeros elsewhere. -/
def extendVals (old : Array R) (oldRows oldCols newRows newCols : Nat) : Array R :=
  Array.ofFn (n := newRows * newCols) (fun k =>
    let i := k.val / newCols
    let j := k.val % newCols
    if i < oldRows ∧ j < oldCols then old.getD (i * oldCols + j) 0 else 0)

/-- number of conversion jobs that find events: `⌈n / per⌉` -/
def nChunks (n per : Nat) : Nat := (n + per - 1) / per

/-- the chunk files in numeric order, or the first duplicate error -/
def makeChunks (magic version : Nat) (p : DupPolicy) (ids : List (Event Nat Nat)) (per : Nat) :
    Except Err (List Bytes × Nat) :=
  let rec go (fuel j : Nat) (files : List Bytes) (total : Nat) : Except Err (List Bytes × Nat) :=
    match fuel with
    | 0 => .ok (files.reverse, total)
    | fuel + 1 =>
      match writeEvents magic version p ids (j * per) ((j + 1) * per) with
      | (_, .dupError _) => .error .value
      | (some f, .ok n) => go fuel (j + 1) (f :: files) (total + n)
      | (some f, .stopped n) => go fuel (j + 1) (f :: files) (total + n)
      | _ => go fuel (j + 1) files total
  go (nChunks ids.length per) 0 [] 0

def decodeAll (magic version : Nat) : List Bytes → Except Err (List (List (Event Nat Nat)))
  | [] => .ok []
  | f :: fs =>
    match decodeChunkKernel magic version f with
    | .error _ => .error .io
    | .ok (es, _) =>
      match decodeAll magic version fs with
      | .error e => .error e
      | .ok r => .ok (es :: r)

def ndlModel (magic version : Nat) (cfg : NdlCfg) (alpha β₁ β₂ lam : R) (W0 : Option (LW R))
    (es : List (Event String String)) : Except Err (LW R × Nat) :=
  let (cuesNew, outsNew) := countNames es
  let (cues, outs, vals) : List String × List String × Array R :=
    match W0 with
    | none => (cuesNew, outsNew, Array.replicate (outsNew.length * cuesNew.length) 0)
    | some w =>
      let cues := w.cues ++ cuesNew.filter (fun c => !w.cues.contains c)
      let outs := w.outcomes ++ outsNew.filter (fun o => !w.outcomes.contains o)
      (cues, outs, extendVals w.vals w.outcomes.length w.cues.length outs.length cues.length)
  if cfg.perFile < 2 then .error .value else
  let ids := es.map (toIds cues outs)
  match makeChunks magic version cfg.policy ids cfg.perFile with
  | .error e => .error e
  | .ok (files, total) =>
    match decodeAll magic version files with
    | .error e => .error e
    | .ok chunks =>
      let allOut := List.range outs.length
      if cfg.perJob < 1 then .error .value else
      let vals' := match cfg.method with
        | .threading => learnThreadingSeq alpha β₁ β₂ lam cues.length chunks allOut cfg.perJob vals
        | .openmp => learnOpenmpSeq alpha β₁ β₂ lam cues.length chunks allOut cfg.perJob vals
      .ok (⟨outs, cues, vals'⟩, total)

/-- `ndl.ndl` as it is CALLED, including an event file with ZERO events: then no
    chunk file is written and a kernel entry point that is called returns its
    `INITIAL_ERROR_CODE` (ndl_parallel.pyx:68-87, ndl_openmp.pyx:37-67), which
    `ndl.ndl` turns into `IOError`.  OpenMP: the entry point is always called.
    Threading: it is called once per work item, i.e. iff the (merged) outcome
    list is non-empty (ndl.py worker loop) — which needs `weights=` with at
    least one outcome.  Argument checks and the conversion come first.  For a
    non-empty event list this is `ndlModel` (`ndlCall_nonempty`). -/
def ndlCall (magic version : Nat) (cfg : NdlCfg) (alpha β₁ β₂ lam : R) (W0 : Option (LW R))
    (es : List (Event String String)) : Except Err (LW R × Nat) :=
  match ndlModel magic version cfg alpha β₁ β₂ lam W0 es with
  | .error e => .error e
  | .ok (w, n) =>
    if es.isEmpty then
      match cfg.method with
      | .openmp => .error .io
      | .threading => if w.outcomes.isEmpty then .ok (w, n) else .error .io
    else .ok (w, n)

end

end Pyndl

namespace Pyndl

section
variable {R : Type} [Add R] [Sub R] [Mul R] [Zero R]

/-- `dict_ndl(weights=DataArray)` (ndl.py:421-428): every cell of the labelled
    matrix becomes a dict entry. -/
def dictFromLW (w : LW R) : WDict String String R :=
  w.outcomes.map (fun o => (o, w.cues.map (fun c => (c, w.get o c))))

/-- `data_array(weights)` (ndl.py:488-538): outcomes = dict keys, cues = union of
    the row keys (any order; here first occurrence), zeros filled in. -/
def lwFromDict (W : WDict String String R) : LW R :=
  let outs := dedupKeepFirst (W.map (·.1))
  let cues := dedupKeepFirst (W.flatMap (fun r => r.2.map (·.1)))
  ⟨outs, cues, (outs.flatMap (fun o => cues.map (fun c => wdAbs W o c))).toArray⟩

/-- the extension step of `ndl.ndl` for given weights (ndl.py:173-198) -/
def extendLW (w : LW R) (cuesNew outsNew : List String) : LW R :=
  let cues := w.cues ++ cuesNew.filter (fun c => !w.cues.contains c)
  let outs := w.outcomes ++ outsNew.filter (fun o => !w.outcomes.contains o)
  ⟨outs, cues, extendVals w.vals w.outcomes.length w.cues.length outs.length cues.length⟩

end

end Pyndl
