/-
  PyndlModel.Ndl — `pyndl.ndl.ndl` end to end (ndl.py:76-291):
  count → id maps (→ extension of given weights) → binary chunks → kernels per
  part → labelled matrix.  Names are `String`s.
-/
import PyndlModel.Kernel
import PyndlModel.Bytes

namespace Pyndl

/-- a labelled weight matrix: `xarray.DataArray(values, [('outcomes', …), ('cues', …)])`,
    values row-major. -/
structure LW (R : Type) where
  outcomes : List String
  cues : List String
  vals : Array R
deriving Repr

inductive Method where
  | threading | openmp
deriving Repr, BEq, DecidableEq

structure NdlCfg where
  policy : DupPolicy
  method : Method
  perJob : Nat      -- n_outcomes_per_job
  perFile : Nat     -- events_per_temporary_file
deriving Repr

/-- exception classes as the harness distinguishes them (harness/common.py
    `classify`): `ValueError`, `OSError`/`IOError`, `KeyError`, `TypeError`, and
    `other` = everything else — here `OverflowError` (a chunk size that does not
    fit `unsigned int` / `int.to_bytes(4)`) and `ZeroDivisionError`
    (`n_outcomes_per_job = 0` under OpenMP). -/
inductive Err where
  | value | io | key | type | other
deriving Repr, BEq, DecidableEq

/-- names in order of first occurrence (the `Counter` key order for `n_jobs=1`).
    For other `n_jobs` the counting stage merges per-process `Counter`s and the
    key order is some other duplicate-free enumeration of the same names; the
    model has no `n_jobs`, it FIXES first occurrence.  That the learned weights,
    read through the labels, do not depend on this choice is a theorem:
    `ndlModelWith_eq_spec` (PyndlProofs/LabelOrder.lean) proves the end-to-end
    statement for ANY duplicate-free label lists that contain the names. -/
def countNames (es : List (Event String String)) : List String × List String :=
  (dedupKeepFirst (es.flatMap (·.cues)), dedupKeepFirst (es.flatMap (·.outcomes)))

def toIds (cues outcomes : List String) (e : Event String String) : Event Nat Nat :=
  ⟨e.cues.map (cues.idxOf ·), e.outcomes.map (outcomes.idxOf ·)⟩

section
variable {R : Type} [Add R] [Sub R] [Mul R] [Zero R]

/-- read a labelled matrix as a total function (0 off the labels). -/
def LW.get (w : LW R) (o c : String) : R :=
  let i := w.outcomes.idxOf o
  let j := w.cues.idxOf c
  if i < w.outcomes.length ∧ j < w.cues.length then w.vals.getD (i * w.cues.length + j) 0 else 0

/-- `np.concatenate` twice (ndl.py:187-196): old block top-left, zeros elsewhere. -/
def extendVals (old : Array R) (oldRows oldCols newRows newCols : Nat) : Array R :=
  Array.ofFn (n := newRows * newCols) (fun k =>
    let i := k.val / newCols
    let j := k.val % newCols
    if i < oldRows ∧ j < oldCols then old.getD (i * oldCols + j) 0 else 0)

/-- number of conversion jobs that find events: `⌈n / per⌉` -/
def nChunks (n per : Nat) : Nat := (n + per - 1) / per

/-- the chunk files in numeric order, or the first error of a conversion job
    (`create_binary_event_files`, preprocess.py:759-884; the jobs run one after
    the other here — the result does not depend on `n_jobs` BY CONSTRUCTION, the
    submit loop with its completion orders is `PyndlModel.Chunking`).
    * A repeated cue/outcome under `remove_duplicates=None` in some window:
      `ValueError` (`.value`).
    * `events_per_file ≥ 2³²`: every job writes the estimate
      `stop - start = events_per_file` into its header first and fails with
      `OverflowError` (`.other`); job 0 is always submitted — also for an event
      file with zero events —, hence the guard in front of the loop. -/
def makeChunks (magic version : Nat) (p : DupPolicy) (ids : List (Event Nat Nat)) (per : Nat) :
    Except Err (List Bytes × Nat) :=
  let rec go (fuel j : Nat) (files : List Bytes) (total : Nat) : Except Err (List Bytes × Nat) :=
    match fuel with
    | 0 => .ok (files.reverse, total)
    | fuel + 1 =>
      match writeEvents magic version p ids (j * per) ((j + 1) * per) with
      | (_, .overflow) => .error .other
      | (_, .dupError _) => .error .value
      | (some f, .ok n) => go fuel (j + 1) (f :: files) (total + n)
      | (some f, .stopped n) => go fuel (j + 1) (f :: files) (total + n)
      | _ => go fuel (j + 1) files total
  if 4294967296 ≤ per then .error .other else
  go (nChunks ids.length per) 0 [] 0

def decodeAll (magic version : Nat) : List Bytes → Except Err (List (List (Event Nat Nat)))
  | [] => .ok []
  | f :: fs =>
    match decodeChunkKernel magic version f with
    | .error _ => .error .io
    | .ok (es, _) =>
      match decodeAll magic version fs with
      | .error e => .error e
      | .ok r => .ok (es :: r)

/-- the OpenMP parts as the Cython code computes them: `length_all_outcomes`,
    `chunksize`, `start_val`, `end_val` are `unsigned int` (`ompBounds32`:
    wrap-around mod 2³²); a part whose `end_val` wrapped below `start_val` is an
    empty `range(start, end)`. -/
def ompParts32 {α : Type} (xs : List α) (chunk : Nat) : List (List α) :=
  (ompBounds32 (UInt32.ofNat xs.length) (UInt32.ofNat chunk)).map
    (fun (s, e) => (xs.drop s.toNat).take (e.toNat - s.toNat))

/-- `learnOpenmpSeq` with the 32-bit part bounds -/
def learnOpenmpSeq32 (alpha β₁ β₂ lam : R) (nCues : Nat) (files : List (List (Event Nat Nat)))
    (allOutcomes : List Nat) (chunk : Nat) (w : Array R) : Array R :=
  files.foldl (fun w f =>
    (ompParts32 allOutcomes chunk).foldl (fun w rows => kernelFile alpha β₁ β₂ lam nCues rows w f) w) w

/-- `ndl.ndl` (ndl.py:201-291) once the label lists `cues`, `outs` (= the id
    maps: a name's id is its position) and the initial values are fixed:
    conversion to chunk files, decoding by the kernels' reader, learning.
    Argument errors, in the order the code raises them:
    * `events_per_temporary_file < 2`: `ValueError`; `≥ 2³²`: `OverflowError`
      (`makeChunks`); a rejected duplicate: `ValueError` — all during conversion;
    * threading, `n_outcomes_per_job < 1`: `ValueError` (`slice_list`);
    * openmp, `n_outcomes_per_job ≥ 2³²`: `OverflowError` (`unsigned int
      chunksize`, ndl_openmp.pyx:31) when the entry point is called;
      `n_outcomes_per_job = 0`: `ZeroDivisionError` in
      `math.ceil(<double> length / chunksize)`, which stands INSIDE the loop over
      the chunk files — with no chunk file it is not reached (then `ndlCall`
      raises `IOError`).
    The parts of the OpenMP method are computed in `unsigned int` arithmetic
    (`ompParts32`); they are the unbounded ones exactly when
    `⌈n_outcomes / n_outcomes_per_job⌉ · n_outcomes_per_job < 2³²`
    (`ompParts32_eq_nowrap`; in particular when `n_outcomes + n_outcomes_per_job
    ≤ 2³²`, `ompParts32_eq`).  Otherwise the last part's `end_val` wraps below its
    `start_val`: an empty range, its rows are NOT trained and nothing is raised
    (`ompBounds32_wraps_example`) — the model reproduces this. -/
def ndlCore (magic version : Nat) (cfg : NdlCfg) (alpha β₁ β₂ lam : R) (cues outs : List String)
    (vals : Array R) (es : List (Event String String)) : Except Err (LW R × Nat) :=
  if cfg.perFile < 2 then .error .value else
  let ids := es.map (toIds cues outs)
  match makeChunks magic version cfg.policy ids cfg.perFile with
  | .error e => .error e
  | .ok (files, total) =>
    match decodeAll magic version files with
    | .error e => .error e
    | .ok chunks =>
      let allOut := List.range outs.length
      match cfg.method with
      | .threading =>
        if cfg.perJob < 1 then .error .value else
        .ok (⟨outs, cues, learnThreadingSeq alpha β₁ β₂ lam cues.length chunks allOut cfg.perJob vals⟩, total)
      | .openmp =>
        if 4294967296 ≤ cfg.perJob then .error .other
        else if cfg.perJob < 1 ∧ !chunks.isEmpty then .error .other
        else .ok (⟨outs, cues, learnOpenmpSeq32 alpha β₁ β₂ lam cues.length chunks allOut cfg.perJob vals⟩, total)

/-- `ndl.ndl` (ndl.py:76-291) on a parsed event file: count the names
    (`countNames`), from scratch label with them and start from zeros, with
    `weights=` append the NEW names to the given labels and extend the given
    values by zeros (ndl.py:173-198); then `ndlCore`.
    `weights=` with duplicate labels is outside the model: `idxOf` gives a name
    its FIRST position, Python's `OrderedDict((name, ii) …)` the LAST; the
    theorems about continued learning carry `Nodup` on the given labels.
    Events with an EMPTY cue or outcome list are outside the model as well (an
    event file presents them with the name `""`): the theorems carry
    `FileEvents es`, or are about `ndlCallFile` (below).  The new names are
    appended in first-occurrence order (the code: `list(set(cues) - set(old))`,
    hash order); any order gives the same weights read through the labels:
    `ndlModelContWith_order_irrelevant` (PyndlProofs/LabelOrder.lean). -/
def ndlModel (magic version : Nat) (cfg : NdlCfg) (alpha β₁ β₂ lam : R) (W0 : Option (LW R))
    (es : List (Event String String)) : Except Err (LW R × Nat) :=
  let (cuesNew, outsNew) := countNames es
  match W0 with
  | none =>
    ndlCore magic version cfg alpha β₁ β₂ lam cuesNew outsNew
      (Array.replicate (outsNew.length * cuesNew.length) 0) es
  | some w =>
    let cues := w.cues ++ cuesNew.filter (fun c => !w.cues.contains c)
    let outs := w.outcomes ++ outsNew.filter (fun o => !w.outcomes.contains o)
    ndlCore magic version cfg alpha β₁ β₂ lam cues outs
      (extendVals w.vals w.outcomes.length w.cues.length outs.length cues.length) es

/-- `ndl.ndl` as it is CALLED, including an event file with ZERO events: then no
    chunk file is written and a kernel entry point that is called returns its
    `INITIAL_ERROR_CODE` (ndl_parallel.pyx:68-87, ndl_openmp.pyx:37-67), which
    `ndl.ndl` turns into `IOError`.  OpenMP: the entry point is always called.
    Threading: it is called once per work item, i.e. iff the (merged) outcome
    list is non-empty (ndl.py worker loop) — which needs `weights=` with at
    least one outcome.  Argument checks and the conversion come first.  For a
    non-empty event list this is `ndlModel` (`ndlCall_nonempty`).  That this rule
    is what the entry points (`learnChunksB2B`, one call per `slice_list` part
    resp. one OpenMP call) give on an empty file list is a theorem:
    `ndlCallEntry_nil` (PyndlProofs/NdlEntry.lean; C01 `ndl_zero_events_rule`).
    `es` must be what an event file can hold (`FileEvents`); for arbitrary
    generator contents the call is `ndlCallFile`. -/
def ndlCall (magic version : Nat) (cfg : NdlCfg) (alpha β₁ β₂ lam : R) (W0 : Option (LW R))
    (es : List (Event String String)) : Except Err (LW R × Nat) :=
  match ndlModel magic version cfg alpha β₁ β₂ lam W0 es with
  | .error e => .error e
  | .ok (w, n) =>
    if es.isEmpty then
      match cfg.method with
      | .openmp => .error .io
      | .threading => if w.outcomes.isEmpty then .ok (w, n) else .error .io
    else .ok (w, n)

end

/-! ## events as an event FILE presents them

`ndl.ndl` never sees an event list: it gets a path, or a generator which it
spools into `events.tab.gz` first (ndl.py:133-145), and every stage
(`count.cues_outcomes`, `create_binary_event_files`) reads the file with
`io.events_from_file`: `cues.split('_')`, `outcomes.split('_')`.  An EMPTY field
comes back as `''.split('_') = ['']` — the one name `""` — on either side, so the
code can never receive an event with no cue or no outcome (C07
`parse_render_general`: the round trip is `normaliseAll`; this is its `String`
version; names with `_`, TAB, LF are outside C07's domain and not touched here). -/

/-- one side of an event as the text format presents it: `"_".join([]) = ""`
    reads back as `[""]`; every non-empty list is unchanged -/
def fileNormList : List String → List String
  | [] => [""]
  | xs => xs

/-- an event as the text event format presents it (harness/gen.py `file_norm`,
    harness/textgen.py `file_norm`) -/
def fileNorm (e : Event String String) : Event String String :=
  ⟨fileNormList e.cues, fileNormList e.outcomes⟩

/-- the event lists an event file can hold: every event has at least one cue and
    at least one outcome (possibly the name `""`) — the hypothesis of every
    statement about `ndlModel` / `ndlCall` applied to an event list directly -/
def FileEvents (es : List (Event String String)) : Prop :=
  ∀ e ∈ es, e.cues ≠ [] ∧ e.outcomes ≠ []

instance (es : List (Event String String)) : Decidable (FileEvents es) := by
  unfold FileEvents; infer_instance

section
variable {R : Type} [Add R] [Sub R] [Mul R] [Zero R]

/-- **`ndl.ndl(events=<path or generator of the events es>)`**: the call on what the
    event file presents, `es.map fileNorm`.  This is the function of an ARBITRARY
    event list the real call computes; `ndlCall` itself is the call only on
    `FileEvents` (`ndlCallFile_of_fileEvents`). -/
def ndlCallFile (magic version : Nat) (cfg : NdlCfg) (alpha β₁ β₂ lam : R) (W0 : Option (LW R))
    (es : List (Event String String)) : Except Err (LW R × Nat) :=
  ndlCall magic version cfg alpha β₁ β₂ lam W0 (es.map fileNorm)

end

end Pyndl

namespace Pyndl

section
variable {R : Type} [Add R] [Sub R] [Mul R] [Zero R]

/-- `dict_ndl(weights=DataArray)` (ndl.py:421-428): every cell of the labelled
    matrix becomes a dict entry. -/
def dictFromLW (w : LW R) : WDict String String R :=
  w.outcomes.map (fun o => (o, w.cues.map (fun c => (c, w.get o c))))

/-- `data_array(weights)` (ndl.py:488-538): outcomes = dict keys, cues = union of
    the row keys (any order; here first occurrence), zeros filled in. -/
def lwFromDict (W : WDict String String R) : LW R :=
  let outs := dedupKeepFirst (W.map (·.1))
  let cues := dedupKeepFirst (W.flatMap (fun r => r.2.map (·.1)))
  ⟨outs, cues, (outs.flatMap (fun o => cues.map (fun c => wdAbs W o c))).toArray⟩

/-- the extension step of `ndl.ndl` for given weights (ndl.py:173-198) -/
def extendLW (w : LW R) (cuesNew outsNew : List String) : LW R :=
  let cues := w.cues ++ cuesNew.filter (fun c => !w.cues.contains c)
  let outs := w.outcomes ++ outsNew.filter (fun o => !w.outcomes.contains o)
  ⟨outs, cues, extendVals w.vals w.outcomes.length w.cues.length outs.length cues.length⟩

end

end Pyndl
