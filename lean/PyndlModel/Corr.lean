/-
  PyndlModel.Corr — model of `pyndl.correlation.correlation`
  (pyndl/correlation.py:52-118) and of the OpenMP kernel
  `pyndl.correlation_openmp.correlation` (pyndl/correlation_openmp.pyx:15-58).

  Mathlib-free and polymorphic in the scalar type, so that the same
  definitions run in the native driver (scalars := `Rat`) and are reasoned
  about in the proof files (a field, an ordered field, ℝ with `Real.sqrt`).

  A matrix is a list of rows (`semantics[kk]`), indexed *logically*
  (`semantics[kk, jj]` = `(M.getD kk []).getD jj 0`): memory layout (C order,
  Fortran order, strides of a slice) does not occur in the model, exactly as it
  does not occur in the numpy / Cython buffer indexing expressions of the code.
-/
namespace Pyndl.Corr

/-! ## Scalar part: one cell -/

section Scalar
variable {R : Type} [Add R] [Sub R] [Mul R] [Div R] [Zero R] [One R] [NatCast R]

/-- `np.add.reduce(column)`: the sum of a column. -/
def sumL (x : List R) : R := x.foldl (· + ·) 0

/-- `np.mean(semantics[:, jj])` (correlation.py:96, 100): sum divided by the
    number of vector dimensions. -/
def mean (x : List R) : R := sumL x / (x.length : R)

/-- `Σ (x − x̄)²`, the numerator inside `np.std`. -/
def ssq (x : List R) : R :=
  let m := mean x
  sumL (x.map (fun v => (v - m) * (v - m)))

/-- `np.std(column, ddof=1) ** 2` (correlation.py:93): the sum of squared
    deviations divided by `n - ddof` (an *integer* subtraction, clipped at 0,
    as in numpy's `_var`). -/
def var1 (x : List R) : R := ssq x / ((x.length - 1 : Nat) : R)

/-- `np.std(column, ddof=1)` for a given square-root function. -/
def std (sqrt : R → R) (x : List R) : R := sqrt (var1 x)

/-- the inner loop `for kk in range(n_vec_dims): scalar_prod = scalar_prod +
    semantics[kk, jj] * activations[kk, ii]` (correlation_openmp.pyx:50-52);
    `scalar_prod` is re-initialised to 0.0 for every cell (pyx:49). -/
def dot (x y : List R) : R := (x.zip y).foldl (fun s p => s + p.1 * p.2) 0

/-- `nominator = scalar_prod - n_vec_dims_float * semantics_means[jj] *
    activations_means[ii]` (pyx:53). -/
def nomWith (n : Nat) (x y : List R) (mx my : R) : R := dot x y - (n : R) * mx * my

/-- `denominator = (n_vec_dims_float - 1.0) * semantics_stds[jj] *
    activations_stds[ii]` (pyx:54). -/
def denWith (n : Nat) (sx sy : R) : R := ((n : R) - 1) * sx * sy

/-- `correlations[jj, ii] = nominator / denominator` (pyx:56): the kernel's
    cell from the column pair and the four statistics it is handed. -/
def kernelCell (n : Nat) (x y : List R) (mx sx my sy : R) : R :=
  nomWith n x y mx my / denWith n sx sy

/-- the nominator with the means `correlation.py` passes in. -/
def nom (x y : List R) : R := nomWith y.length x y (mean x) (mean y)

/-- the cell `correlation()` returns for a pair of non-degenerate columns:
    the kernel fed with `np.mean` and `np.std(ddof=1)` of both columns;
    `n_vec_dims` is `activations.shape[0]`. -/
def corrCell (sqrt : R → R) (x y : List R) : R :=
  kernelCell y.length x y (mean x) (std sqrt x) (mean y) (std sqrt y)

/-- the square of the denominator, free of square roots:
    `(n−1)² · var₁ x · var₁ y`. -/
def den2 (x y : List R) : R :=
  ((y.length : R) - 1) * ((y.length : R) - 1) * var1 x * var1 y

/-- `r²` as an element of the field itself (what the driver prints over `Rat`). -/
def r2 (x y : List R) : R := nom x y * nom x y / den2 x y

/-- the reference's formula (scipy.stats.pearsonr, the definition of
    Pearson's r): `Σ(x−x̄)(y−ȳ) / √(Σ(x−x̄)² · Σ(y−ȳ)²)`. -/
def cov (x y : List R) : R :=
  let mx := mean x
  let my := mean y
  sumL ((x.zip y).map (fun p => (p.1 - mx) * (p.2 - my)))

def pearson (sqrt : R → R) (x y : List R) : R := cov x y / sqrt (ssq x * ssq y)

end Scalar

/-! ## Extended scalars and the degenerate-input decision -/

/-- a float64 as the rejection rule sees it: finite, NaN, +inf, −inf -/
inductive Ext (R : Type) where
  | fin (v : R) | nan | pinf | ninf
deriving Repr, DecidableEq

/-- IEEE `==` (NaN is different from everything, itself included) -/
def Ext.eqv {R : Type} [DecidableEq R] : Ext R → Ext R → Bool
  | .fin a, .fin b => decide (a = b)
  | .pinf, .pinf => true
  | .ninf, .ninf => true
  | _, _ => false

def Ext.toFin? {R : Type} : Ext R → Option R
  | .fin v => some v
  | _ => none

/-- what `_std(column)` (correlation.py:89-93) returns, as far as the check at
    correlation.py:106-110 can tell: exactly `0.0`, NaN, or a positive finite
    number. -/
inductive StdClass where
  | zero | nan | pos
deriving Repr, DecidableEq

/-- `_std` (correlation.py:89-93).
    * `np.all(column == column[0])` ⇒ `0.0` (also for a column of equal
      infinities; never for a column that starts with or contains a NaN);
    * otherwise `np.std(column, ddof=1)`: a column with any non-finite entry has
      a non-finite mean or a non-finite deviation, hence `inf − inf = NaN`
      inside the sum, hence NaN; a finite non-constant column has a positive
      standard deviation (`var_zero_iff_const`).
    `column[0]` on an empty column raises `IndexError`; `correlation` below
    guards that case, so the `[]` branch here is never consulted. -/
def stdClass {R : Type} [DecidableEq R] : List (Ext R) → StdClass
  | [] => .nan
  | c0 :: rest =>
    if (c0 :: rest).all (fun v => Ext.eqv v c0) then .zero
    else if (c0 :: rest).all (fun v => v.toFin?.isSome) then .pos
    else .nan

/-- the finite entries of a column (used only when `stdClass = pos`) -/
def finCol {R : Type} [Zero R] (col : List (Ext R)) : List R :=
  col.map (fun v => v.toFin?.getD 0)

/-! ## Matrices, logically indexed -/

/-- `M.shape[0]` -/
def nRows {α : Type} (M : List (List α)) : Nat := M.length

/-- `M.shape[1]` (all rows of a numpy array have the same length) -/
def nCols {α : Type} (M : List (List α)) : Nat := (M.headD []).length

/-- `M[:, j]` -/
def colOf {α : Type} (dflt : α) (M : List (List α)) (j : Nat) : List α :=
  M.map (fun row => row.getD j dflt)

/-- A strided view into a flat buffer: element `(k, j)` lives at
    `off + k*s0 + j*s1` (C order: `s0 = ncols, s1 = 1`; Fortran order:
    `s0 = 1, s1 = nrows`; a slice `a[::2, ::3]`: both multiplied).  The kernel
    and `correlation.py` only ever index `M[k, j]`, i.e. they see `viewMat`. -/
def viewMat {α : Type} (dflt : α) (buf : Array α) (off s0 s1 rows cols : Nat) : List (List α) :=
  (List.range rows).map (fun k => (List.range cols).map (fun j => buf.getD (off + k * s0 + j * s1) dflt))

/-! ## The `prange` over events -/

section Prange
variable {β : Type}

/-- the result buffer `correlations`, indexed logically.  (A structure around
    the function so that the compiled driver builds it once: a bare
    function-typed `let` is eta-expanded by the compiler and re-run per read.) -/
structure Grid (β : Type) where
  get : Nat → Nat → β

/-- `np.zeros((n_outcomes, n_events))` (pyx:38) -/
def Grid.const (z : β) : Grid β := ⟨fun _ _ => z⟩

/-- `correlations[jj, ii] = v` -/
def upd2 (C : Grid β) (jj ii : Nat) (v : β) : Grid β :=
  ⟨fun a b => if a = jj ∧ b = ii then v else C.get a b⟩

/-- one cell write; the written value depends only on `(jj, ii)`: `scalar_prod`,
    `nominator`, `denominator`, `jj`, `kk` are assigned inside the `prange`
    body before they are read, hence thread-private (Cython's rule), and the
    inputs are only read. -/
def writeCell (cell : Nat → Nat → β) (C : Grid β) (p : Nat × Nat) : Grid β :=
  upd2 C p.1 p.2 (cell p.1 p.2)

/-- the cell writes of one `prange` iteration `ii`: `for jj in range(n_outcomes)`
    (pyx:48-56) -/
def iterWrites (nOut ii : Nat) : List (Nat × Nat) := (List.range nOut).map (fun jj => (jj, ii))

/-- executing a sequence of cell writes -/
def runWrites (cell : Nat → Nat → β) (C : Grid β) (ws : List (Nat × Nat)) : Grid β :=
  ws.foldl (writeCell cell) C

/-- one `prange` iteration -/
def runIter (cell : Nat → Nat → β) (nOut : Nat) (C : Grid β) (ii : Nat) : Grid β :=
  runWrites cell C (iterWrites nOut ii)

/-- the chunks `schedule="dynamic", chunksize=c` hands out: consecutive blocks
    of `c` iterations, the last one shorter (pyx:47).  `fuel` bounds the
    recursion (any `fuel ≥ l.length` gives the same result for `c ≥ 1`). -/
def chunkAux {α : Type} (c : Nat) : Nat → List α → List (List α)
  | 0, _ => []
  | fuel + 1, l => if l.isEmpty then [] else l.take c :: chunkAux c fuel (l.drop c)

def prangeChunks (n c : Nat) : List (List Nat) := chunkAux c n (List.range n)

/-- the chunks executed one after the other in the order they are handed out
    (an arbitrary order: which thread grabs which chunk when is up to the
    OpenMP runtime; interleavings of different threads' cell writes are covered
    by `runWrites` on an arbitrary permutation, see `cells_independent`). -/
def runChunks (cell : Nat → Nat → β) (nOut : Nat) (C : Grid β)
    (chunks : List (List Nat)) : Grid β :=
  chunks.foldl (fun C ch => ch.foldl (runIter cell nOut) C) C

/-- reading the buffer back row by row -/
def Grid.toMat (C : Grid β) (nOut nEv : Nat) : List (List β) :=
  (List.range nOut).map (fun jj => (List.range nEv).map (fun ii => C.get jj ii))

/-- `np.zeros((n_outcomes, n_events))`, then the parallel loop, then the matrix
    is returned (pyx:38, 46-58). `order` permutes the chunks. -/
def kernelRun (zero : β) (cell : Nat → Nat → β) (nOut nEv c : Nat) (order : List Nat) : List (List β) :=
  let chunks := prangeChunks nEv c
  let sched := order.map (fun k => chunks.getD k [])
  (runChunks cell nOut (Grid.const zero) sched).toMat nOut nEv

/-- the result matrix computed directly, cell by cell -/
def directMat (cell : Nat → Nat → β) (nOut nEv : Nat) : List (List β) :=
  (List.range nOut).map (fun jj => (List.range nEv).map (fun ii => cell jj ii))

end Prange

/-! ## `correlation()` -/

/-- `semantics_stds` / `activations_stds` as classes: `_std` of every column
    (correlation.py:95-101) -/
def colClasses {R : Type} [DecidableEq R] (M : List (List (Ext R))) : List StdClass :=
  (List.range (nCols M)).map (fun j => stdClass (colOf .nan M j))

/-- `np.any(stds == 0) or np.any(np.isnan(stds))` for either matrix
    (correlation.py:106-110) -/
def anyDegenerate {R : Type} [DecidableEq R] (sem act : List (List (Ext R))) : Bool :=
  (colClasses sem).any (· != .pos) || (colClasses act).any (· != .pos)

inductive CorrErr where
  | assertion   -- shapes do not match (correlation.py:74)
  | value       -- a standard deviation is 0 or NaN (correlation.py:106-110)
deriving Repr, DecidableEq

/-- `pyndl.correlation.correlation(semantics, activations, allow_nan=…)`
    (correlation.py:52-118) with the per-cell function as a parameter
    (`corrCell sqrt` in the theorems; `(r², sign nom)` in the driver).
    A cell one of whose columns is degenerate (only reachable with
    `allow_nan=True`) holds NaN or ±inf in the real code: `none` here.
    `chunksize`/`order`: the schedule of the `prange`; `zero`: the `0.0` of
    `np.zeros`.  A matrix with zero rows has no column count in this
    representation (`n_vec_dims ≥ 1` is the property's quantifier; the real code
    raises `IndexError` at `column[0]` for `n_vec_dims = 0`). -/
def correlation {R : Type} [DecidableEq R] [Zero R] {β : Type} (zero : β)
    (cellFn : List R → List R → β) (allowNan : Bool)
    (sem act : List (List (Ext R))) (chunksize : Nat) (order : List Nat) :
    Except CorrErr (List (List (Option β))) :=
  -- assert semantics.shape[0] == activations.shape[0]        (correlation.py:74)
  if nRows sem ≠ nRows act then .error .assertion else
  let nOut := nCols sem
  let nEv := nCols act
  -- if not allow_nan: any std == 0 or isnan ⇒ ValueError      (correlation.py:105-110)
  if !allowNan && anyDegenerate sem act then .error .value else
  let semCols := (List.range nOut).map (colOf .nan sem)
  let actCols := (List.range nEv).map (colOf .nan act)
  let semCls := colClasses sem
  let actCls := colClasses act
  let cell : Nat → Nat → Option β := fun jj ii =>
    if semCls.getD jj .nan == .pos && actCls.getD ii .nan == .pos then
      some (cellFn (finCol (semCols.getD jj [])) (finCol (actCols.getD ii [])))
    else none
  -- correlation_openmp.correlation(...)                        (correlation.py:115)
  .ok (kernelRun (some zero) cell nOut nEv chunksize order)

/-- what the driver prints per cell over `Rat`: `r² = nom²/den²` and `sign nom` -/
def execCell (x y : List Rat) : Rat × Int := (r2 x y, (nom x y).num.sign)

end Pyndl.Corr
