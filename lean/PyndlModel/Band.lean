/-
  PyndlModel.Band — executable model of

  * `pyndl.preprocess.bandsample`            (/repo/pyndl/preprocess.py:22-76)
  * `pyndl.count.save_counter`/`load_counter` (/repo/pyndl/count.py:165-192)

  Mathlib-free.  Scalars are an arbitrary type `R` with `+ - /`, `0`, a cast
  from `Int` (for `sample_size`) and a decidable `≤` (ℚ in the driver, any
  linearly ordered field in the proofs).  `random.Random(seed).shuffle` is *not* modelled: the model
  receives the already shuffled list, i.e. the theorems hold for every
  permutation the shuffle could produce.
-/
namespace Pyndl.Band

/-! ## bandsample -/

section Sample
variable {α R : Type} [Add R] [Sub R] [Div R] [Zero R] [IntCast R] [LE R] [DecidableLE R]

/-- preprocess.py:31-32 `[(word, freq) for word, freq in population.items() if freq >= cutoff]` -/
def filterCutoff (cutoff : R) (pop : List (α × R)) : List (α × R) :=
  pop.filter (fun e => decide (cutoff ≤ e.2))

/-- one insertion step of a *stable* ascending sort by frequency: `x` stood
    before every element of the (already sorted) tail, so it goes in front of
    the first element whose key is not smaller. -/
def insertByFreq (x : α × R) : List (α × R) → List (α × R)
  | [] => [x]
  | y :: ys => if x.2 ≤ y.2 then x :: y :: ys else y :: insertByFreq x ys

/-- preprocess.py:40 `population.sort(key=lambda x: x[1])` — `list.sort` is
    stable; ascending ("lowest -> highest freq"). -/
def sortByFreq : List (α × R) → List (α × R)
  | [] => []
  | x :: xs => insertByFreq x (sortByFreq xs)

/-- preprocess.py:42 `sum(freq for word, freq in population)` (left to right from 0) -/
def totalFreq (pop : List (α × R)) : R := pop.foldl (fun s e => s + e.2) 0

/-- state of the walk: the shrinking `population` list, `index`,
    `accumulator`, and `sample` (append order). -/
structure WalkState (α R : Type) where
  pop : List (α × R)
  index : Nat
  acc : R
  sample : List (α × R)

/-- preprocess.py:60-67, the inner back-walk
    ```
    while accumulator >= step and index >= 1:
        index -= 1
        sample.append(population[index])
        accumulator -= step
        del population[index]
    ```
    Structural recursion on `index` (it decreases by one per iteration, the
    loop stops at `index = 0`).  `population[index]` is in range whenever the
    outer loop's guard `index < len(population)` held before the first `del`
    (proved: `Pyndl.Band.backWalk_shape`, PyndlProofs/Band.lean); the `none` branch (Python:
    `IndexError`) stops the loop and is flagged by `indexError`. -/
def backWalk (step : R) : Nat → List (α × R) → R → List (α × R) → Bool → WalkState α R × Bool
  | 0, pop, acc, sample, ie => (⟨pop, 0, acc, sample⟩, ie)
  | i + 1, pop, acc, sample, ie =>
    if step ≤ acc then
      match pop[i]? with
      | some e => backWalk step i (pop.eraseIdx i) (acc - step) (sample ++ [e]) ie
      | none => (⟨pop, i, acc, sample⟩, true)
    else (⟨pop, i + 1, acc, sample⟩, ie)

/-- preprocess.py:49-73, the outer loop
    ```
    while 0 <= index < len(population):
        word, freq = population[index]
        accumulator += freq
        if accumulator >= step:
            sample.append((word, freq)); accumulator -= step
            del population[index]
            <back-walk>
        else:
            index += 1
    ```
    with an explicit iteration budget `fuel`.  `none` = budget exhausted.
    `walk_terminates` (PyndlProofs/Band.lean) shows that a budget of
    `2 * len(population) - index + 1` is never exhausted, and `walk_fuel_mono`
    that the result does not depend on the budget beyond that — this *is* the
    termination claim of C20 (the measure `2·|population| − index` strictly
    decreases in every iteration).  `index` is a `Nat`: the only decrement is
    guarded by `index >= 1`, so `0 <= index` always holds. -/
def walk (step : R) : Nat → WalkState α R → Option (WalkState α R × Bool)
  | 0, _ => none
  | fuel + 1, s =>
    match s.pop[s.index]? with
    | none => some (s, false)                                  -- loop guard false
    | some e =>
      let acc := s.acc + e.2
      if step ≤ acc then
        let (s', ie) := backWalk step s.index (s.pop.eraseIdx s.index) (acc - step) (s.sample ++ [e]) false
        if ie then some (s', true) else walk step fuel s'
      else walk step fuel { s with index := s.index + 1, acc := acc }

/-- preprocess.py:75 `{key: value for key, value in sample}`: a dict
    comprehension — first occurrence fixes the position, last value wins. -/
def dictSet [DecidableEq α] {β : Type} : List (α × β) → α → β → List (α × β)
  | [], k, v => [(k, v)]
  | (k', v') :: rest, k, v => if k' = k then (k', v) :: rest else (k', v') :: dictSet rest k v

def toDict [DecidableEq α] {β : Type} (kvs : List (α × β)) : List (α × β) :=
  kvs.foldl (fun d kv => dictSet d kv.1 kv.2) []

inductive Result (α R : Type) where
  /-- returned; the list is `sample` in append order (line 75 turns it into a Counter) -/
  | ok (sample : List (α × R))
  /-- `sample_size == 0`: `ZeroDivisionError` at line 42 -/
  | zeroDivision
  /-- `population[index]` out of range inside the back-walk (never: `band_terminates`) -/
  | indexError
  /-- iteration budget exhausted (never: `band_terminates`) -/
  | diverged
deriving DecidableEq, Repr

/-- the iteration budget handed to `walk`: measure `2·|population| − index` at
    `index = 0`, plus one for the final evaluation of the loop guard -/
def walkFuel (pop : List (α × R)) : Nat := 2 * pop.length + 1

/-- preprocess.py:44-75: everything after the step has been computed (line
    42), for an ARBITRARY step — whatever `sample_size` was (an `int` of either
    sign, a `bool`, a `float`) and however the division rounded. -/
def bandsampleRun (shuffled : List (α × R)) (step : R) : Result α R :=
  let pop := sortByFreq shuffled
  match walk step (walkFuel pop) ⟨pop, 0, 0, []⟩ with
  | none => .diverged
  | some (_, true) => .indexError
  | some (s, false) => .ok s.sample

/-- `bandsample(population, sample_size, cutoff=cutoff)` with the shuffle made
    explicit: `shuffled` must be a permutation of `filterCutoff cutoff population`
    (hypothesis of the theorems; the driver receives it from the harness, which
    patches `random.Random(...).shuffle` to apply the same permutation).

    DOMAIN of `sample_size`: a Python `int` of EITHER SIGN (`bool` counts as
    0/1).  The code does not check it: `0` raises `ZeroDivisionError` at line 42;
    a negative value makes the step negative, so (with positive frequencies)
    every word is picked — `bandsample(pop, -1)` returns all retained words
    (`C20.band_negative_size`).  A `float` sample_size is accepted by the code
    as well; it is covered by the theorems about `bandsampleRun` (any step)
    only. -/
def bandsampleShuffled (shuffled : List (α × R)) (sampleSize : Int) : Result α R :=
  if sampleSize = 0 then .zeroDivision
  else bandsampleRun shuffled (totalFreq (sortByFreq shuffled) / (sampleSize : R))

/-- apply a permutation given as a list of source positions:
    result[k] = xs[perm[k]] (positions out of range are dropped) -/
def applyPerm {β : Type} (xs : List β) (perm : List Nat) : List β :=
  perm.filterMap (fun i => xs[i]?)

/-- the Python-level call, with the caller's object made explicit: line 31
    rebinds the local name `population` to a NEW list built from
    `population.items()`, and every later `sort` / `del` acts on that list; the
    caller's Counter is not written to.  First component: the caller's
    population after the call (`perm`: what the shuffle did). -/
def bandsampleCall (cutoff : R) (perm : List Nat) (population : List (α × R)) (sampleSize : Int) :
    List (α × R) × Result α R :=
  (population, bandsampleShuffled (applyPerm (filterCutoff cutoff population) perm) sampleSize)

end Sample

/-! ## save_counter / load_counter over `List Char` -/

abbrev Str := List Char

/-- decimal digits of a natural number, most significant first (fuel = n+1 suffices) -/
def showNatF : Nat → Nat → Str
  | 0, _ => []
  | f + 1, n =>
    if n < 10 then [Char.ofNat (48 + n)]
    else showNatF f (n / 10) ++ [Char.ofNat (48 + n % 10)]

def showNat (n : Nat) : Str := showNatF (n + 1) n

/-- `str(int)` (count.py:173 `'{count}'.format`) -/
def showInt : Int → Str
  | .ofNat n => showNat n
  | .negSucc n => '-' :: showNat (n + 1)

def isDigit (c : Char) : Bool := 48 ≤ c.toNat && c.toNat ≤ 57

def parseNat (s : Str) : Option Nat :=
  if s.isEmpty || !s.all isDigit then none
  else some (s.foldl (fun a c => 10 * a + (c.toNat - 48)) 0)

/-- `int(count)` (count.py:191) on the canonical spellings `-?[0-9]+`.
    MODEL RESTRICTION: Python's `int()` also accepts surrounding whitespace, a
    leading `+`, `_` separators and non-ASCII digits; those spellings are never
    produced by `save_counter` and are reported as `ValueError` here. -/
def parseInt : Str → Option Int
  | '-' :: ds => (parseNat ds).map (fun n => -(n : Int))
  | ds => (parseNat ds).map (fun n => (n : Int))

/-- own structural split: `s.split(sep)` for a one-character separator -/
def splitOn (sep : Char) : Str → List Str
  | [] => [[]]
  | c :: cs =>
    if c = sep then [] :: splitOn sep cs
    else match splitOn sep cs with
      | [] => [[c]]           -- unreachable: splitOn never returns []
      | w :: ws => (c :: w) :: ws

/-- `Counter.most_common()` = `sorted(items, key=count, reverse=True)`:
    descending by count, ties in insertion order (stable). -/
def insertByCount (x : Str × Int) : List (Str × Int) → List (Str × Int)
  | [] => [x]
  | y :: ys => if y.2 ≤ x.2 then x :: y :: ys else y :: insertByCount x ys

def mostCommon : List (Str × Int) → List (Str × Int)
  | [] => []
  | x :: xs => insertByCount x (mostCommon xs)

/-- count.py:170-173: header, then one line `key TAB count LF` per entry of `most_common()` -/
def saveCounter (header : Str) (c : List (Str × Int)) : Str :=
  header ++ (mostCommon c).flatMap (fun e => e.1 ++ '\t' :: showInt e.2 ++ ['\n'])

/-- text mode `'rt'` reads with universal newlines: CR LF and lone CR become LF -/
def univNl : Str → Str
  | [] => []
  | '\r' :: '\n' :: rest => '\n' :: univNl rest
  | '\r' :: rest => '\n' :: univNl rest
  | c :: rest => c :: univNl rest

/-- `dfile.readline()` / `for line in dfile`: the lines of a text *including*
    their terminating LF (a last line without LF is yielded as is; nothing
    after a final LF). -/
def fileLines : Str → List Str
  | [] => []
  | c :: cs =>
    if c = '\n' then ['\n'] :: fileLines cs
    else match fileLines cs with
      | [] => [[c]]
      | l :: ls => (c :: l) :: ls

/-- `line.rstrip('\n')` -/
def rstripNl : Str → Str
  | [] => []
  | c :: cs =>
    let r := rstripNl cs
    if r.isEmpty && c = '\n' then [] else c :: r

def hasKey (k : Str) (c : List (Str × Int)) : Bool := c.any (fun e => e.1 = k)

/-- count.py:188-191, one loop iteration; `none` = `ValueError` (wrong number
    of fields, repeated key, or unparsable count) -/
def loadLine (counter : List (Str × Int)) (line : Str) : Option (List (Str × Int)) :=
  match splitOn '\t' (rstripNl line) with
  | [key, count] =>
    if hasKey key counter then none
    else match parseInt count with
      | some n => some (counter ++ [(key, n)])
      | none => none
  | _ => none

/-- count.py:181-192 `load_counter`: skip the first line, then fold the rest.
    Result in insertion (= file) order; `none` = `ValueError`. -/
def loadCounter (text : Str) : Option (List (Str × Int)) :=
  (fileLines (univNl text)).drop 1 |>.foldlM loadLine []

end Pyndl.Band
