/-
  PyndlModel.Attrs — run metadata (`attrs`) of returned weights (C16).

  Models `pyndl.ndl._attributes` (pyndl/ndl.py:313-363) and
  `pyndl.wh._attributes` (pyndl/wh.py:934-976): the two key sets, the
  `alpha → 'varying'` rule, the width rule and `'{0: <{width}}'.format`
  padding, and the `' | '` accumulation over the union of old and new keys.

  Strings are `List Char` (Python `len` = number of code points = list
  length); `str()` of floats / tuples / ints is *supplied by the harness*
  (Python-supplied, see TRUSTED in harness/run_C16.py), the model only pads,
  joins, splits and strips.  Mathlib-free.

  `to_netcdf` followed by `open_dataarray(...).load()` is the identity in this
  model (`Op.saveLoad`): netCDF4/HDF5/xarray serialisation is not modelled and
  that clause of C16 is decided only by the differential run.
-/
import PyndlModel.Generated

namespace Pyndl.Attrs

abbrev Str := List Char

/-- the attribute names written by the two `_attributes` functions
    (ndl.py:334-350, wh.py:949-963); `other` = any attribute a user put on the
    weights (the merge keeps those, ndl.py:353). -/
inductive Key where
  | date | eventPath | numberEvents | alpha | betas | lambda | function | method
  | cpuTime | wallTime | hostname | username | pyndl | numpy | pandas | xarray | cython
  | other (name : Str)
deriving DecidableEq, Repr

/-- an attribute dict in its stored form: key ↦ the `' | '`-joined string. -/
abbrev Attrs := List (Key × Str)
/-- the abstract view: key ↦ one entry per call. -/
abbrev AttrsE := List (Key × List Str)

/-- `' | '` (ndl.py:362, wh.py:975) -/
def sep : Str := [' ', '|', ' ']
/-- `width = max(19, width)` (ndl.py:329, wh.py:944) -/
def minWidth : Nat := 19

/-! ## dict access on association lists -/

def get? {β : Type} : List (Key × β) → Key → Option β
  | [], _ => none
  | (k', v) :: rest, k => if k' = k then some v else get? rest k

def hasKey {β : Type} (a : List (Key × β)) (k : Key) : Bool := (get? a k).isSome

/-! ## formatting -/

/-- `'{0: <{width}}'.format(value, width=width)`: left-justified, filled with
    spaces up to `width`, never truncated (ndl.py:331-332, wh.py:946-947). -/
def padRight (width : Nat) (s : Str) : Str := s ++ List.replicate (width - s.length) ' '

/-- `max([len(ss) for ss in (...)])` -/
def maxLen (xs : List Str) : Nat := xs.foldl (fun m s => max m s.length) 0

/-- `str.rstrip(' ')`: what "stripped of the padding" means. -/
def rstrip (s : Str) : Str := (s.reverse.dropWhile (fun c => c == ' ')).reverse

/-- the values of the run environment that go into every entry
    (time.strftime, cpu/wall time, socket.gethostname(), getpass.getuser(),
    package versions); opaque strings for the model. -/
structure Env where
  date : Str
  cpuTime : Str
  wallTime : Str
  hostname : Str
  username : Str
  pyndl : Str
  numpy : Str
  pandas : Str
  xarray : Str
  cython : Str
deriving Repr

/-- arguments of `ndl._attributes` as strings (`str()` taken by Python). -/
structure NdlArgs where
  eventPath : Str
  /-- `str(number_events)` -/
  numberEvents : Str
  /-- `isinstance(alpha, (float, int))` -/
  alphaScalar : Bool
  /-- `str(alpha)` -/
  alphaRepr : Str
  /-- `str(betas)` -/
  betas : Str
  /-- `str(lambda_)` -/
  lambda : Str
  function : Str
  /-- `str(method)` (`'None'` for dict_ndl) -/
  method : Str
  env : Env
deriving Repr

/-- arguments of `wh._attributes` as strings. -/
structure WhArgs where
  eventPath : Str
  numberEvents : Str
  /-- `str(eta)`; stored under the key `'lambda'` (wh.py:952) -/
  eta : Str
  function : Str
  method : Str
  env : Env
deriving Repr

/-- one learner call, seen from its metadata: which `_attributes` it uses. -/
inductive Call where
  | ndl (a : NdlArgs)
  | wh (a : WhArgs)
deriving Repr

/-- `alpha_str` (ndl.py:315-318): `'varying'` unless alpha is a float/int. -/
def alphaStr (a : NdlArgs) : Str :=
  if a.alphaScalar then a.alphaRepr else "varying".toList

/-- ndl.py:320-329 (note: `str(alpha)`, not `alpha_str`, enters the width). -/
def widthNdl (a : NdlArgs) : Nat :=
  max minWidth (maxLen [a.eventPath, a.numberEvents, a.alphaRepr, a.betas, a.lambda,
                        a.function, a.method, a.env.hostname, a.env.username])

/-- wh.py:937-944 -/
def widthWh (a : WhArgs) : Nat :=
  max minWidth (maxLen [a.eventPath, a.numberEvents, a.eta, a.function, a.method,
                        a.env.hostname, a.env.username])

def envRaw (e : Env) : Attrs :=
  [(.cpuTime, e.cpuTime), (.wallTime, e.wallTime), (.hostname, e.hostname),
   (.username, e.username), (.pyndl, e.pyndl), (.numpy, e.numpy), (.pandas, e.pandas),
   (.xarray, e.xarray), (.cython, e.cython)]

/-- the unpadded values of `new_attrs`, in dict order (ndl.py:334-350). -/
def rawNdl (a : NdlArgs) : Attrs :=
  [(.date, a.env.date), (.eventPath, a.eventPath), (.numberEvents, a.numberEvents),
   (.alpha, alphaStr a), (.betas, a.betas), (.lambda, a.lambda), (.function, a.function),
   (.method, a.method)] ++ envRaw a.env

/-- the unpadded values of `new_attrs` of wh (wh.py:949-963): no `alpha`, no
    `betas`; `'lambda'` holds eta. -/
def rawWh (a : WhArgs) : Attrs :=
  [(.date, a.env.date), (.eventPath, a.eventPath), (.numberEvents, a.numberEvents),
   (.lambda, a.eta), (.function, a.function), (.method, a.method)] ++ envRaw a.env

def Call.raw : Call → Attrs
  | .ndl a => rawNdl a
  | .wh a => rawWh a

def Call.width : Call → Nat
  | .ndl a => widthNdl a
  | .wh a => widthWh a

/-- `new_attrs` before the merge: every value through `_format`. -/
def newAttrs (c : Call) : Attrs := c.raw.map (fun kv => (kv.1, padRight c.width kv.2))

/-! ## which learner passes what to `_attributes` -/

/-- the public learners that write run metadata. -/
inductive Learner where
  | ndl        -- ndl.ndl (also wh.wh without vectors, wh.py:122-131)
  | dictNdl    -- ndl.dict_ndl
  | whR2R      -- wh.wh(cue_vectors, outcome_vectors)
  | whB2R      -- wh.wh(outcome_vectors only)
  | whR2B      -- wh.wh(cue_vectors only)
  | dictWh     -- wh.dict_wh
deriving DecidableEq, Repr

/-- the facts of one call as the caller sees them (all `str()` forms supplied
    by Python). -/
structure CallInput where
  /-- `some p`: events given as the path `p`; `none`: a list / generator -/
  path : Option Str
  /-- `str(n)` of the number of events trained on -/
  numberEvents : Str
  /-- `isinstance(alpha, (float, int))` (ndl.ndl only) -/
  alphaScalar : Bool
  /-- `str(alpha)` -/
  alphaRepr : Str
  /-- `str(betas)` (for whR2B: `str((eta, eta))`, wh.py:141) -/
  betas : Str
  /-- `str(lambda_)`, resp. `str(eta)` for the learners using `wh._attributes` -/
  lambda : Str
  /-- `str(method)` -/
  method : Str
  env : Env
deriving Repr

/-- `__name__ + "." + f.__name__` as written at each call site: ndl.py:305,
    ndl.py:497; wh.py:517, 697, 927 use `ndl.__name__` where `ndl` is the
    *module* `pyndl.ndl`, giving `pyndl.wh.pyndl.ndl`; wh.py:306. -/
def Learner.function : Learner → Str
  | .ndl => "pyndl.ndl.ndl".toList
  | .dictNdl => "pyndl.ndl.dict_ndl".toList
  | .whR2R | .whB2R | .whR2B => "pyndl.wh.pyndl.ndl".toList
  | .dictWh => "pyndl.wh.dict_wh".toList

/-- `event_path`: the path argument; `""` for non-path input of the dict
    learners (ndl.py:428-431, wh.py:234-237).  (ndl.ndl with a generator spools
    to a temporary file and reports that path, ndl.py:132-142 — not modelled,
    the harness does not compare that entry.) -/
def eventPathOf (inp : CallInput) : Str := inp.path.getD []

/-- the `_attributes` call of each learner. -/
def mkCall (l : Learner) (inp : CallInput) : Call :=
  match l with
  | .ndl => .ndl            -- ndl.py:304-305
      { eventPath := eventPathOf inp, numberEvents := inp.numberEvents,
        alphaScalar := inp.alphaScalar, alphaRepr := inp.alphaRepr, betas := inp.betas,
        lambda := inp.lambda, function := l.function, method := inp.method, env := inp.env }
  | .dictNdl => .ndl        -- ndl.py:459-461 + 496-497: a float alpha has become a
                            -- defaultdict by then, so `alpha` is always 'varying';
                            -- no `method` argument, so `str(None)`
      { eventPath := eventPathOf inp, numberEvents := inp.numberEvents,
        alphaScalar := false, alphaRepr := inp.alphaRepr, betas := inp.betas,
        lambda := inp.lambda, function := l.function, method := "None".toList, env := inp.env }
  | .whR2B => .ndl          -- wh.py:696-697: alpha is the string 'cue_vectors'
      { eventPath := eventPathOf inp, numberEvents := inp.numberEvents,
        alphaScalar := false, alphaRepr := "cue_vectors".toList, betas := inp.betas,
        lambda := inp.lambda, function := l.function, method := inp.method, env := inp.env }
  | .whR2R | .whB2R => .wh  -- wh.py:926-927, 516-517
      { eventPath := eventPathOf inp, numberEvents := inp.numberEvents, eta := inp.lambda,
        function := l.function, method := inp.method, env := inp.env }
  | .dictWh => .wh          -- wh.py:305-306
      { eventPath := eventPathOf inp, numberEvents := inp.numberEvents, eta := inp.lambda,
        function := l.function, method := "None".toList, env := inp.env }

/-! ## accumulation -/

/-- the merge loop (ndl.py:352-362, wh.py:965-975): for every key of
    `set(attrs) | set(new_attrs)`, `old_val + ' | ' + new_val` with `''` for
    the side that lacks the key.  Order of the result: new keys in their
    order, then old-only keys in old order (Python's order for the latter is
    the set iteration order; the harness compares as dicts). -/
def merge (old new : Attrs) : Attrs :=
  new.map (fun kv => (kv.1, (get? old kv.1).getD [] ++ sep ++ kv.2))
  ++ (old.filter (fun kv => !(hasKey new kv.1))).map (fun kv => (kv.1, kv.2 ++ sep ++ []))

/-- `_attributes(..., attrs=attrs_to_be_updated)`: `attrs is None` returns the
    new entries alone (ndl.py:352, wh.py:965). -/
def attributes (c : Call) (attrs : Option Attrs) : Attrs :=
  match attrs with
  | none => newAttrs c
  | some old => merge old (newAttrs c)

/-- a chain of calls, each handed the weights (hence attrs) of the previous
    one; the first gets `weights=None`.  ndl.py:299-305 (`weights_ini.attrs`),
    ndl.py:438-442 + 496-502 (dict_ndl: WeightDict.attrs or DataArray attrs,
    result attrs put on the WeightDict or on the new DataArray),
    wh.py:511-517, 691-697, 921-927. -/
def runChain (cs : List Call) : Option Attrs :=
  cs.foldl (fun acc c => some (attributes c acc)) none

/-- the stored string of attribute `k` after the chain (`None` if absent). -/
def stored (cs : List Call) (k : Key) : Option Str := (runChain cs).bind (fun a => get? a k)

/-- chain operations: a learner call, or `to_netcdf` + `open_dataarray().load()`
    which this model takes to be the identity on attrs (NOT modelled, only
    sampled by the differential run). -/
inductive Op where
  | call (c : Call)
  | saveLoad
deriving Repr

def runOps (ops : List Op) : Option Attrs :=
  ops.foldl (fun acc op => match op with
    | .call c => some (attributes c acc)
    | .saveLoad => acc) none

def calls : List Op → List Call
  | [] => []
  | .call c :: r => c :: calls r
  | .saveLoad :: r => calls r

/-! ## the abstract view: one entry per call -/

/-- `intercalate ' | '` (own structural definition) -/
def joinSep : List Str → Str
  | [] => []
  | [x] => x
  | x :: y :: r => x ++ sep ++ joinSep (y :: r)

def render (a : AttrsE) : Attrs := a.map (fun kv => (kv.1, joinSep kv.2))

def single (a : Attrs) : AttrsE := a.map (fun kv => (kv.1, [kv.2]))

/-- the merge on entry lists: the missing old side is the one entry `''`, the
    missing new side appends the entry `''`. -/
def mergeE (old : AttrsE) (new : Attrs) : AttrsE :=
  new.map (fun kv => (kv.1, (get? old kv.1).getD [[]] ++ [kv.2]))
  ++ (old.filter (fun kv => !(hasKey new kv.1))).map (fun kv => (kv.1, kv.2 ++ [[]]))

/-- entry lists after a chain `c₀ :: rest`. -/
def runChainE (c₀ : Call) (rest : List Call) : AttrsE :=
  rest.foldl (fun acc c => mergeE acc (newAttrs c)) (single (newAttrs c₀))

/-- the entry call `c` writes for key `k` (`''` if its key set lacks `k`). -/
def entryOf (k : Key) (c : Call) : Str := (get? (newAttrs c) k).getD []

/-! ## splitting the stored string at `' | '` -/

/-- does the string start with `' | '`? -/
def startsSep : Str → Bool
  | c :: c2 :: c3 :: _ => c == ' ' && c2 == '|' && c3 == ' '
  | _ => false

/-- `str.split(' | ')`: leftmost, non-overlapping occurrences.  `skip` counts
    the characters of a separator just found that are still to be passed over
    (keeps the recursion structural). -/
def splitBarAux : Str → Nat → Str → List Str
  | [], _, acc => [acc.reverse]
  | _ :: tl, skip + 1, acc => splitBarAux tl skip acc
  | c :: tl, 0, acc =>
    if startsSep (c :: tl) then acc.reverse :: splitBarAux tl 2 []
    else splitBarAux tl 0 (c :: acc)

def splitBar (s : Str) : List Str := splitBarAux s 0 []

/-- the entries of a stored attribute as a reader sees them: split at `' | '`,
    padding stripped. -/
def entries (s : Str) : List Str := (splitBar s).map rstrip

def keyName : Key → String
  | .date => "date" | .eventPath => "event_path" | .numberEvents => "number_events"
  | .alpha => "alpha" | .betas => "betas" | .lambda => "lambda" | .function => "function"
  | .method => "method" | .cpuTime => "cpu_time" | .wallTime => "wall_time"
  | .hostname => "hostname" | .username => "username" | .pyndl => "pyndl"
  | .numpy => "numpy" | .pandas => "pandas" | .xarray => "xarray" | .cython => "cython"
  | .other n => String.ofList n

end Pyndl.Attrs
